#!/bin/bash
# usage: tools_seed_par.sh <workers> <log> <seed ids...>
# runs seeded changes against the check of the property they break, several at a time: every worker has its own scratch worktree of
# /repo under /tmp (VERIF_REPO), its own evidence directory; /repo itself is not touched. Worktrees are removed at the end.
W="$1"; LOG="$2"; shift 2
cd "$(dirname "$0")"; HERE="$PWD"
export VERIF_KEEP_BUILDS=60          # several trees are built and used side by side: no eviction while this runs
: > "$LOG"
ids=("$@")
worker() {
  k="$1"; wt="/tmp/mx-repo-$k"
  git -C /repo worktree remove --force "$wt" 2>/dev/null
  git -C /repo worktree add -q --detach "$wt" HEAD || exit 9
  i=0
  for id in "${ids[@]}"; do
    if [ $((i % W)) -eq "$k" ]; then
      d="seeded/$id"
      prop=$(python3 -c "import json; print(json.load(open('$d/meta.json'))['breaks_property'])")
      if git -C "$wt" apply "$HERE/$d/patch.diff" 2>/dev/null; then
        mkdir -p /verif/.cache/mx-out
        out=$(VERIF_REPO="$wt" VERIF_EVIDENCE_DIR=$HERE/.cache/evidence-mx-$k timeout 3000 ./check "$prop" 2>&1); code=$?
        echo "$out" | tail -40 > /verif/.cache/mx-out/$id.log
        echo "$id breaks=$prop :: == $prop exit=$code :: $(echo "$out" | grep -c '^VIOLATION') violations :: $(echo "$out" | grep '^BROKEN' | head -1 | cut -c1-200)" >> "$LOG"
      else
        echo "$id breaks=$prop :: patch does not apply" >> "$LOG"
      fi
      git -C "$wt" checkout -q -- . ; git -C "$wt" clean -fdq
    fi
    i=$((i + 1))
  done
  git -C /repo worktree remove --force "$wt"
}
for k in $(seq 0 $((W - 1))); do worker "$k" & done
wait
git -C /repo worktree prune
# back to the usual number of cached builds
ls -dt "$HERE"/.cache/b-* 2>/dev/null | tail -n +5 | xargs -r rm -rf
sort "$LOG" -o "$LOG"
