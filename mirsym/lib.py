"""Library contracts: what the engine does for calls that leave solstat's own MIR (std, regex, fs, ...).
Every contract hit by a check is listed in its evidence file; each is part of the claim (DESIGN.md 2.4)."""
import re

import z3

from .engine import (Adt, Array, BoxV, Choice, Closure, Exit, FnItem, Int, IterV, MapV, MutBox, Opaque, Panic, Ptr, Ref,
                     SetV, Str, CaseStr, Tuple, UNINIT, UNIT, Unsupported, ValRef, VecV)
from .mirparse import INT_TYPES

CONTRACTS = []


def contract(pattern, name=None):
    def deco(f):
        CONTRACTS.append((re.compile(pattern), f, name or f.__name__))
        return f
    return deco


def install(engine):
    engine.contracts = list(CONTRACTS)


NONE = Adt('Option', 'None')


def some(v):
    return Adt('Option', 'Some', (v,))


def ok(v):
    return Adt('Result', 'Ok', (v,))


def err(v):
    return Adt('Result', 'Err', (v,))


# ------------------------------------------------------------------------------------------------ generic
@contract(r'^<.* as Clone>::clone$')
def clone(e, args, fr, m):
    return e.load(args[0])


@contract(r'^<.* as Drop>::drop$|^drop::<.*>$|^std::mem::drop|^mem::drop')
def drop_(e, args, fr, m):
    return UNIT


@contract(r'^must_use::<.*>$|^<String as From<String>>::from$|^black_box')
def identity(e, args, fr, m):
    return args[0]


@contract(r'^<(.+) as Into<\1>>::into$|^<(.+) as From<\2>>::from$')
def into_self(e, args, fr, m):
    """blanket `impl<T> From<T> for T`"""
    return args[0]


@contract(r'^<.* as Deref>::deref$')
def deref(e, args, fr, m):
    v = e.load(args[0])
    if isinstance(v, (Str, VecV)):
        return v                       # &str / &[T] are modelled by value
    if isinstance(v, BoxV):
        return ValRef(v.inner)
    if isinstance(v, Adt) and v.ty == 'PathBuf':
        return v
    if isinstance(v, Adt) and v.ty == 'CellGuard':
        return v.fields[0]             # RefMut / Ref / MutexGuard: the reference to the cell's content
    raise Unsupported('deref of %r' % (v,))


@contract(r'^<.* as DerefMut>::deref_mut$')
def deref_mut(e, args, fr, m):
    v = e.load(args[0])
    if isinstance(v, Adt) and v.ty == 'CellGuard':
        return v.fields[0]
    return args[0]


@contract(r'^<.* as AsRef<.*>>::as_ref$')
def as_ref(e, args, fr, m):
    return e.load(args[0])


def deep_eq(e, a, b):
    """structural equality of two values -> python bool or z3 Bool"""
    a, b = e.load(a), e.load(b)
    if isinstance(a, Adt) and a.ty == 'OsStr' and isinstance(b, Str):
        a = e.load(a.fields[0])
    if isinstance(b, Adt) and b.ty == 'OsStr' and isinstance(a, Str):
        b = e.load(b.fields[0])
    if isinstance(a, NameStr) and isinstance(b, Str) and b.concrete and not isinstance(b, NameStr):
        return a.at(0, b.v) if len(b.v) == len(a.chars) else False
    if isinstance(b, NameStr) and isinstance(a, Str) and a.concrete and not isinstance(a, NameStr):
        return b.at(0, a.v) if len(a.v) == len(b.chars) else False
    if isinstance(a, Str) and isinstance(b, Str):
        return str_eq(a, b)
    if isinstance(a, Int) and isinstance(b, Int):
        if a.concrete and b.concrete:
            return a.v == b.v
        if not a.concrete and not b.concrete and a.v.eq(b.v):
            return True
        return a.z() == b.z()
    if isinstance(a, bool) and isinstance(b, bool):
        return a == b
    if z3.is_bool(a) or z3.is_bool(b):
        return e._beq(a, b)
    if isinstance(a, Adt) and isinstance(b, Adt):
        if a.ty != b.ty or a.variant != b.variant or len(a.fields) != len(b.fields):
            return False
        if a.ty == 'Loc' and a.variant == 'File':
            # ASSUMPTION (stated in every evidence file that uses symbolic trees): two different nodes of a parse tree
            # never have the same (start, end) extent, a node has the same extent as itself. Loc symbols are named after
            # the node, so equality of symbolic Locs is decided by name.
            na, nb = _loc_name(a), _loc_name(b)
            if na is not None and nb is not None:
                return conj(e, [na == nb, deep_eq(e, a.fields[0], b.fields[0])])
        return conj(e, [deep_eq(e, x, y) for x, y in zip(a.fields, b.fields)])
    if isinstance(a, Tuple) and isinstance(b, Tuple):
        return conj(e, [deep_eq(e, x, y) for x, y in zip(a.fields, b.fields)])
    if isinstance(a, (VecV, Array)) and isinstance(b, (VecV, Array)):
        if len(a.items) != len(b.items):
            return False
        return conj(e, [deep_eq(e, x, y) for x, y in zip(a.items, b.items)])
    if isinstance(a, BoxV) and isinstance(b, BoxV):
        return deep_eq(e, a.inner, b.inner)
    if isinstance(a, SetV) and isinstance(b, SetV) and a.kind == b.kind == 'btree':
        # ordered sets: equal iff equal as sorted sequences
        if len(a.items) != len(b.items):
            return False
        return conj(e, [deep_eq(e, x, y) for x, y in zip(a.items, b.items)])
    if isinstance(a, Opaque) and isinstance(b, Opaque):
        if a.name == b.name:
            return True
        raise Unsupported('equality of distinct opaque values')
    raise Unsupported('equality of %r and %r' % (a, b))


def _loc_name(l):
    s_, e_ = l.fields[1], l.fields[2]
    if isinstance(s_, Int) and isinstance(e_, Int) and not s_.concrete and not e_.concrete and \
            z3.is_const(s_.v) and z3.is_const(e_.v):
        a, b = s_.v.decl().name(), e_.v.decl().name()
        if a.endswith('.s') and b.endswith('.e') and a[:-2] == b[:-2]:
            return a[:-2]
    return None


def conj(e, parts):
    out = []
    for p in parts:
        if p is False:
            return False
        if p is True:
            continue
        out.append(p)
    if not out:
        return True
    return z3.simplify(z3.And(*out)) if len(out) > 1 else out[0]


def disj(parts):
    out = []
    for p in parts:
        if p is True:
            return True
        if p is False:
            continue
        out.append(p)
    if not out:
        return False
    return z3.simplify(z3.Or(*out)) if len(out) > 1 else out[0]


@contract(r'^<.* as PartialEq(?:<.*>)?>::eq$')
def partial_eq(e, args, fr, m):
    return deep_eq(e, args[0], args[1])


@contract(r'^<.* as PartialEq(?:<.*>)?>::ne$')
def partial_ne(e, args, fr, m):
    return e._bnot(deep_eq(e, args[0], args[1]))


# ------------------------------------------------------------------------------------------------ Option / Result
@contract(r'^Option::<.*>::is_some$')
def opt_is_some(e, args, fr, m):
    return e.load(args[0]).variant == 'Some'


@contract(r'^Option::<.*>::is_none$')
def opt_is_none(e, args, fr, m):
    return e.load(args[0]).variant == 'None'


@contract(r'^Option::<.*>::unwrap$')
def opt_unwrap(e, args, fr, m):
    v = e.force(args[0])
    if v.variant != 'Some':
        raise Panic('called `Option::unwrap()` on a `None` value')
    return v.fields[0]


@contract(r'^Option::<.*>::expect$')
def opt_expect(e, args, fr, m):
    v = e.force(args[0])
    if v.variant != 'Some':
        raise Panic(render(e, e.load(args[1])))
    return v.fields[0]


@contract(r'^Option::<.*>::as_ref$')
def opt_as_ref(e, args, fr, m):
    v = e.load(args[0])
    if v.variant != 'Some':
        return NONE
    return some(ValRef(v.fields[0]))


@contract(r'^Option::<.*>::unwrap_or$')
def opt_unwrap_or(e, args, fr, m):
    v = e.force(args[0])
    return v.fields[0] if v.variant == 'Some' else args[1]


@contract(r'^Result::<.*>::unwrap$')
def res_unwrap(e, args, fr, m):
    v = e.force(args[0])
    if v.variant != 'Ok':
        raise Panic('called `Result::unwrap()` on an `Err` value: %s' % render(e, v.fields[0]))
    return v.fields[0]


@contract(r'^Result::<.*>::expect$')
def res_expect(e, args, fr, m):
    v = e.force(args[0])
    if v.variant != 'Ok':
        raise Panic('%s: %s' % (render(e, e.load(args[1])), render(e, v.fields[0])))
    return v.fields[0]


@contract(r'^Result::<.*>::is_ok$')
def res_is_ok(e, args, fr, m):
    return e.load(args[0]).variant == 'Ok'


def render(e, v):
    v = e.load(v)
    if isinstance(v, Str):
        return v.v if v.concrete else '<symbolic string>'
    if isinstance(v, Int):
        return str(v.v) if v.concrete else '<symbolic int>'
    return repr(v)


# ------------------------------------------------------------------------------------------------ Vec / slices / iterators
@contract(r'^Vec::<.*>::new$|^<Vec<.*> as Default>::default$')
def vec_new(e, args, fr, m):
    return VecV(())


@contract(r'^Vec::<.*>::push$')
def vec_push(e, args, fr, m):
    v = e.load(args[0])
    e.store(args[0], VecV(v.items + (args[1],)))
    return UNIT


@contract(r'^Vec::<.*>::append$')
def vec_append(e, args, fr, m):
    a, b = e.load(args[0]), e.load(args[1])
    e.store(args[0], VecV(a.items + b.items))
    e.store(args[1], VecV(()))
    return UNIT


@contract(r'^Vec::<.*>::len$|^<impl \[.*\]>::len$')
def vec_len(e, args, fr, m):
    return Int(len(e.load(args[0]).items), 'usize')


@contract(r'^Vec::<.*>::is_empty$|^<impl \[.*\]>::is_empty$')
def vec_is_empty(e, args, fr, m):
    return len(e.load(args[0]).items) == 0


@contract(r'^<Vec<.*> as Index<usize>>::index$|^<\[.*\] as Index<usize>>::index$')
def vec_index(e, args, fr, m):
    v = e.load(args[0])
    i = e.force(args[1])
    if not i.concrete:
        raise Unsupported('symbolic index')
    if i.v >= len(v.items):
        raise Panic('index out of bounds: the len is %d but the index is %d' % (len(v.items), i.v))
    return ValRef(v.items[i.v])


@contract(r'^<impl \[.*\]>::get::<usize>$')
def slice_get(e, args, fr, m):
    v = e.load(args[0])
    i = e.force(args[1])
    if not i.concrete:
        raise Unsupported('symbolic index')
    return some(ValRef(v.items[i.v])) if i.v < len(v.items) else NONE


@contract(r'^<impl \[.*\]>::last$')
def slice_last(e, args, fr, m):
    v = e.load(args[0])
    return some(ValRef(v.items[-1])) if v.items else NONE


@contract(r'^<impl \[.*\]>::first$')
def slice_first(e, args, fr, m):
    v = e.load(args[0])
    return some(ValRef(v.items[0])) if v.items else NONE


@contract(r'^Box::<\[.*\]>::new_uninit$')
def box_new_uninit(e, args, fr, m):
    return MutBox(UNINIT)


@contract(r'^box_assume_init_into_vec_unsafe::<.*>$')
def box_into_vec(e, args, fr, m):
    b = e.force(args[0])
    inner = b.inner
    if not isinstance(inner, Array):
        raise Unsupported('box_assume_init_into_vec of %r' % (inner,))
    return VecV(inner.items)


@contract(r'^<impl \[.*\]>::into_vec::<.*>$|^<impl \[.*\]>::to_vec$')
def slice_into_vec(e, args, fr, m):
    v = e.load(args[0])
    if isinstance(v, BoxV):
        v = v.inner
    return VecV(v.items)


@contract(r'^<Vec<.*> as IntoIterator>::into_iter$|^<\[.*; \d+\] as IntoIterator>::into_iter$')
def vec_into_iter(e, args, fr, m):
    v = e.force(args[0])
    return IterV(v.items, 0, 'val')


def ref_items(e, r):
    """references to the elements of the Vec / slice behind r"""
    r = e.force(r)
    v = e.load(r)
    while isinstance(r, (Ref, ValRef)):
        inner = e.force(e.read_place(r.frame, (r.local, r.projs)) if isinstance(r, Ref) else r.v)
        if isinstance(inner, (Ref, ValRef)):
            r = inner
        else:
            break
    if isinstance(r, Ref):
        return [Ref(r.frame, r.local, r.projs + (('vecindex', i),)) for i in range(len(v.items))]
    return [ValRef(x) for x in v.items]


@contract(r'^<&(?:mut )?Vec<.*> as IntoIterator>::into_iter$|^<impl \[.*\]>::iter$|^<impl \[.*\]>::iter_mut$|'
          r'^<&(?:mut )?\[.*\] as IntoIterator>::into_iter$')
def vec_iter(e, args, fr, m):
    return IterV(ref_items(e, args[0]), 0, 'val')


@contract(r'^<(?:IntoIter|Iter|IterMut)<.*> as IntoIterator>::into_iter$|^<(?!Enumerate<ReadDir>)(?:CaptureMatches|SubCaptureMatches|Enumerate|Split)<.*> as IntoIterator>::into_iter$|'
          r'^<Map<(?:Iter|IntoIter)<.*> as IntoIterator>::into_iter$')
def iter_into_iter(e, args, fr, m):
    return args[0]


@contract(r'^<(?!Enumerate<ReadDir>)(?:IntoIter|Iter|IterMut|Enumerate)<.*> as Iterator>::next$|^<.*(?:CaptureMatches|SubCaptureMatches)<.*> as Iterator>::next$')
def iter_next(e, args, fr, m):
    it = e.load(args[0])
    if not isinstance(it, IterV):
        raise Unsupported('next on %r' % (it,))
    if it.kind == 'perm':
        # unspecified iteration order: pick any remaining element (one decision per step)
        remaining = list(it.items)
        if not remaining:
            return NONE
        full = e.flags.get('perm_full', 5)
        budget = e.flags.get('perm_budget', 14)
        used = e.extra.get('perm_decisions', 0)
        if len(remaining) > 1 and used >= budget:
            # the order decisions of this path are used up: the rest is iterated as given (bound stated in the evidence)
            e.extra['perm_budget_exhausted'] = True
            k = 0
        elif len(remaining) <= full:
            k = e.decide(len(remaining), None, 'iteration order') if len(remaining) > 1 else 0
            e.extra['perm_decisions'] = used + (1 if len(remaining) > 1 else 0)
        else:
            e.extra['perm_decisions'] = used + 1
            # n! orders are out of reach: above `perm_full` elements the next element is the first or the last of what remains
            # (2^(n-1) orders, among them the given order and its reverse); stated as a bound wherever symbolic_order is used
            e.extra['perm_bounded'] = max(e.extra.get('perm_bounded', 0), len(remaining))
            k = -e.decide(2, None, 'iteration order (front or back)')
        x = remaining.pop(k)
        e.store(args[0], IterV(remaining, 0, 'perm', it.extra))
        return some(x)
    if it.pos >= len(it.items):
        return NONE
    x = it.items[it.pos]
    e.store(args[0], IterV(it.items, it.pos + 1, it.kind, it.extra))
    if it.kind == 'enum':
        return some(Tuple((Int(it.pos, 'usize'), x)))
    return some(x)


# ---------------------------------------------------------------------------------------------- lazy iterator pipelines
# IterV(kind='lazy', items=source elements, pos, extra=tuple of stages). A stage is (name, closure-or-None, state).
# Elements are pulled one at a time through the stages, exactly as the adaptors of std do: a closure is only called for
# the elements a consumer actually asks for (so a panic / a decision behind an early exit is never executed).
_BYREF = {'filter', 'take_while', 'skip_while', 'inspect'}


def _as_lazy(e, it):
    if not isinstance(it, IterV):
        raise Unsupported('iterator adaptor on %r' % (it,))
    if it.kind == 'lazy':
        return it
    if it.kind == 'val':
        return IterV(it.items[it.pos:], 0, 'lazy', ())
    if it.kind == 'map':
        return IterV(it.items[it.pos:], 0, 'lazy', (('map', it.extra, None),))
    if it.kind == 'filter':
        return IterV(it.items[it.pos:], 0, 'lazy', (('filter', it.extra, None),))
    if it.kind == 'enum':
        return IterV(it.items[it.pos:], 0, 'lazy', (('enumerate', None, it.pos),))
    raise Unsupported('iterator adaptor on a %s iterator' % it.kind)


def lazy_pull(e, fr, it):
    """-> (element or None, iterator after the pull)"""
    items, pos, stages = it.items, it.pos, list(it.extra)
    done = lambda: (None, IterV(items, len(items), 'lazy', tuple(stages)))
    while True:
        if any(st[0] == 'take' and st[2] == 0 for st in stages):
            return done()
        if pos >= len(items):
            return done()
        x = items[pos]
        pos += 1
        dropped = False
        for i, (name, clo, state) in enumerate(stages):
            if name == 'map':
                x = call_closure(e, fr, clo, [x])
            elif name == 'inspect':
                call_closure(e, fr, clo, [ValRef(x)])
            elif name == 'filter':
                if not e.branch(call_closure(e, fr, clo, [ValRef(x)])):
                    dropped = True
            elif name == 'filter_map':
                r = e.force(call_closure(e, fr, clo, [x]))
                if r.variant != 'Some':
                    dropped = True
                else:
                    x = r.fields[0]
            elif name == 'map_while':
                r = e.force(call_closure(e, fr, clo, [x]))
                if r.variant != 'Some':
                    return done()
                x = r.fields[0]
            elif name == 'take_while':
                if not e.branch(call_closure(e, fr, clo, [ValRef(x)])):
                    return done()
            elif name == 'skip_while':
                if not state:
                    if e.branch(call_closure(e, fr, clo, [ValRef(x)])):
                        dropped = True
                    else:
                        stages[i] = (name, clo, True)
            elif name == 'skip':
                if state > 0:
                    stages[i] = (name, clo, state - 1)
                    dropped = True
            elif name == 'take':
                stages[i] = (name, clo, state - 1)
            elif name == 'enumerate':
                x = Tuple((Int(state, 'usize'), x))
                stages[i] = (name, clo, state + 1)
            else:
                raise Unsupported('iterator stage ' + name)
            if dropped:
                break
        if not dropped:
            return x, IterV(items, pos, 'lazy', tuple(stages))


def lazy_drain(e, fr, it):
    out = []
    while True:
        x, it = lazy_pull(e, fr, it)
        if x is None:
            return out, it
        out.append(x)


@contract(r'^<.* as Iterator>::(map_while|take_while|skip_while|filter_map|inspect)::<.*>$')
def iter_lazy_adaptor(e, args, fr, m):
    it = _as_lazy(e, e.force(args[0]))
    name = m.group(1)
    return IterV(it.items, it.pos, 'lazy', it.extra + ((name, args[1], False if name == 'skip_while' else None),))


@contract(r'^<(?!ReadDir).* as Iterator>::(take|skip|step_by)$')
def iter_take_skip(e, args, fr, m):
    it = _as_lazy(e, e.force(args[0]))
    n = e.force(args[1])
    if not n.concrete or m.group(1) == 'step_by':
        raise Unsupported('%s with a symbolic count' % m.group(1))
    return IterV(it.items, it.pos, 'lazy', it.extra + ((m.group(1), None, n.v),))


@contract(r'^<.* as Iterator>::(cloned|copied)::<.*>$|^<.* as Iterator>::(cloned|copied|peekable|fuse|by_ref)$')
def iter_identity_adaptor(e, args, fr, m):
    return e.force(args[0])


@contract(r'^<.* as Iterator>::rev$')
def iter_rev(e, args, fr, m):
    it = e.force(args[0])
    if isinstance(it, IterV) and it.kind == 'val':
        return IterV(list(reversed(it.items[it.pos:])), 0, 'val')
    if isinstance(it, IterV) and it.kind == 'lazy' and all(st[0] in ('map', 'filter', 'filter_map', 'inspect') for st in it.extra):
        return IterV(list(reversed(it.items[it.pos:])), 0, 'lazy', it.extra)     # element-wise stages commute with reversal
    raise Unsupported('rev of a %s iterator' % getattr(it, 'kind', it))


@contract(r'^<.* as Iterator>::chain::<.*>$')
def iter_chain(e, args, fr, m):
    a, b = e.force(args[0]), e.force(args[1])
    if isinstance(b, VecV):
        b = IterV(list(b.items), 0, 'val')
    if isinstance(a, IterV) and isinstance(b, IterV) and a.kind == b.kind == 'val':
        return IterV(a.items[a.pos:] + b.items[b.pos:], 0, 'val')
    raise Unsupported('chain of %s and %s iterators' % (getattr(a, 'kind', a), getattr(b, 'kind', b)))


@contract(r'^<.* as Iterator>::zip::<.*>$')
def iter_zip(e, args, fr, m):
    a, b = e.force(args[0]), e.force(args[1])
    if isinstance(b, VecV):
        b = IterV(list(b.items), 0, 'val')
    if isinstance(a, IterV) and isinstance(b, IterV) and a.kind == b.kind == 'val':
        return IterV([Tuple((x, y)) for x, y in zip(a.items[a.pos:], b.items[b.pos:])], 0, 'val')
    raise Unsupported('zip of %s and %s iterators' % (getattr(a, 'kind', a), getattr(b, 'kind', b)))


@contract(r'^<(?:Map|Filter|FilterMap|MapWhile|TakeWhile|SkipWhile|Take|Skip|Rev|Cloned|Copied|Chain|Zip|Inspect|Peekable|Fuse)<.*> as Iterator>::next$')
def iter_lazy_next(e, args, fr, m):
    it = e.load(args[0])
    if isinstance(it, IterV) and it.kind == 'val':
        if it.pos >= len(it.items):
            return NONE
        e.store(args[0], IterV(it.items, it.pos + 1, 'val', it.extra))
        return some(it.items[it.pos])
    x, it2 = lazy_pull(e, fr, _as_lazy(e, it))
    e.store(args[0], it2)
    return NONE if x is None else some(x)


@contract(r'^<(?:Map|Filter|FilterMap|MapWhile|TakeWhile|SkipWhile|Take|Skip|Rev|Cloned|Copied|Chain|Zip|Inspect|Peekable|Fuse)<.*> as IntoIterator>::into_iter$')
def iter_lazy_into_iter(e, args, fr, m):
    return args[0]


@contract(r'^<.* as Iterator>::(last|for_each::<.*>|nth|find_map::<.*>|max|min)$')
def iter_lazy_consumer(e, args, fr, m):
    which = m.group(1).split(':')[0]
    it = _as_lazy(e, e.force(args[0]))
    if which == 'last':
        xs, _ = lazy_drain(e, fr, it)
        return some(xs[-1]) if xs else NONE
    if which == 'for_each':
        while True:
            x, it = lazy_pull(e, fr, it)
            if x is None:
                return UNIT
            call_closure(e, fr, args[1], [x])
    if which == 'nth':
        n = e.force(args[1])
        if not n.concrete:
            raise Unsupported('nth with a symbolic index')
        x = None
        for _ in range(n.v + 1):
            x, it = lazy_pull(e, fr, it)
            if x is None:
                break
        e.store(args[0], it) if isinstance(args[0], (Ref, Ptr)) else None
        return NONE if x is None else some(x)
    if which == 'find_map':
        while True:
            x, it = lazy_pull(e, fr, it)
            if x is None:
                return NONE
            r = e.force(call_closure(e, fr, args[1], [x]))
            if r.variant == 'Some':
                return r
    xs, _ = lazy_drain(e, fr, it)
    if not xs:
        return NONE
    best = e.force(xs[0])
    for y in xs[1:]:
        y = e.force(y)
        c = e.binop('Gt' if which == 'max' else 'Lt', y, best)
        # max returns the LAST maximal element, min the first minimal one
        if which == 'max':
            c = e.binop('Ge', y, best)
        if e.branch(c):
            best = y
    return some(best)


@contract(r'^<(?!ReadDir).* as Iterator>::enumerate$')
def iter_enumerate(e, args, fr, m):
    it = e.force(args[0])
    if isinstance(it, IterV) and it.kind not in ('val',):
        it = _as_lazy(e, it)
        return IterV(it.items, it.pos, 'lazy', it.extra + (('enumerate', None, 0),))
    return IterV(it.items[it.pos:], 0, 'enum')


@contract(r'^<.* as Iterator>::map::<.*>$')
def iter_map(e, args, fr, m):
    it = e.force(args[0])
    if isinstance(it, IterV) and it.kind not in ('val',):
        it = _as_lazy(e, it)
        return IterV(it.items, it.pos, 'lazy', it.extra + (('map', args[1], None),))
    return IterV(it.items[it.pos:], 0, 'map', args[1])


def call_closure(e, fr, clo, argv):
    clo = e.force(clo)
    if isinstance(clo, Closure):
        # closure bodies are separate MIR items named `<fn>::{closure#N}`; match on the span in the name
        span = clo.name[len('{closure@'):-1]
        for name, fl in e.program.items():
            f = fl[0]
            if '{closure#' in name and f.params and span in f.params[0][1]:
                # Fn / FnMut bodies take the closure by reference, FnOnce bodies by value
                me = ValRef(clo) if f.params[0][1].lstrip().startswith('&') else clo
                return e.call_mir(f, [me] + list(argv), fr.depth + 1)
        raise Unsupported('closure body ' + clo.name)
    if isinstance(clo, FnItem):
        return e.call(fr, clo.name, list(argv))
    raise Unsupported('call of %r' % (clo,))


def _iter_items(e, it):
    if not isinstance(it, IterV) or it.kind not in ('val',):
        raise Unsupported('iterator adaptor on %r' % (getattr(it, 'kind', it),))
    return it.items[it.pos:]


@contract(r'^<.* as Iterator>::(any|all|find|position)::<.*>$')
def iter_any_all_find(e, args, fr, m):
    """short-circuiting adaptors: consume the iterator up to and including the deciding element"""
    it = e.load(args[0])
    which = m.group(1)
    if isinstance(it, IterV) and it.kind in ('lazy', 'map', 'filter', 'enum'):
        it = _as_lazy(e, it)
        k = 0
        while True:
            x, it = lazy_pull(e, fr, it)
            if x is None:
                e.store(args[0], it)
                return {'any': False, 'all': True, 'find': NONE, 'position': NONE}[which]
            hit = e.branch(call_closure(e, fr, args[1], [ValRef(x)] if which == 'find' else [x]))
            if (which in ('any', 'find', 'position') and hit) or (which == 'all' and not hit):
                e.store(args[0], it)
                return {'any': True, 'all': False, 'find': some(x), 'position': some(Int(k, 'usize'))}[which]
            k += 1
    items = _iter_items(e, it)
    for k, x in enumerate(items):
        r = call_closure(e, fr, args[1], [ValRef(x)] if which == 'find' else [x])
        hit = e.branch(r)
        if (which in ('any', 'find', 'position') and hit) or (which == 'all' and not hit):
            e.store(args[0], IterV(it.items, it.pos + k + 1, it.kind, it.extra))
            return {'any': True, 'all': False, 'find': some(x), 'position': some(Int(k, 'usize'))}[which]
    e.store(args[0], IterV(it.items, len(it.items), it.kind, it.extra))
    return {'any': False, 'all': True, 'find': NONE, 'position': NONE}[which]


@contract(r'^<(?!Chars<).* as Iterator>::count$')
def iter_count(e, args, fr, m):
    it = e.force(args[0])
    if isinstance(it, IterV) and it.kind in ('lazy', 'map', 'enum'):
        return Int(len(lazy_drain(e, fr, _as_lazy(e, it))[0]), 'usize')
    if isinstance(it, IterV) and it.kind == 'filter':
        n = 0
        for x in it.items[it.pos:]:
            if e.branch(call_closure(e, fr, it.extra, [ValRef(x)])):
                n += 1
        return Int(n, 'usize')
    return Int(len(_iter_items(e, it)), 'usize')


@contract(r'^<.* as Iterator>::filter::<.*>$')
def iter_filter(e, args, fr, m):
    it = e.force(args[0])
    if isinstance(it, IterV) and it.kind not in ('val',):
        it = _as_lazy(e, it)
        return IterV(it.items, it.pos, 'lazy', it.extra + (('filter', args[1], None),))
    return IterV(_iter_items(e, it), 0, 'filter', args[1])


@contract(r'^<.* as Iterator>::collect::<Vec<.*>>$')
def iter_collect_vec(e, args, fr, m):
    it = e.force(args[0])
    if not isinstance(it, IterV):
        raise Unsupported('collect on %r' % (it,))
    items = it.items[it.pos:]
    if it.kind in ('lazy', 'enum'):
        return VecV(lazy_drain(e, fr, _as_lazy(e, it))[0])
    if it.kind == 'map':
        return VecV([call_closure(e, fr, it.extra, [x]) for x in items])
    if it.kind == 'val':
        return VecV(items)
    if it.kind == 'filter':
        return VecV([x for x in items if e.branch(call_closure(e, fr, it.extra, [ValRef(x)]))])
    raise Unsupported('collect of %s iterator' % it.kind)


@contract(r'^<impl \[(u16|u32|i32|usize)\]>::sort$')
def slice_sort(e, args, fr, m):
    """contract: the slice becomes a sorted permutation of itself (stable sort of integers = sorted multiset)"""
    v = e.load(args[0])
    items = list(v.items)
    if all(x.concrete for x in items):
        out = sorted(items, key=lambda x: x.v)
    else:
        # insertion sort whose comparisons are decided by the solver (forks only where the order is not implied)
        out = []
        signed = INT_TYPES[m.group(1)][1]
        for x in items:
            pos = len(out)
            for j, y in enumerate(out):
                lt = (x.z() < y.z()) if signed else z3.ULT(x.z(), y.z())
                if e.branch(lt):
                    pos = j
                    break
            out.insert(pos, x)
    e.store(args[0], VecV(out))
    return UNIT


# ------------------------------------------------------------------------------------------------ HashSet / BTreeSet / HashMap
@contract(r'^HashSet::<.*>::new$')
def hashset_new(e, args, fr, m):
    return SetV((), 'hash')


@contract(r'^BTreeSet::<.*>::new$')
def btreeset_new(e, args, fr, m):
    return SetV((), 'btree')


def set_member(e, s, x):
    return disj([deep_eq(e, y, x) for y in s.items])


@contract(r'^HashSet::<.*>::insert$')
def hashset_insert(e, args, fr, m):
    s = e.load(args[0])
    present = set_member(e, s, args[1])
    if present is True:
        return False
    # possibly-equal symbolic elements are kept: the set is interpreted up to equality where it is observed
    e.store(args[0], SetV(s.items + (args[1],), s.kind))
    return e._bnot(present)


@contract(r'^HashSet::<.*>::contains::<.*>$')
def hashset_contains(e, args, fr, m):
    return set_member(e, e.load(args[0]), e.load(args[1]))


@contract(r'^HashSet::<.*>::len$|^BTreeSet::<.*>::len$')
def set_len(e, args, fr, m):
    s = e.load(args[0])
    if isinstance(s, Opaque):
        return e.extra_hook('set_len', s)
    items = s.items
    # number of distinct elements; decided structurally when possible
    distinct = []
    for x in items:
        d = [deep_eq(e, x, y) for y in distinct]
        if any(c is True for c in d):
            continue
        if all(c is False for c in d):
            distinct.append(x)
            continue
        if e.branch(disj(d)):
            continue
        distinct.append(x)
    return Int(len(distinct), 'usize')


@contract(r'^<HashSet<.*> as Extend<.*>>::extend::<.*>$')
def hashset_extend(e, args, fr, m):
    s, o = e.load(args[0]), e.force(args[1])
    items = list(s.items)
    src = o.items[o.pos:] if isinstance(o, IterV) and o.kind == 'val' else (lazy_drain(e, fr, _as_lazy(e, o))[0] if isinstance(o, IterV) else o.items)
    for x in src:
        x = e.load(x) if isinstance(x, (Ref, ValRef)) else x
        if set_member(e, SetV(items), x) is not True:
            items.append(x)
    e.store(args[0], SetV(items, s.kind))
    return UNIT


@contract(r'^<.* as Iterator>::collect::<(BTreeSet|HashSet)<.*>>$')
def iter_collect_set(e, args, fr, m):
    it = e.force(args[0])
    src = list(it.items[it.pos:]) if isinstance(it, IterV) and it.kind == 'val' else lazy_drain(e, fr, _as_lazy(e, it))[0]
    items = []
    for x in src:
        x = e.load(x)
        if set_member(e, SetV(items), x) is not True:
            items.append(x)
    return SetV(items, 'btree' if m.group(1) == 'BTreeSet' else 'hash')


def _loc_key(e, v):
    v = e.load(v)
    if not (isinstance(v, Adt) and v.ty == 'Loc' and v.variant == 'File'):
        raise Unsupported('ordering of %r' % (v,))
    return [e.force(f) for f in v.fields]


def _lex_lt(e, xs, ys, or_equal=False):
    strict, prefix = [], True
    for x, y in zip(xs, ys):
        strict.append(conj(e, [prefix, e.binop('Lt', x, y)]))
        prefix = conj(e, [prefix, e.binop('Eq', x, y)])
    return disj(strict + ([prefix] if or_equal else []))


@contract(r'^BTreeSet::<Loc>::range::<Loc, Range(Inclusive|From|To|)<Loc>>$')
def btreeset_range_loc(e, args, fr, m):
    """the elements lo <= x < hi in the derived order of Loc::File (file number, start, end): one decision per element"""
    s = e.load(args[0])
    rng = e.force(args[1])
    kind = m.group(1)
    lo = _loc_key(e, rng.fields[0]) if kind in ('', 'Inclusive', 'From') else None
    hi = _loc_key(e, rng.fields[-1 if kind != 'From' else 0]) if kind in ('', 'Inclusive', 'To') else None
    if kind == 'Inclusive' and len(rng.fields) > 2:
        hi = _loc_key(e, rng.fields[1])
    out = []
    for x in s.items:
        k = _loc_key(e, x)
        conds = []
        if lo is not None:
            conds.append(_lex_lt(e, lo, k, or_equal=True))
        if hi is not None:
            conds.append(_lex_lt(e, k, hi, or_equal=(kind == 'Inclusive')))
        if e.branch(conj(e, conds)):
            out.append(x)
    return IterV(out, 0, 'val')


@contract(r'^BTreeSet::<(i8|i16|i32|i64|u8|u16|u32|u64|usize|isize)>::range::<\1, Range(Inclusive|From|To|)<\1>>$')
def btreeset_range_int(e, args, fr, m):
    """the elements of an integer set inside the range, in the set's (ascending) order: one decision per element"""
    s = e.load(args[0])
    rng = e.force(args[1])
    kind = m.group(2)
    lo = rng.fields[0] if kind in ('', 'Inclusive', 'From') else None
    hi = None
    if kind == 'To':
        hi = rng.fields[0]
    elif kind in ('', 'Inclusive'):
        hi = rng.fields[1]
    out = []
    for x in s.items:
        conds = []
        if lo is not None:
            conds.append(e.binop('Le', lo, x))
        if hi is not None:
            conds.append(e.binop('Le' if kind == 'Inclusive' else 'Lt', x, hi))
        if e.branch(conj(e, conds)):
            out.append(x)
    return IterV(out, 0, 'val')


@contract(r'^<(?:btree_set::)?Range<.*> as IntoIterator>::into_iter$')
def btree_range_into_iter(e, args, fr, m):
    return args[0]


@contract(r'^<HashSet<.*> as IntoIterator>::into_iter$')
def hashset_into_iter(e, args, fr, m):
    s = e.force(args[0])
    return IterV(s.items, 0, 'perm' if e.flags.get('symbolic_order') else 'val')


@contract(r'^BTreeSet::<.*>::insert$')
def btreeset_insert(e, args, fr, m):
    s = e.load(args[0])
    x = e.force(args[1])
    out = list(s.items)
    pos = len(out)
    for j, y in enumerate(out):
        if e.branch(deep_eq(e, x, y)):
            return False
        lt = (x.v < y.v) if (x.concrete and y.concrete) else (x.z() < y.z())
        if e.branch(lt):
            pos = j
            break
    out.insert(pos, x)
    e.store(args[0], SetV(out, 'btree'))
    return True


@contract(r'^<BTreeSet<.*> as IntoIterator>::into_iter$')
def btreeset_into_iter(e, args, fr, m):
    return IterV(e.force(args[0]).items, 0, 'val')


@contract(r'^HashMap::<.*>::new$')
def hashmap_new(e, args, fr, m):
    return MapV(())


def map_find(e, mp, key):
    key = e.load(key)
    for i, (k, _) in enumerate(mp.pairs):
        if e.branch(deep_eq(e, k, key)):
            return i
    return -1


@contract(r'^HashMap::<.*>::insert$')
def hashmap_insert(e, args, fr, m):
    mp = e.load(args[0])
    i = map_find(e, mp, args[1])
    if i >= 0:
        old = mp.pairs[i][1]
        pairs = list(mp.pairs)
        pairs[i] = (pairs[i][0], args[2])
        e.store(args[0], MapV(pairs))
        return some(old)
    e.store(args[0], MapV(mp.pairs + ((e.force(args[1]), args[2]),)))
    return NONE


@contract(r'^HashMap::<.*>::contains_key::<.*>$')
def hashmap_contains_key(e, args, fr, m):
    return map_find(e, e.load(args[0]), args[1]) >= 0


@contract(r'^HashMap::<.*>::remove::<.*>$')
def hashmap_remove(e, args, fr, m):
    mp = e.load(args[0])
    i = map_find(e, mp, args[1])
    if i < 0:
        return NONE
    e.store(args[0], MapV(mp.pairs[:i] + mp.pairs[i + 1:]))
    return some(mp.pairs[i][1])


@contract(r'^HashMap::<.*>::get::<.*>$')
def hashmap_get(e, args, fr, m):
    mp = e.load(args[0])
    i = map_find(e, mp, args[1])
    return some(ValRef(mp.pairs[i][1])) if i >= 0 else NONE


@contract(r'^HashMap::<.*>::len$')
def hashmap_len(e, args, fr, m):
    return Int(len(e.load(args[0]).pairs), 'usize')


@contract(r'^HashMap::<.*>::entry$')
def hashmap_entry(e, args, fr, m):
    return Adt('Entry', None, (args[0], e.force(args[1])))


@contract(r'^Entry::<.*>::or_insert$')
def entry_or_insert(e, args, fr, m):
    ent = e.force(args[0])
    mref, key = ent.fields
    mp = e.load(mref)
    i = map_find(e, mp, key)
    if i < 0:
        mp = MapV(mp.pairs + ((key, args[1]),))
        e.store(mref, mp)
        i = len(mp.pairs) - 1
    r = e.force(mref)
    while isinstance(r, (Ref, ValRef)):
        inner = e.force(e.read_place(r.frame, (r.local, r.projs)) if isinstance(r, Ref) else r.v)
        if isinstance(inner, (Ref, ValRef)):
            r = inner
        else:
            break
    if not isinstance(r, Ref):
        raise Unsupported('entry on a map without a place')
    return Ref(r.frame, r.local, r.projs + (('mapvalue', i),))


@contract(r'^<HashMap<.*> as Extend<\(.*\)>>::extend::<.*>$')
def hashmap_extend(e, args, fr, m):
    """std contract: inserts every pair of the argument; a pair whose key is already present REPLACES the value"""
    mp, other = e.load(args[0]), e.force(args[1])
    pairs = list(mp.pairs)
    src = other.pairs if isinstance(other, MapV) else [tuple(x.fields) for x in other.items]
    for k, v in src:
        i = map_find(e, MapV(pairs), k)
        if i >= 0:
            pairs[i] = (pairs[i][0], v)
        else:
            pairs.append((k, v))
    e.store(args[0], MapV(pairs))
    return UNIT


@contract(r'^<HashMap<.*> as IntoIterator>::into_iter$')
def hashmap_into_iter(e, args, fr, m):
    mp = e.force(args[0])
    return IterV([Tuple(p) for p in mp.pairs], 0, 'perm' if e.flags.get('symbolic_order') else 'val')


# ------------------------------------------------------------------------------------------------ strings
def str_eq(a, b):
    if a.concrete and b.concrete:
        return a.v == b.v
    if isinstance(a, RankStr) and isinstance(b, RankStr):
        return True if a is b else z3.simplify(a.rank == b.rank)
    ka = a.key() if isinstance(a, CatStr) else ((a.v,) if a.concrete else None)
    kb = b.key() if isinstance(b, CatStr) else ((b.v,) if b.concrete else None)
    if ka is not None and kb is not None:
        if ka == kb:
            return True
        if all(isinstance(x, str) for x in ka) and not all(isinstance(x, str) for x in kb) or \
                all(isinstance(x, str) for x in kb) and not all(isinstance(x, str) for x in ka):
            # a constant against a concatenation with symbolic pieces: decided on the constant prefix when it differs
            c, d = (ka, kb) if all(isinstance(x, str) for x in ka) else (kb, ka)
            const = ''.join(c)
            if isinstance(d[0], str) and not const.startswith(d[0]) and not d[0].startswith(const):
                return False
            if sum(len(x) for x in d if isinstance(x, str)) > len(const):
                return False                # every symbolic piece has length >= 0
    if isinstance(a, CaseStr) and b.concrete:
        return casestr_eq(a, b.v)
    if isinstance(b, CaseStr) and a.concrete:
        return casestr_eq(b, a.v)
    return z3.simplify(a.z() == b.z())


def casestr_eq(c, s):
    if len(s) != len(c.base) or s.lower() != c.base.lower():
        return False
    conds = []
    for i, ch in enumerate(c.base):
        if ch.lower() != ch.upper():
            bit = z3.Extract(i, i, c.mask) == 1
            conds.append(bit if s[i] == ch.upper() else z3.Not(bit))
    return z3.simplify(z3.And(*conds)) if conds else True


class RankStr(Str):
    """file name from an ordered family `a b:<rank>.sol` (contains a space and a colon): only identity and order of names are
    observable by the code under test, both are decided on the integer rank (fast), the text is rendered from the model"""
    __slots__ = ('rank', 'sym')

    def __init__(self, rank, tag):
        self.rank = rank
        self.sym = z3.String('name_' + tag)
        self.v = self.sym

    @property
    def concrete(self):
        return False

    def z(self):
        return self.sym

    def render(self, model):
        return 'a b:%04d.sol' % model.eval(self.rank, model_completion=True).as_long()


class CatStr(Str):
    """concatenation kept as a list of pieces (concrete str / symbolic Str objects): reports are compared piece by piece,
    the Z3 string term is only built when a solver query needs it"""
    __slots__ = ('parts',)

    def __init__(self, parts):
        flat = []
        for p in parts:
            for q in (p.parts if isinstance(p, CatStr) else [p]):
                if isinstance(q, Str) and q.concrete and type(q) is Str:
                    q = q.v
                if isinstance(q, str):
                    if q == '':
                        continue
                    if flat and isinstance(flat[-1], str):
                        flat[-1] = flat[-1] + q
                        continue
                flat.append(q)
        self.parts = flat
        self.v = None

    @property
    def concrete(self):
        return False

    def z(self):
        ps = [z3.StringVal(p) if isinstance(p, str) else p.z() for p in self.parts]
        return z3.Concat(*ps) if len(ps) > 1 else (ps[0] if ps else z3.StringVal(''))

    def render(self, model):
        out = []
        for p in self.parts:
            if isinstance(p, str):
                out.append(p)
            elif hasattr(p, 'render'):
                out.append(p.render(model))
            else:
                out.append(model.eval(p.z(), model_completion=True).as_string())
        return ''.join(out)

    def key(self):
        """hashable structural identity: equal keys => equal strings for all values of the symbols"""
        return tuple(p if isinstance(p, str) else ('sym', p.z().get_id()) for p in self.parts)


def concat(a, b):
    if a.concrete and b.concrete and type(a) is Str and type(b) is Str:
        return Str(a.v + b.v)
    r = CatStr([a, b])
    if len(r.parts) == 1:
        return Str(r.parts[0]) if isinstance(r.parts[0], str) else r.parts[0]
    if not r.parts:
        return Str('')
    return r


@contract(r'^<String as From<&str>>::from$|^<str as ToString>::to_string$|^String::as_str$|^<String as ToString>::to_string$|'
          r'^<impl str>::to_string$|^<impl str>::to_owned$|^<str as ToOwned>::to_owned$|^String::as_mut_str$|'
          r'^<&str as Into<String>>::into$|^<impl str>::as_ref$|^<String as AsRef<str>>::as_ref$')
def str_identity(e, args, fr, m):
    v = e.load(args[0])
    if not isinstance(v, Str):
        raise Unsupported('string conversion of %r' % (v,))
    return v


@contract(r'^String::new$')
def string_new(e, args, fr, m):
    return Str('')


@contract(r'^String::push_str$')
def string_push_str(e, args, fr, m):
    e.store(args[0], concat(e.load(args[0]), e.load(args[1])))
    return UNIT


@contract(r'^<String as Add<&str>>::add$')
def string_add(e, args, fr, m):
    return concat(e.load(args[0]), e.load(args[1]))


@contract(r'^String::is_empty$|^<impl str>::is_empty$')
def string_is_empty(e, args, fr, m):
    s = e.load(args[0])
    if s.concrete:
        return s.v == ''
    if getattr(s, 'byte_len', None) is not None:
        return s.byte_len == 0 if isinstance(s.byte_len, int) else z3.simplify(s.byte_len == 0)
    return z3.simplify(z3.Length(s.z()) == 0)


@contract(r'^String::len$|^<impl str>::len$')
def string_len(e, args, fr, m):
    s = e.load(args[0])
    if s.concrete:
        return Int(len(s.v.encode('utf-8')), 'usize')
    if getattr(s, 'byte_len', None) is not None:
        return Int(s.byte_len, 'usize')
    raise Unsupported('byte length of a symbolic string')


@contract(r'^<impl str>::to_lowercase$')
def str_to_lowercase(e, args, fr, m):
    s = e.load(args[0])
    if s.concrete:
        return Str(s.v.lower())
    if isinstance(s, CaseStr):
        return Str(s.base.lower())
    if isinstance(s, (NameStr, PathStr)):
        return s.lower()
    if getattr(s, 'lower_invariant', False) is True:
        return s
    raise Unsupported('to_lowercase of an unconstrained symbolic string')


@contract(r'^<impl str>::to_uppercase$|^<impl str>::to_ascii_uppercase$|^<impl str>::to_ascii_lowercase$')
def str_to_uppercase(e, args, fr, m):
    s = e.load(args[0])
    which = m.group(0).rsplit('::', 1)[-1]
    if s.concrete:
        if which == 'to_uppercase':
            return Str(s.v.upper())
        f = (lambda c: c.upper()) if which == 'to_ascii_uppercase' else (lambda c: c.lower())
        return Str(''.join(f(c) if c.isascii() else c for c in s.v))
    if isinstance(s, PathStr) and which == 'to_uppercase':
        return s.upper()
    if isinstance(s, NameStr):
        if which == 'to_uppercase':
            return s.upper()
        out = []
        for c in s.chars:
            t = c
            for a, b_ in (UPPER if which == 'to_ascii_uppercase' else LOWER).items():
                if a.isascii() and b_.isascii():
                    t = z3.If(c == NAME_ALPHABET.index(a), z3.BitVecVal(NAME_ALPHABET.index(b_), 4), t)
            out.append(t)
        return NameStr(out)
    raise Unsupported('%s of an unconstrained symbolic string' % which)


@contract(r'^<impl str>::contains::<&str>$|^<impl str>::contains::<&String>$')
def str_contains(e, args, fr, m):
    s, p = e.load(args[0]), e.load(args[1])
    if s.concrete and p.concrete:
        return p.v in s.v
    if isinstance(s, (NameStr, PathStr)) and p.concrete:
        return s.contains(p.v)
    return z3.simplify(z3.Contains(s.z(), p.z()))


@contract(r'^<impl str>::contains::<char>$')
def str_contains_char(e, args, fr, m):
    s, c = e.load(args[0]), e.force(args[1])
    if s.concrete and c.concrete:
        return chr(c.v) in s.v
    if isinstance(s, (NameStr, PathStr)) and c.concrete:
        return s.contains(chr(c.v))
    if c.concrete:
        return z3.simplify(z3.Contains(s.z(), z3.StringVal(chr(c.v))))
    raise Unsupported('contains with symbolic char')


@contract(r'^<impl str>::ends_with::<char>$')
def str_ends_with_char(e, args, fr, m):
    s, c = e.load(args[0]), e.force(args[1])
    if s.concrete and c.concrete:
        return s.v.endswith(chr(c.v))
    if isinstance(s, (NameStr, PathStr)) and c.concrete:
        return s.ends_with(chr(c.v))
    if c.concrete:
        return z3.simplify(z3.SuffixOf(z3.StringVal(chr(c.v)), s.z()))
    raise Unsupported('ends_with with symbolic char')


@contract(r'^<impl str>::ends_with::<&str>$')
def str_ends_with(e, args, fr, m):
    s, p = e.load(args[0]), e.load(args[1])
    if s.concrete and p.concrete:
        return s.v.endswith(p.v)
    if isinstance(s, (NameStr, PathStr)) and p.concrete:
        return s.ends_with(p.v)
    return z3.simplify(z3.SuffixOf(p.z(), s.z()))


@contract(r'^<impl str>::starts_with::<&str>$')
def str_starts_with(e, args, fr, m):
    s, p = e.load(args[0]), e.load(args[1])
    if s.concrete and p.concrete:
        return s.v.startswith(p.v)
    if isinstance(s, (NameStr, PathStr)) and p.concrete:
        return s.starts_with(p.v)
    return z3.simplify(z3.PrefixOf(p.z(), s.z()))


@contract(r'^<impl str>::starts_with::<char>$')
def str_starts_with_char(e, args, fr, m):
    s, c = e.load(args[0]), e.force(args[1])
    if s.concrete:
        return s.v.startswith(chr(c.v))
    if isinstance(s, (NameStr, PathStr)) and c.concrete:
        return s.starts_with(chr(c.v))
    if isinstance(s, SegStr) and s.segs:
        if s.segs[0][0] == 'lit' and s.segs[0][1]:
            return s.segs[0][1].startswith(chr(c.v))
        if s.segs[0][0] == 'dec':
            if not chr(c.v).isdigit():
                return False
    return z3.simplify(z3.PrefixOf(z3.StringVal(chr(c.v)), s.z()))


def int_string(v):
    """decimal rendering of an integer value as a Str (one canonical Z3 term per value: terms are hash-consed)"""
    if v.concrete:
        return Str(str(v.v))
    w, signed = INT_TYPES[v.ty]
    n = z3.BV2Int(v.v, signed)
    if signed:
        return Str(z3.If(n < 0, z3.Concat(z3.StringVal('-'), z3.IntToStr(-n)), z3.IntToStr(n)))
    return Str(z3.IntToStr(n))


@contract(r'^<(i32|u32|usize|u8|u16|i64|u64) as ToString>::to_string$')
def int_to_string(e, args, fr, m):
    return int_string(e.load(args[0]))


@contract(r'^<impl str>::parse::<(i32|u32|u8|u16|usize|u64|i64|u128|i128)>$')
def str_parse_int(e, args, fr, m):
    s = e.load(args[0])
    ty = m.group(1)
    w, signed = INT_TYPES[ty]
    lo, hi = (-(1 << (w - 1)), (1 << (w - 1)) - 1) if signed else (0, (1 << w) - 1)
    if hasattr(s, 'parse_int'):
        return s.parse_int(e, ty, lo, hi)
    if not s.concrete:
        raise Unsupported('parse of a symbolic string')
    t = s.v
    # Rust: optional sign ('+' always, '-' for signed types), then at least one ASCII digit, nothing else
    mm = re.match(r'^([+-]?)([0-9]+)$', t)
    if not mm or (mm.group(1) == '-' and not signed):
        return err(Adt('ParseIntError', None, (Str('invalid digit found in string' if t else
                                                   'cannot parse integer from empty string'),)))
    n = int(t)
    if n < lo or n > hi:
        return err(Adt('ParseIntError', None, (Str('number too large to fit in target type' if n > hi else
                                                   'number too small to fit in target type'),)))
    return ok(Int(n, ty))


@contract(r'^<impl str>::split::<&str>$')
def str_split(e, args, fr, m):
    s, p = e.load(args[0]), e.load(args[1])
    if hasattr(s, 'split'):
        return IterV(s.split(e, p), 0, 'val')
    if not (s.concrete and p.concrete):
        raise Unsupported('split of a symbolic string')
    return IterV([Str(x) for x in s.v.split(p.v)], 0, 'val')


@contract(r'^<Split<.*> as Iterator>::collect::<Vec<&str>>$')
def split_collect(e, args, fr, m):
    it = e.force(args[0])
    return VecV(it.items[it.pos:])


@contract(r'^<Identifier as ToString>::to_string$')
def identifier_to_string(e, args, fr, m):
    """pt::Identifier implements Display by writing its `name`"""
    v = e.load(args[0])
    return e.load(v.fields[1])


# ------------------------------------------------------------------------------------------------ formatting / panics
class FmtArgs:
    def __init__(self, parts):
        self.parts = parts            # list of Str


def debug_str(s):
    """Rust `{:?}` of a str (ASCII subset of the escaping rules)"""
    out = ['"']
    for ch in s:
        if ch == '"': out.append('\\"')
        elif ch == '\\': out.append('\\\\')
        elif ch == '\n': out.append('\\n')
        elif ch == '\t': out.append('\\t')
        elif ch == '\r': out.append('\\r')
        elif ch == "'": out.append("'")
        else: out.append(ch)
    out.append('"')
    return ''.join(out)


def display(e, spec):
    kind, v = spec
    v = e.load(v)
    if isinstance(v, Str):
        if kind == 'debug':
            if not v.concrete:
                raise Unsupported('Debug formatting of a symbolic string')
            return Str(debug_str(v.v))
        return v
    if isinstance(v, Int):
        return int_string(v)
    if isinstance(v, Adt) and not v.fields and v.variant:
        return Str(v.variant)
    if isinstance(v, (VecV, Array)) and kind == 'debug':
        # `{:?}` of a list: [a, b, c] with each element in its own Debug form
        parts = [display(e, ('debug', x)) for x in v.items]
        out = Str('[')
        for i, p_ in enumerate(parts):
            out = concat(concat(out, Str(', ')) if i else out, p_)
        return concat(out, Str(']'))
    if isinstance(v, Tuple) and kind == 'debug':
        parts = [display(e, ('debug', x)) for x in v.fields]
        out = Str('(')
        for i, p_ in enumerate(parts):
            out = concat(concat(out, Str(', ')) if i else out, p_)
        return concat(out, Str(')'))
    if isinstance(v, bool):
        return Str('true' if v else 'false')
    raise Unsupported('formatting of %r' % (v,))


@contract(r"^Argument::<'_>::new_display::<.*>$")
def arg_display(e, args, fr, m):
    return ('display', args[0])


@contract(r"^Argument::<'_>::new_debug::<.*>$")
def arg_debug(e, args, fr, m):
    return ('debug', args[0])


@contract(r"^Arguments::<'_>::new::<\d+, \d+>$")
def arguments_new(e, args, fr, m):
    tmpl = e.load(args[0])
    if not (isinstance(tmpl, tuple) and tmpl[0] == 'bytes'):
        raise Unsupported('format template %r' % (tmpl,))
    b = tmpl[1]
    arr = e.load(args[1])
    argv = list(arr.items)
    parts, i, ai = [], 0, 0
    while True:
        n = b[i]
        i += 1
        if n == 0:
            break
        if n < 0x80:
            parts.append(Str(b[i:i + n].decode('utf-8')))
            i += n
        elif n == 0x80:
            ln = b[i] | (b[i + 1] << 8)
            i += 2
            parts.append(Str(b[i:i + ln].decode('utf-8')))
            i += ln
        elif n == 0xC0:
            parts.append(display(e, argv[ai]))
            ai += 1
        else:
            raise Unsupported('format placeholder with options 0x%02x' % n)
    return FmtArgs(parts)


@contract(r"^Arguments::<'_>::from_str$|^Arguments::<'_>::from_str_nonconst$")
def arguments_from_str(e, args, fr, m):
    return FmtArgs([e.load(args[0])])


@contract(r'^format$|^fmt::format$')
def fmt_format(e, args, fr, m):
    out = Str('')
    for p in args[0].parts:
        out = concat(out, p)
    return out


@contract(r'^panic_fmt$|^rt::panic_fmt$')
def panic_fmt(e, args, fr, m):
    msg = ''.join(p.v if p.concrete else '<symbolic>' for p in args[0].parts)
    raise Panic(msg)


@contract(r'^panic$|^panicking::panic$|^core::panicking::panic$')
def panic_plain(e, args, fr, m):
    raise Panic(render(e, args[0]))


@contract(r'^exit$|^process::exit$')
def process_exit(e, args, fr, m):
    raise Exit(e.force(args[0]).v)


# ------------------------------------------------------------------------------------------------ solang-parser helpers
@contract(r'^Loc::start$')
def loc_start(e, args, fr, m):
    v = e.load(args[0])
    if v.variant != 'File':
        raise Unsupported('Loc::start on %r' % (v,))
    return v.fields[1]


@contract(r'^Loc::end$')
def loc_end(e, args, fr, m):
    v = e.load(args[0])
    return v.fields[2]


# ------------------------------------------------------------------------------------------------ regex (by contract)
import re as _re

REGEX_PATTERNS = {'\\n', '\\d+\\.\\d+\\.+\\d+'}


class SymText(Str):
    """text of a file as a sequence of characters whose *class* is concrete on a path (newline or not) and whose byte
    width (1..4) is symbolic; `chars`: list of ('nl',) | ('ch', width term)"""
    __slots__ = ('chars',)

    def __init__(self, chars):
        self.chars = chars
        self.v = None

    @property
    def concrete(self):
        return False

    def starts(self):
        out, acc = [], z3.BitVecVal(0, 64)
        for c in self.chars:
            out.append(acc)
            acc = acc + (z3.BitVecVal(1, 64) if c[0] == 'nl' else c[1])
        return out, acc

    def render(self, model, rng=None):
        reps = {1: ['a', ' ', '\r', ';'], 2: ['é'], 3: ['€'], 4: ['\U0001d11e']}
        out = []
        for c in self.chars:
            if c[0] == 'nl':
                out.append('\n')
            else:
                w = model.eval(c[1], model_completion=True).as_long()
                alts = reps[w]
                out.append(alts[rng.randrange(len(alts))] if rng else alts[0])
        return ''.join(out)


class SegStr(Str):
    """string made of literal pieces and decimal renderings of symbolic naturals: [('lit', str) | ('dec', z3 Int)]"""
    __slots__ = ('segs',)

    def __init__(self, segs):
        merged = []
        for s in segs:
            if s[0] == 'lit' and merged and merged[-1][0] == 'lit':
                merged[-1] = ('lit', merged[-1][1] + s[1])
            elif not (s[0] == 'lit' and s[1] == ''):
                merged.append(s)
        self.segs = merged
        parts = [z3.StringVal(s[1]) if s[0] == 'lit' else z3.IntToStr(s[1]) for s in merged]
        self.v = z3.Concat(*parts) if len(parts) > 1 else (parts[0] if parts else z3.StringVal(''))

    @property
    def concrete(self):
        return False

    def skeleton(self):
        """text with every symbolic number replaced by a one-digit representative + map char index -> (seg, offset)"""
        text, owner = [], []
        for i, s in enumerate(self.segs):
            piece = s[1] if s[0] == 'lit' else '7'
            for j, ch in enumerate(piece):
                text.append(ch)
                owner.append((i, j))
        return ''.join(text), owner

    def sub(self, a, b, owner):
        """sub-string for skeleton char range [a, b) — symbolic numbers can only be taken whole"""
        segs, i = [], a
        while i < b:
            si, off = owner[i]
            s = self.segs[si]
            if s[0] == 'dec':
                segs.append(s)
                i += 1
            else:
                j = i
                while j < b and owner[j][0] == si:
                    j += 1
                segs.append(('lit', s[1][off:off + (j - i)]))
                i = j
        return SegStr(segs)

    def split(self, e, pat):
        if not pat.concrete or any(ch.isdigit() for ch in pat.v):
            raise Unsupported('split of a structured string by %r' % (pat,))
        text, owner = self.skeleton()
        out, i = [], 0
        while True:
            j = text.find(pat.v, i)
            if j < 0:
                out.append(self.sub(i, len(text), owner))
                break
            out.append(self.sub(i, j, owner))
            i = j + len(pat.v)
        return [simplify_seg(x) for x in out]

    def parse_int(self, e, ty, lo, hi):
        if len(self.segs) == 1 and self.segs[0][0] == 'dec':
            n = self.segs[0][1]
            w = INT_TYPES[ty][0]
            if e.branch(n <= hi):
                return ok(Int(z3.Int2BV(n, w), ty))
            return err(Adt('ParseIntError', None, (Str('number too large to fit in target type'),)))
        if all(s[0] == 'lit' for s in self.segs):
            raise Unsupported('parse of literal SegStr')   # simplify_seg turns these into plain Str
        # digits mixed with other characters, or several numbers glued together
        text, _ = self.skeleton()
        if _re.match(r'^[0-9]+$', text):
            raise Unsupported('parse of a number glued from several symbolic parts')
        return err(Adt('ParseIntError', None, (Str('invalid digit found in string'),)))

    def render(self, model):
        return ''.join(s[1] if s[0] == 'lit' else str(model.eval(s[1], model_completion=True).as_long())
                       for s in self.segs)


def simplify_seg(s):
    if all(x[0] == 'lit' for x in s.segs):
        return Str(''.join(x[1] for x in s.segs))
    return s


@contract(r'^Regex::new$')
def regex_new(e, args, fr, m):
    p = e.load(args[0])
    if not p.concrete:
        raise Unsupported('symbolic regex pattern')
    if p.v not in REGEX_PATTERNS and _simple_regex(p.v) is None:
        raise Unsupported('regex pattern %r has no contract' % p.v)
    return ok(Adt('Regex', None, (p,)))


def _simple_regex(pat):
    """patterns that are a fixed-length sequence of one-character atoms (literal, escaped literal, `.`, `[...]` / `[^...]` of literals),
    optionally anchored with ^ / $, no quantifiers, groups or alternation -> (anchored start, anchored end, [atom]) with
    atom = ('lit', c) | ('any',) | ('set', negated, chars); None for every other pattern"""
    i, atoms, a0, a1 = 0, [], False, False
    if pat.startswith('^'):
        a0, i = True, 1
    while i < len(pat):
        c = pat[i]
        if c == '$' and i == len(pat) - 1:
            a1 = True; i += 1; continue
        if c in '*+?{}()|^$':
            return None
        if c == '\\':
            if i + 1 >= len(pat) or pat[i + 1].isalnum():
                return None                      # classes such as \d, \w, \b: not a literal
            atoms.append(('lit', pat[i + 1])); i += 2; continue
        if c == '.':
            atoms.append(('any',)); i += 1; continue
        if c == '[':
            j = pat.find(']', i + 2)
            if j < 0:
                return None
            body = pat[i + 1:j]
            neg = body.startswith('^')
            body = body[1:] if neg else body
            if '\\' in body or '-' in body[1:-1] or '[' in body:
                return None
            atoms.append(('set', neg, body)); i = j + 1; continue
        atoms.append(('lit', c)); i += 1
    return (a0, a1, atoms) if atoms else None


def _match(start, end, text):
    return Adt('Match', None, (start, end, text))


@contract(r'^Regex::(is_match|find)$')
def regex_is_match(e, args, fr, m):
    """is there a match? (the same match structure as captures_iter: the skeleton of a structured string decides for every instance)"""
    rx = e.load(args[0])
    pat = rx.fields[0].v
    text = e.load(args[1])
    if isinstance(text, NameStr) and m.group(1) == 'is_match' and _simple_regex(pat) is not None:
        # a symbolic file name against a fixed-length pattern: one condition per position (`.` matches every letter of the alphabet, none
        # of which is a line feed)
        a0, a1, atoms = _simple_regex(pat)
        n, k = len(text.chars), len(atoms)
        alts = []
        for pos in range(0, n - k + 1):
            if (a0 and pos != 0) or (a1 and pos + k != n):
                continue
            cs = []
            for j, atom in enumerate(atoms):
                c = text.chars[pos + j]
                if atom[0] == 'lit':
                    cs.append(NameStr._is(c, atom[1]))
                elif atom[0] == 'set':
                    inside = disj([NameStr._is(c, ch) for ch in atom[2]])
                    cs.append(inside if not atom[1] else (True if inside is False else (False if inside is True else z3.Not(inside))))
            alts.append(conj(e, cs))
        return e.branch(disj(alts))
    if isinstance(text, SegStr):
        skel, owner = text.skeleton()
        mm = _re.search(pat, skel)
    elif text.concrete:
        mm = _re.search(pat, text.v)
    else:
        raise Unsupported('regex on an unstructured symbolic string')
    if m.group(1) == 'is_match':
        return mm is not None
    if mm is None:
        return NONE
    if isinstance(text, SegStr):
        return some(_match(Opaque('usize', 'match.start'), Opaque('usize', 'match.end'), simplify_seg(text.sub(mm.start(), mm.end(), owner))))
    b_ = text.v.encode('utf-8')
    return some(_match(Int(len(text.v[:mm.start()].encode('utf-8')), 'usize'), Int(len(text.v[:mm.end()].encode('utf-8')), 'usize'), Str(mm.group(0))))


@contract(r'^Regex::captures_iter$')
def regex_captures_iter(e, args, fr, m):
    rx = e.load(args[0])
    pat = rx.fields[0].v
    text = e.load(args[1])
    caps = []
    if isinstance(text, SymText):
        if pat != '\\n':
            raise Unsupported('regex %r on symbolic text' % pat)
        # force the class of every character (newline or not): one decision per character
        chars = []
        for c in text.chars:
            c = e.force(c) if isinstance(c, Choice) else c
            chars.append(c)
        t = SymText(chars)
        e.extra['text'] = t
        starts, _ = t.starts()
        for c, s in zip(chars, starts):
            if c[0] == 'nl':
                caps.append(Adt('Captures', None, (VecV([some(_match(Int(s, 'usize'), Int(s + 1, 'usize'), Str('\n')))]),)))
        return IterV(caps, 0, 'val')
    if isinstance(text, SegStr):
        skel, owner = text.skeleton()
        for mm in _re.finditer(pat, skel):
            # the match structure must not depend on the representative digits: a match may not start or end inside
            # a symbolic number (it cannot: they are single characters in the skeleton) — and digits adjacent to a
            # symbolic number belong to the same \d+ run in every instance, as in the skeleton
            groups = [some(_match(Opaque('usize', 'match.start'), Opaque('usize', 'match.end'),
                                  simplify_seg(text.sub(mm.start(g), mm.end(g), owner)))) if mm.start(g) >= 0 else NONE
                      for g in range(0, (mm.re.groups or 0) + 1)]
            caps.append(Adt('Captures', None, (VecV(groups),)))
        return IterV(caps, 0, 'val')
    if not text.concrete:
        raise Unsupported('regex on an unstructured symbolic string')
    s = text.v
    for mm in _re.finditer(pat, s):
        groups = []
        for g in range(0, (mm.re.groups or 0) + 1):
            if mm.start(g) < 0:
                groups.append(NONE)
            else:
                a, b = len(s[:mm.start(g)].encode('utf-8')), len(s[:mm.end(g)].encode('utf-8'))
                groups.append(some(_match(Int(a, 'usize'), Int(b, 'usize'), Str(mm.group(g)))))
        caps.append(Adt('Captures', None, (VecV(groups),)))
    return IterV(caps, 0, 'val')


@contract(r"^Captures::<'_>::iter$")
def captures_iter_groups(e, args, fr, m):
    c = e.load(args[0])
    return IterV(c.fields[0].items, 0, 'val')


@contract(r"^Captures::<'_>::get$")
def captures_get(e, args, fr, m):
    c = e.load(args[0])
    i = e.force(args[1]).v
    return c.fields[0].items[i] if i < len(c.fields[0].items) else NONE


@contract(r"^Match::<'_>::start$")
def match_start(e, args, fr, m):
    return e.load(args[0]).fields[0]


@contract(r"^Match::<'_>::end$")
def match_end(e, args, fr, m):
    return e.load(args[0]).fields[1]


@contract(r"^Match::<'_>::as_str$")
def match_as_str(e, args, fr, m):
    return e.load(args[0]).fields[2]


# ------------------------------------------------------------------------------------------------ integer helpers
@contract(r'^<impl (u8|u16|u32|u64|u128|usize)>::is_power_of_two$')
def int_is_power_of_two(e, args, fr, m):
    x = e.force(args[0])
    if x.concrete:
        return x.v > 0 and x.v & (x.v - 1) == 0
    return z3.And(x.v != 0, (x.v & (x.v - 1)) == 0)


@contract(r'^<impl (u8|u16|u32|u64|u128|usize|i32|i64)>::(checked_add|checked_sub|checked_mul)$')
def int_checked(e, args, fr, m):
    a, b = e.force(args[0]), e.force(args[1])
    op = {'checked_add': 'AddWithOverflow', 'checked_sub': 'SubWithOverflow', 'checked_mul': 'MulWithOverflow'}[m.group(2)]
    r = e.binop(op, a, b)
    val, ovf = r.fields
    if e.branch(ovf):
        return NONE
    return some(val)


@contract(r'^<impl (u8|u16|u32|u64|u128|usize|i32|i64)>::(wrapping_add|wrapping_sub|wrapping_mul|saturating_sub)$')
def int_wrapping(e, args, fr, m):
    a, b = e.force(args[0]), e.force(args[1])
    if m.group(2) == 'saturating_sub':
        r = e.binop('SubWithOverflow', a, b)
        if e.branch(r.fields[1]):
            return Int(0, a.ty)
        return r.fields[0]
    return e.binop({'wrapping_add': 'Add', 'wrapping_sub': 'Sub', 'wrapping_mul': 'Mul'}[m.group(2)], a, b)


@contract(r'^<\((?:i32|u32|usize|i64|u64)(?:, (?:i32|u32|usize|i64|u64))*,?\) as PartialOrd>::(lt|le|gt|ge)$')
def tuple_cmp(e, args, fr, m):
    """lexicographic comparison of integer tuples"""
    a, b = e.load(args[0]), e.load(args[1])
    xs, ys = [e.force(x) for x in a.fields], [e.force(y) for y in b.fields]
    op = m.group(1)
    # strict part: exists i: prefix equal and x_i < y_i
    def lt(x, y):
        return e.binop('Lt', x, y)
    def eq(x, y):
        return e.binop('Eq', x, y)
    if op in ('gt', 'ge'):
        xs, ys = ys, xs
    strict = []
    prefix = True
    for x, y in zip(xs, ys):
        strict.append(conj(e, [prefix, lt(x, y)]))
        prefix = conj(e, [prefix, eq(x, y)])
    res = disj(strict)
    if op in ('le', 'ge'):
        res = disj([res, prefix])
    return res


# Unicode White_Space (what char::is_whitespace accepts)
_WHITE_SPACE = [(0x9, 0xd), (0x20, 0x20), (0x85, 0x85), (0xa0, 0xa0), (0x1680, 0x1680), (0x2000, 0x200a), (0x2028, 0x2029), (0x202f, 0x202f),
                (0x205f, 0x205f), (0x3000, 0x3000)]


@contract(r'^<impl str>::(trim|trim_start|trim_end)$')
def str_trim(e, args, fr, m):
    s_ = e.load(args[0])
    which = m.group(1)
    f = {'trim': str.strip, 'trim_start': str.lstrip, 'trim_end': str.rstrip}[which]
    if s_.concrete:
        return Str(f(s_.v))
    if isinstance(s_, SegStr):
        segs = list(s_.segs)
        if which in ('trim', 'trim_start') and segs and segs[0][0] == 'lit':
            segs[0] = ('lit', segs[0][1].lstrip())
        if which in ('trim', 'trim_end') and segs and segs[-1][0] == 'lit':
            segs[-1] = ('lit', segs[-1][1].rstrip())
        # a symbolic number never starts or ends with white space
        return simplify_seg(SegStr(segs))
    # generic symbolic string: s = lead ++ r ++ trail, lead / trail consist of White_Space characters only and r neither starts nor
    # ends with one. The fresh names are derived from the argument term, so re-executions of the same path reuse them.
    z = s_.z()
    tag = '%s_%d' % (which, z.get_id())
    lead = z3.String('trimlead_' + tag) if which in ('trim', 'trim_start') else z3.StringVal('')
    trail = z3.String('trimtrail_' + tag) if which in ('trim', 'trim_end') else z3.StringVal('')
    r = z3.String('trimmed_' + tag)
    ws = z3.Union(*[z3.Range(chr(a), chr(b)) for a, b in _WHITE_SPACE])
    e.assume(z == z3.Concat(lead, r, trail) if which == 'trim' else (z == z3.Concat(lead, r) if which == 'trim_start' else z == z3.Concat(r, trail)))
    if which in ('trim', 'trim_start'):
        e.assume(z3.InRe(lead, z3.Star(ws)))
        e.assume(z3.Or(z3.Length(r) == 0, z3.Not(z3.InRe(z3.SubString(r, 0, 1), ws))))
    if which in ('trim', 'trim_end'):
        e.assume(z3.InRe(trail, z3.Star(ws)))
        e.assume(z3.Or(z3.Length(r) == 0, z3.Not(z3.InRe(z3.SubString(r, z3.Length(r) - 1, 1), ws))))
    return Str(r)


@contract(r'^<impl (u8|u16|u32|u64|u128|usize|i32|i64)>::saturating_add$')
def int_saturating_add(e, args, fr, m):
    a, b = e.force(args[0]), e.force(args[1])
    r = e.binop('AddWithOverflow', a, b)
    if e.branch(r.fields[1]):
        w, signed = INT_TYPES[a.ty]
        # overflow direction: positive for unsigned; for signed the sign of b decides
        if not signed:
            return Int((1 << w) - 1, a.ty)
        neg = e.branch(e.binop('Lt', b, Int(0, b.ty)))
        return Int(-(1 << (w - 1)) if neg else (1 << (w - 1)) - 1, a.ty)
    return r.fields[0]


@contract(r'^<Vec<.*> as IndexMut<usize>>::index_mut$|^<\[.*\] as IndexMut<usize>>::index_mut$')
def vec_index_mut(e, args, fr, m):
    r = e.force(args[0])
    v = e.load(r)
    i = e.force(args[1])
    if not i.concrete:
        raise Unsupported('symbolic index')
    if i.v >= len(v.items):
        raise Panic('index out of bounds: the len is %d but the index is %d' % (len(v.items), i.v))
    while isinstance(r, (Ref, ValRef)):
        inner = e.force(e.read_place(r.frame, (r.local, r.projs)) if isinstance(r, Ref) else r.v)
        if isinstance(inner, (Ref, ValRef)):
            r = inner
        else:
            break
    if not isinstance(r, Ref):
        raise Unsupported('index_mut on a vector without a place')
    return Ref(r.frame, r.local, r.projs + (('vecindex', i.v),))


# ------------------------------------------------------------------------------------------------ fs::write (effect log)
@contract(r'^(?:fs::)?write::<.*>$')
def fs_write(e, args, fr, m):
    e.extra.setdefault('writes', []).append((e.load(args[0]), e.load(args[1])))
    return ok(UNIT)


def _tuple_lt(e, a, b):
    """(String, BTreeSet<i32>) ordering: name first (byte order = code point order for UTF-8), then the line sets"""
    na, nb = e.load(a.fields[0]), e.load(b.fields[0])
    if na.concrete and nb.concrete:
        if na.v != nb.v:
            return na.v.encode() < nb.v.encode()
    elif isinstance(na, RankStr) and isinstance(nb, RankStr):
        if e.branch(z3.simplify(na.rank < nb.rank)):
            return True
        if not e.branch(z3.simplify(na.rank == nb.rank)):
            return False
    else:
        if e.branch(z3.simplify(na.z() < nb.z())):
            return True
        if not e.branch(z3.simplify(na.z() == nb.z())):
            return False
    la, lb = e.load(a.fields[1]).items, e.load(b.fields[1]).items
    for x, y in zip(la, lb):
        if e.branch(e.binop('Lt', x, y)):
            return True
        if not e.branch(e.binop('Eq', x, y)):
            return False
    return len(la) < len(lb)


@contract(r'^<impl \[\(String, BTreeSet<i32>\)\]>::sort$')
def sort_findings(e, args, fr, m):
    """contract of slice::sort: a sorted permutation (stable); comparisons decided by the solver where symbolic"""
    v = e.load(args[0])
    out = []
    for x in v.items:
        x = e.force(x)
        pos = len(out)
        for j, y in enumerate(out):
            if _tuple_lt(e, x, y):
                pos = j
                break
        out.insert(pos, x)
    e.store(args[0], VecV(out))
    return UNIT


# ------------------------------------------------------------------------------------------------ more Vec / iterator adaptors
@contract(r'^Vec::<.*>::(retain|retain_mut)::<.*>$')
def vec_retain(e, args, fr, m):
    """keeps the elements for which the closure answers true, in order"""
    v = e.load(args[0])
    out = [x for x in v.items if e.branch(call_closure(e, fr, args[1], [ValRef(x)]))]
    e.store(args[0], VecV(out))
    return UNIT


@contract(r'^(?:BTreeSet|HashSet)::<.*>::is_empty$')
def set_is_empty(e, args, fr, m):
    return len(e.load(args[0]).items) == 0


@contract(r'^Vec::<.*>::dedup$')
def vec_dedup(e, args, fr, m):
    """removes consecutive repeated elements (PartialEq); equality of symbolic elements is decided by the solver"""
    v = e.load(args[0])
    out = []
    for x in v.items:
        if out and e.branch(deep_eq(e, out[-1], x)):
            continue
        out.append(x)
    e.store(args[0], VecV(out))
    return UNIT


@contract(r'^(?:HashMap|BTreeMap)::<.*>::(is_empty|len)$')
def hashmap_is_empty(e, args, fr, m):
    mp = e.load(args[0])
    return (len(mp.pairs) == 0) if m.group(1) == 'is_empty' else Int(len(mp.pairs), 'usize')


@contract(r'^HashMap::<.*>::values$')
def hashmap_values(e, args, fr, m):
    mp = e.load(args[0])
    return IterV([ValRef(v) for _, v in mp.pairs], 0, 'perm' if e.flags.get('symbolic_order') else 'val')


@contract(r'^HashMap::<.*>::keys$')
def hashmap_keys(e, args, fr, m):
    mp = e.load(args[0])
    return IterV([ValRef(k) for k, _ in mp.pairs], 0, 'perm' if e.flags.get('symbolic_order') else 'val')


def _elements_of(e, fr, x):
    """the elements an IntoIterator value yields (Vec, Option, another iterator)"""
    v = e.force(x)
    if isinstance(v, IterV):
        if v.kind == 'val':
            return list(v.items[v.pos:])
        return lazy_drain(e, fr, _as_lazy(e, v))[0]
    if isinstance(v, Adt) and v.ty == 'Option':
        return [v.fields[0]] if v.variant == 'Some' else []
    if isinstance(v, VecV):
        return list(v.items)
    return ref_items(e, x)


@contract(r'^<.* as Iterator>::flatten$')
def iter_flatten(e, args, fr, m):
    it = e.force(args[0])
    out = []
    src = _iter_items(e, it) if isinstance(it, IterV) and it.kind == 'val' else lazy_drain(e, fr, _as_lazy(e, it))[0]
    for x in src:
        out += _elements_of(e, fr, x)
    return IterV(out, 0, 'val')


@contract(r'^<.* as Iterator>::flat_map::<.*>$')
def iter_flat_map(e, args, fr, m):
    """evaluated when the adaptor is built (the closures of this crate are pure; a consumer that stops early would not call the
    closure for the remaining elements -- stated as an assumption of every claim that uses this contract)"""
    it = e.force(args[0])
    src = _iter_items(e, it) if isinstance(it, IterV) and it.kind == 'val' else lazy_drain(e, fr, _as_lazy(e, it))[0]
    out = []
    for x in src:
        out += _elements_of(e, fr, call_closure(e, fr, args[1], [x]))
    return IterV(out, 0, 'val')


@contract(r'^<(?:FlatMap|Flatten)<.*> as Iterator>::next$')
def iter_flat_next(e, args, fr, m):
    it = e.load(args[0])
    if it.pos >= len(it.items):
        return NONE
    e.store(args[0], IterV(it.items, it.pos + 1, it.kind, it.extra))
    return some(it.items[it.pos])


@contract(r'^<(?:FlatMap|Flatten)<.*> as IntoIterator>::into_iter$')
def iter_flat_into_iter(e, args, fr, m):
    return args[0]


@contract(r'^<.* as Iterator>::sum::<(usize|u32|u64|i32)>$')
def iter_sum(e, args, fr, m):
    it = e.force(args[0])
    ty = m.group(1)
    if not isinstance(it, IterV):
        raise Unsupported('sum on %r' % (it,))
    if it.kind == 'lazy':
        it = IterV(lazy_drain(e, fr, it)[0], 0, 'val')
    items = it.items[it.pos:]
    total = Int(0, ty)
    for x in items:
        v = call_closure(e, fr, it.extra, [x]) if it.kind == 'map' else e.load(x)
        total = e.binop('Add', total, e.force(v))
    return total


@contract(r'^<impl \[.*\]>::sort_by::<.*>$')
def slice_sort_by(e, args, fr, m):
    """stable sort by a comparator closure returning Ordering (insertion sort; comparisons are executed from MIR)"""
    v = e.load(args[0])
    out = []
    for x in v.items:
        pos = len(out)
        for j, y in enumerate(out):
            o = e.force(call_closure(e, fr, args[1], [ValRef(x), ValRef(y)]))
            if o.variant == 'Less':
                pos = j
                break
        out.insert(pos, x)
    e.store(args[0], VecV(out))
    return UNIT


@contract(r'^<String as Ord>::cmp$|^<str as Ord>::cmp$|^<impl str>::cmp$')
def string_cmp(e, args, fr, m):
    a, b = e.load(args[0]), e.load(args[1])
    if a.concrete and b.concrete:
        x, y = a.v.encode(), b.v.encode()
        return Adt('Ordering', 'Less' if x < y else 'Equal' if x == y else 'Greater')
    if isinstance(a, RankStr) and isinstance(b, RankStr):
        if e.branch(z3.simplify(a.rank < b.rank)):
            return Adt('Ordering', 'Less')
        return Adt('Ordering', 'Equal' if e.branch(z3.simplify(a.rank == b.rank)) else 'Greater')
    if e.branch(z3.simplify(a.z() < b.z())):
        return Adt('Ordering', 'Less')
    if e.branch(z3.simplify(a.z() == b.z())):
        return Adt('Ordering', 'Equal')
    return Adt('Ordering', 'Greater')


# ------------------------------------------------------------------------------------------------ file system (symbolic world)
class World:
    """symbolic directory tree: dirs maps a path string to a list of entries; an entry is a dict
    {'name': Str, 'kind': 'dir'|'file', 'path': str key, 'contents': Str|None (None = not valid UTF-8)}"""

    def __init__(self):
        self.dirs = {}
        self.files = {}
        self.reads = []
        self.listed = []
        self.aliases = {}            # path as the program may spell it -> key of the entry in a listing


def _world(e):
    w = e.flags.get('world')
    if w is None:
        raise Unsupported('file system access without a world model')
    return w


def _path_key(e, v):
    v = e.load(v)
    if isinstance(v, Adt) and v.ty in ('PathBuf', 'Path', 'OsStr'):
        return v.fields[0]
    if isinstance(v, Str) and v.concrete:
        w = e.flags.get('world')
        # a path written by the program (not obtained from a listing): the same file may be known to the model under a listing key
        return getattr(w, 'aliases', {}).get(v.v, v.v) if w is not None else v.v
    raise Unsupported('path value %r' % (v,))


@contract(r'^read_dir::<.*>$|^fs::read_dir::<.*>$')
def fs_read_dir(e, args, fr, m):
    w = _world(e)
    key = _path_key(e, args[0])
    if key not in w.dirs:
        return err(Adt('IoError', None, (Str('No such file or directory'),)))
    e.extra.setdefault('listed', []).append(key)
    items = [ok(Adt('DirEntry', None, (ent['path'],))) for ent in w.dirs[key]]
    return ok(IterV(items, 0, 'perm' if e.flags.get('symbolic_listing') else 'val', key))


@contract(r'^<ReadDir as IntoIterator>::into_iter$|^<Enumerate<ReadDir> as IntoIterator>::into_iter$')
def readdir_into_iter(e, args, fr, m):
    return args[0]


@contract(r'^<ReadDir as Iterator>::enumerate$')
def readdir_enumerate(e, args, fr, m):
    it = e.force(args[0])
    return IterV(it.items, 0, 'enum_' + it.kind, it.extra)


@contract(r'^<Enumerate<ReadDir> as Iterator>::next$|^<ReadDir as Iterator>::next$')
def readdir_next(e, args, fr, m):
    it = e.load(args[0])
    enum = it.kind.startswith('enum_')
    base = it.kind[5:] if enum else it.kind
    if base == 'perm':
        remaining = list(it.items)
        if not remaining:
            return NONE
        k = e.decide(len(remaining), None, 'directory listing order') if len(remaining) > 1 else 0
        x = remaining.pop(k)
        idx = it.pos
        e.extra.setdefault('listing', {}).setdefault(it.extra, []).append(x.fields[0].fields[0])
        e.store(args[0], IterV(remaining, idx + 1, it.kind, it.extra))
    else:
        consumed = it.pos
        if consumed >= len(it.items):
            return NONE
        x = it.items[consumed]
        idx = consumed
        e.store(args[0], IterV(it.items, consumed + 1, it.kind, it.extra))
    return some(Tuple((Int(idx, 'usize'), x))) if enum else some(x)


@contract(r'^DirEntry::path$')
def direntry_path(e, args, fr, m):
    d = e.load(args[0])
    return Adt('PathBuf', None, (d.fields[0],))


@contract(r'^Path::is_dir$|^PathBuf::is_dir$')
def path_is_dir(e, args, fr, m):
    return _path_key(e, args[0]) in _world(e).dirs


@contract(r'^Path::as_os_str$|^PathBuf::as_os_str$|^PathBuf::as_path$')
def path_as_os_str(e, args, fr, m):
    return Adt('OsStr', None, (_path_key(e, args[0]),))


@contract(r'^OsStr::to_str$|^Path::to_str$')
def osstr_to_str(e, args, fr, m):
    v = e.load(args[0])
    key = v.fields[0]
    if isinstance(key, Str):
        return some(key)
    w = _world(e)
    if key in w.files and w.files[key].get('name_as_path'):
        return some(w.files[key]['name'])
    return some(Str(key))


def _entry_of(w, key):
    """the directory entry (file or sub-directory) with that path key"""
    ent = w.files.get(key)
    if ent is not None:
        return ent
    parent = key.rsplit('/', 1)[0] if '/' in key else None
    for x in w.dirs.get(parent, []) if parent is not None else []:
        if x['path'] == key:
            return x
    return None


@contract(r'^Path::file_name$')
def path_file_name(e, args, fr, m):
    key = _path_key(e, args[0])
    w = _world(e)
    ent = _entry_of(w, key)
    if ent is None:
        return some(Adt('OsStr', None, (Str(key.rsplit('/', 1)[-1]),)))
    return some(Adt('OsStr', None, (ent['name'],)))


class PathStr(Str):
    """a whole path as text: components (concrete Str or NameStr) joined by `/`. Tests with a pattern that contains no `/` are
    decided per component (a suffix test looks at the last component, provided the pattern is not longer than it)"""
    __slots__ = ('comps',)

    def __init__(self, comps):
        self.comps = list(comps)
        self.v = None

    @property
    def concrete(self):
        return False

    def z(self):
        raise Unsupported('PathStr has no string-theory form')

    def lower(self):
        return PathStr([(Str(c.v.lower()) if c.concrete else c.lower()) for c in self.comps])

    def upper(self):
        return PathStr([(Str(c.v.upper()) if c.concrete else c.upper()) for c in self.comps])

    @staticmethod
    def _clen(c):
        return len(c.v) if c.concrete else len(c.chars)

    def contains(self, text):
        if '/' in text:
            raise Unsupported('path pattern with a separator')
        return disj([(text in c.v) if c.concrete else c.contains(text) for c in self.comps])

    def ends_with(self, text):
        last = self.comps[-1]
        if '/' in text or len(text) > self._clen(last):
            if '/' not in text and len(text) > self._clen(last):
                # the pattern would have to span a separator, which it does not contain
                return False
            raise Unsupported('path suffix pattern with a separator')
        return last.v.endswith(text) if last.concrete else last.ends_with(text)

    def starts_with(self, text):
        first = self.comps[0]
        if '/' in text or len(text) > self._clen(first):
            raise Unsupported('path prefix pattern across components')
        return first.v.startswith(text) if first.concrete else first.starts_with(text)

    def render(self, model):
        return '/'.join(c.v if c.concrete else c.render(model) for c in self.comps)


def _path_text(e, key):
    """the path string the program sees for a world key: the analysed directory's own name, then the entry names"""
    w = _world(e)
    parts = key.split('/')
    comps = [Str(parts[0])]
    k = parts[0]
    for comp in parts[1:]:
        k = k + '/' + comp
        ent = _entry_of(w, k)
        comps.append(ent['name'] if ent is not None else Str(comp))
    if all(c.concrete for c in comps):
        return Str('/'.join(c.v for c in comps))
    return PathStr(comps)


@contract(r'^Path::(to_string_lossy|to_str|display)$|^PathBuf::(to_string_lossy|to_str|display)$')
def path_to_text(e, args, fr, m):
    which = m.group(1) or m.group(2)
    t = _path_text(e, _path_key(e, args[0]))
    return some(t) if which == 'to_str' else t


@contract(r'^OsStr::(to_string_lossy|to_str|to_os_string|to_owned)$|^OsString::(into_string|to_string_lossy|to_str|as_os_str)$')
def osstr_to_text(e, args, fr, m):
    v = e.load(args[0])
    which = m.group(1) or m.group(2)
    inner = e.load(v.fields[0]) if isinstance(v, Adt) and v.ty == 'OsStr' else v
    if which in ('to_os_string', 'to_owned', 'as_os_str'):
        return v
    if which == 'to_str':
        return some(inner)
    if which == 'into_string':
        return ok(inner)
    return inner


@contract(r"^<Cow<'_, str> as Deref>::deref$|^<Cow<'_, str> as ToString>::to_string$|^Cow::<'_, str>::into_owned$|^<Display<'_> as ToString>::to_string$")
def cow_str(e, args, fr, m):
    return e.load(args[0])


@contract(r'^Path::(extension|file_stem)$|^PathBuf::(extension|file_stem)$')
def path_extension(e, args, fr, m):
    """Path::extension / file_stem of the final component: the part after / before the LAST dot; a name that starts with its only dot
    has no extension (and is its own stem)"""
    which = m.group(1) or m.group(2)
    key = _path_key(e, args[0])
    w = _world(e)
    ent = _entry_of(w, key)
    name = ent['name'] if ent is not None else Str(key.rsplit('/', 1)[-1])
    wrap = lambda v: some(Adt('OsStr', None, (v,)))
    if name.concrete:
        t = name.v
        k = t.rfind('.')
        if t in ('', '..'):
            return NONE if which == 'extension' or t == '' else wrap(Str(t))
        if k <= 0:
            return NONE if which == 'extension' else wrap(Str(t))
        return wrap(Str(t[k + 1:] if which == 'extension' else t[:k]))
    if not isinstance(name, NameStr):
        raise Unsupported('extension of a symbolic path that is not a NameStr')
    n = len(name.chars)
    dot = [NameStr._is(c, '.') for c in name.chars]
    # alternative k: the last dot is at position k (k = n: no dot at all)
    conds = []
    for k in range(n + 1):
        later = [z3.Not(d) if not isinstance(d, bool) else (not d) for d in dot[k + 1:]] if k < n else [z3.Not(d) if not isinstance(d, bool) else (not d) for d in dot]
        conds.append(conj(e, ([dot[k]] if k < n else []) + later))
    k = e.decide(n + 1, [None if c is True else c for c in conds], 'position of the last dot of a file name')
    if k == n or k == 0:
        if n == 2 and which == 'file_stem':
            pass
        return NONE if which == 'extension' else wrap(name)
    return wrap(NameStr(name.chars[k + 1:]) if which == 'extension' else NameStr(name.chars[:k]))


@contract(r'^<OsStr as PartialEq<str>>::eq$|^<OsStr as PartialEq<&str>>::eq$|^<&OsStr as PartialEq<str>>::eq$|^<&OsStr as PartialEq<&str>>::eq$|^<str as PartialEq<OsStr>>::eq$')
def osstr_eq_str(e, args, fr, m):
    a, b = e.load(args[0]), e.load(args[1])
    a = a.fields[0] if isinstance(a, Adt) and a.ty == 'OsStr' else a
    b = b.fields[0] if isinstance(b, Adt) and b.ty == 'OsStr' else b
    a, b = e.load(a), e.load(b)
    if isinstance(a, NameStr) or isinstance(b, NameStr):
        nm, other = (a, b) if isinstance(a, NameStr) else (b, a)
        if not other.concrete:
            raise Unsupported('comparison of two symbolic names')
        if len(other.v) != len(nm.chars):
            return False
        return nm.at(0, other.v)
    return str_eq(a, b)


@contract(r'^Option::<.*>::(take|replace|insert|get_or_insert)$')
def opt_take(e, args, fr, m):
    old = e.force(e.load(args[0]))
    which = m.group(1)
    if which == 'take':
        e.store(args[0], NONE)
        return old
    if which == 'replace':
        e.store(args[0], some(args[1]))
        return old
    raise Unsupported('Option::' + which)


@contract(r'^Option::<.*>::(map_or|is_some_and|is_none_or)::<.*>$')
def opt_map_or(e, args, fr, m):
    v = e.force(args[0])
    which = m.group(1)
    if which == 'map_or':
        if v.variant != 'Some':
            return args[1]
        return call_closure(e, fr, args[2], [v.fields[0]])
    if v.variant != 'Some':
        return which == 'is_none_or'
    return call_closure(e, fr, args[1], [v.fields[0]])


@contract(r'^read_to_string::<.*>$|^fs::read_to_string::<.*>$')
def fs_read_to_string(e, args, fr, m):
    key = _path_key(e, args[0])
    w = _world(e)
    e.extra.setdefault('reads', []).append(key)
    ent = w.files.get(key)
    if ent is None:
        return err(Adt('IoError', None, (Str('No such file or directory (or it is a directory)'),)))
    if ent['contents'] is None:
        return err(Adt('IoError', None, (Str('stream did not contain valid UTF-8'),)))
    return ok(ent['contents'])


@contract(r'^File::open::<.*>$|^fs::File::open::<.*>$')
def fs_file_open(e, args, fr, m):
    """read-only open (File::create / OpenOptions have no contract on purpose: they can change the file system)"""
    key = _path_key(e, args[0])
    w = _world(e)
    if key not in w.files:
        return err(Adt('IoError', None, (Str('No such file or directory (or it is a directory)'),)))
    e.extra.setdefault('opened', []).append(key)
    return ok(Adt('File', None, (Str(key),)))


@contract(r'^<(?:&)?File as (?:io::)?Read>::read_to_string$|^<BufReader<File> as (?:io::)?Read>::read_to_string$')
def fs_file_read_to_string(e, args, fr, m):
    """appends the whole content to the buffer (as documented) and returns the number of bytes read"""
    f = e.load(args[0])
    while isinstance(f, Adt) and f.ty == 'BufReader':
        f = e.load(f.fields[0])
    if not (isinstance(f, Adt) and f.ty == 'File'):
        raise Unsupported('read_to_string on %r' % (f,))
    key = f.fields[0].v
    w = _world(e)
    ent = w.files[key]
    e.extra.setdefault('reads', []).append(key)
    if ent['contents'] is None:
        return err(Adt('IoError', None, (Str('stream did not contain valid UTF-8'),)))
    buf = e.load(args[1])
    new = ent['contents'] if (buf.concrete and buf.v == '') else concat(buf, ent['contents'])
    e.store(args[1], new)
    c = ent['contents']
    n = Int(len(c.v.encode('utf-8')), 'usize') if c.concrete else Int(z3.Int2BV(z3.Length(c.z()), 64), 'usize')
    return ok(n)


@contract(r'^BufReader::<File>::new$')
def bufreader_new(e, args, fr, m):
    return Adt('BufReader', None, (args[0],))


@contract(r'^String::clear$')
def string_clear(e, args, fr, m):
    e.store(args[0], Str(''))
    return UNIT


# ------------------------------------------------------------------------------------------------ symbolic file names
NAME_ALPHABET = ['.', 't', 'T', 's', 'S', 'o', 'O', 'l', 'L', 'x', ' ', 'É', 'é', '日', '𝄞', 'ſ']
LOWER = {'T': 't', 'S': 's', 'O': 'o', 'L': 'l', 'É': 'é'}
# to_uppercase is NOT the inverse: the long s (U+017F) has no upper-case form of its own and becomes `S`; `x`, blank, dot, CJK and
# the musical symbol are unchanged
UPPER = {'t': 'T', 's': 'S', 'o': 'O', 'l': 'L', 'é': 'É', 'ſ': 'S'}


class NameStr(Str):
    """file name of a fixed number of characters, each a symbolic INDEX into a small alphabet (upper/lower pairs and one
    non-ASCII letter). Suffix / containment / case folding are expressed directly over the 4-bit indices (no string theory)."""
    __slots__ = ('chars',)

    def __init__(self, chars):
        self.chars = chars
        self.v = None

    @staticmethod
    def fresh(tag, n):
        chars = [z3.BitVec('%s_c%d' % (tag, i), 4) for i in range(n)]
        cons = [z3.ULT(c, len(NAME_ALPHABET)) for c in chars] if len(NAME_ALPHABET) < 16 else []       # 16 letters fill the 4 bits
        return NameStr(chars), cons

    @property
    def concrete(self):
        return False

    def z(self):
        raise Unsupported('NameStr has no string-theory form')

    @staticmethod
    def _is(c, ch):
        if ch not in NAME_ALPHABET:
            return False
        return c == z3.BitVecVal(NAME_ALPHABET.index(ch), 4)

    def lower(self):
        out = []
        for c in self.chars:
            t = c
            for up, lo in LOWER.items():
                t = z3.If(c == NAME_ALPHABET.index(up), z3.BitVecVal(NAME_ALPHABET.index(lo), 4), t)
            out.append(t)
        return NameStr(out)

    def upper(self):
        out = []
        for c in self.chars:
            t = c
            for lo, up in UPPER.items():
                t = z3.If(c == NAME_ALPHABET.index(lo), z3.BitVecVal(NAME_ALPHABET.index(up), 4), t)
            out.append(t)
        return NameStr(out)

    def at(self, pos, text):
        """the name reads `text` at character position pos"""
        if pos < 0 or pos + len(text) > len(self.chars):
            return False
        return conj(None, [self._is(self.chars[pos + i], ch) for i, ch in enumerate(text)])

    def ends_with(self, text):
        return self.at(len(self.chars) - len(text), text)

    def starts_with(self, text):
        return self.at(0, text)

    def contains(self, text):
        return disj([self.at(i, text) for i in range(0, len(self.chars) - len(text) + 1)])

    def render(self, model):
        return ''.join(NAME_ALPHABET[model.eval(c, model_completion=True).as_long()] for c in self.chars)

    # ---- byte-level view (UTF-8): widths per character, length, boundaries
    def widths(self):
        out = []
        for c in self.chars:
            w = z3.BitVecVal(1, 64)
            for i, ch in enumerate(NAME_ALPHABET):
                n = len(ch.encode('utf-8'))
                if n != 1:
                    w = z3.If(c == i, z3.BitVecVal(n, 64), w)
            out.append(w)
        return out

    @property
    def byte_len(self):
        ws = self.widths()
        return z3.simplify(z3.Sum(*ws)) if len(ws) > 1 else (ws[0] if ws else z3.BitVecVal(0, 64))

    def boundaries(self):
        """byte offset of the start of character k, k = 0..n (n = the end)"""
        out, acc = [z3.BitVecVal(0, 64)], z3.BitVecVal(0, 64)
        for w in self.widths():
            acc = acc + w
            out.append(z3.simplify(acc))
        return out

    def eq_ignore_ascii_case(self, text):
        if len(text) != len(self.chars):
            return False
        fold = lambda ch: [x for x in NAME_ALPHABET if x == ch or (x.isascii() and ch.isascii() and x.lower() == ch.lower())]
        return conj(None, [disj([self._is(c, x) for x in fold(ch)]) for c, ch in zip(self.chars, text)])


@contract(r'^<(?:String|str) as Index<Range(From|To|Full|)<usize>>>::index$')
def str_index_range(e, args, fr, m):
    """&s[a..], &s[..b], &s[a..b] by BYTE offsets: panics unless the offsets are character boundaries within the string"""
    s_ = e.load(args[0])
    rng = e.force(args[1])
    kind = m.group(1)
    names = {'From': ['start'], 'To': ['end'], '': ['start', 'end'], 'Full': []}[kind]
    vals = dict(zip(names, [e.force(f) for f in rng.fields]))
    if s_.concrete and all(v.concrete for v in vals.values()):
        raw = s_.v.encode('utf-8')
        a, b = vals.get('start', Int(0, 'usize')).v, vals.get('end', Int(len(raw), 'usize')).v
        ok_ = a <= b <= len(raw)
        try:
            if not ok_:
                raise UnicodeDecodeError('utf-8', b'', 0, 1, '')
            raw[:a].decode('utf-8'); raw[b:].decode('utf-8')
            return Str(raw[a:b].decode('utf-8'))
        except UnicodeDecodeError:
            raise Panic('byte index %d is out of bounds or not a char boundary of `%s`' % (a if a > len(raw) or not ok_ else b, s_.v))
    if isinstance(s_, NameStr):
        bounds = s_.boundaries()
        n = len(s_.chars)

        def pick(v, what):
            if v is None:
                return None
            conds = [v.z() == bnd for bnd in bounds] + [None]
            k = e.decide(len(conds), [c for c in conds[:-1]] + [z3.And(*[v.z() != bnd for bnd in bounds])], 'byte offset of a string slice')
            if k == n + 1:
                raise Panic('%s byte index is not a char boundary or out of bounds of the file name' % what)
            return k
        a = pick(vals.get('start'), 'start')
        b = pick(vals.get('end'), 'end')
        a = 0 if a is None else a
        b = n if b is None else b
        if a > b:
            raise Panic('slice index starts at %d but ends at %d' % (a, b))
        return NameStr(s_.chars[a:b])
    raise Unsupported('byte-range slice of a symbolic string')


# ------------------------------------------------------------------------------------- process-wide state: atomics, cells
def _atomic_cell(e, ref):
    v = e.load(ref)
    if not (isinstance(v, Adt) and v.ty == 'Atomic'):
        raise Unsupported('atomic operation on %r' % (v,))
    return v


@contract(r'^Atomic(?:Usize|Isize|U8|U16|U32|U64|I8|I16|I32|I64|Bool)?(?:::<\w+>)?::new$')
def atomic_new(e, args, fr, m):
    return Adt('Atomic', None, (e.force(args[0]),))


@contract(r'^Atomic(?:\w*)(?:::<\w+>)?::(fetch_add|fetch_sub|fetch_max|fetch_min|fetch_and|fetch_or|fetch_xor|swap|store|load|into_inner|get_mut|'
          r'compare_exchange|compare_exchange_weak|fetch_update::<.*>)$')
def atomic_op(e, args, fr, m):
    """sequentially consistent single-thread semantics (threads are outside every claim): read-modify-write on the cell"""
    op = m.group(1)
    if op == 'into_inner':
        return e.force(args[0]).fields[0]
    cell = _atomic_cell(e, args[0])
    old = e.force(cell.fields[0])
    if op == 'load':
        return old
    if op == 'get_mut':
        raise Unsupported('Atomic::get_mut')
    if op.startswith('fetch_update'):
        raise Unsupported('Atomic::fetch_update')
    x = e.force(args[1])
    if op == 'store':
        e.store(args[0], Adt('Atomic', None, (x,)))
        return UNIT
    if op in ('compare_exchange', 'compare_exchange_weak'):
        new = e.force(args[2])
        same = old == x if isinstance(old, bool) else e.binop('Eq', old, x)
        if e.branch(same):
            e.store(args[0], Adt('Atomic', None, (new,)))
            return ok(old)
        return err(old)
    if isinstance(old, bool) or isinstance(x, bool) or z3.is_bool(old) or z3.is_bool(x):
        f = {'fetch_and': lambda a, b: conj(e, [a, b]), 'fetch_or': lambda a, b: disj([a, b]), 'swap': lambda a, b: b,
             'fetch_xor': lambda a, b: z3.Xor(z3.BoolVal(a) if isinstance(a, bool) else a, z3.BoolVal(b) if isinstance(b, bool) else b)}.get(op)
        if f is None:
            raise Unsupported('AtomicBool::' + op)
        e.store(args[0], Adt('Atomic', None, (f(old, x),)))
        return old
    if op == 'swap':
        new = x
    elif op in ('fetch_max', 'fetch_min'):
        new = x if e.branch(e.binop('Gt' if op == 'fetch_max' else 'Lt', x, old)) else old
    else:
        # fetch_add / fetch_sub wrap around on overflow (documented)
        bop = {'fetch_add': 'Add', 'fetch_sub': 'Sub', 'fetch_and': 'BitAnd', 'fetch_or': 'BitOr', 'fetch_xor': 'BitXor'}[op]
        if bop in ('Add', 'Sub'):
            r = e.binop(bop + 'WithOverflow', old, x)
            new = r.fields[0]
        else:
            new = e.binop(bop, old, x)
    e.store(args[0], Adt('Atomic', None, (new,)))
    return old


@contract(r'^(?:RefCell|Cell|UnsafeCell|OnceCell|Mutex|RwLock)::<.*>::new$')
def cell_new(e, args, fr, m):
    return Adt('CellBox', None, (args[0],))


def _cell_inner_ref(e, ref):
    """reference to the content of the cell a reference points to"""
    r = ref
    while True:
        v = e.force(r)
        if isinstance(v, Ref):
            inner = e.force(e.read_place(v.frame, (v.local, v.projs)))
            if isinstance(inner, (Ref, ValRef)):
                r = inner
                continue
            if not (isinstance(inner, Adt) and inner.ty == 'CellBox'):
                raise Unsupported('cell operation on %r' % (inner,))
            return Ref(v.frame, v.local, tuple(v.projs) + (('field', 0, '?'),))
        raise Unsupported('cell reached through %r (not a place)' % (v,))


@contract(r'^RefCell::<.*>::(borrow|borrow_mut|try_borrow_mut|try_borrow)$|^(?:Mutex|RwLock)::<.*>::(lock|read|write)$')
def refcell_borrow(e, args, fr, m):
    """single-threaded, and the crate's borrows are scoped: the dynamic borrow flag is not modelled (a double borrow would be a panic)"""
    g = Adt('CellGuard', None, (_cell_inner_ref(e, args[0]),))
    which = m.group(1) or m.group(2)
    return ok(g) if which in ('try_borrow', 'try_borrow_mut', 'lock', 'read', 'write') else g


@contract(r'^<(?:RefMut|Ref|MutexGuard|RwLockReadGuard|RwLockWriteGuard)<.*> as (?:Deref|DerefMut)>::(?:deref|deref_mut)$')
def guard_deref(e, args, fr, m):
    g = e.load(args[0])
    if not (isinstance(g, Adt) and g.ty == 'CellGuard'):
        raise Unsupported('deref of %r' % (g,))
    return g.fields[0]


@contract(r'^Cell::<.*>::(get|set|replace|take)$')
def cell_get_set(e, args, fr, m):
    inner = _cell_inner_ref(e, args[0])
    old = e.load(inner)
    op = m.group(1)
    if op == 'get':
        return old
    if op == 'take':
        raise Unsupported('Cell::take')
    e.store(inner, args[1])
    return UNIT if op == 'set' else old


@contract(r'^LocalKey::<(.*)>::new$')
def localkey_new(e, args, fr, m):
    # the key is the const item that is being evaluated (`const LINE_FEEDS: LocalKey<..> = { LocalKey::new(..) }`)
    return Adt('LocalKey', None, (Str(fr.fn.name), Str(m.group(1))))


@contract(r'^LocalKey::<(.*)>::(with|try_with)::<.*>$')
def localkey_with(e, args, fr, m):
    key = e.load(args[0])
    if not (isinstance(key, Adt) and key.ty == 'LocalKey'):
        raise Unsupported('LocalKey::with on %r' % (key,))
    name, ty = key.fields[0].v, key.fields[1].v

    def init():
        from .types import norm_type
        cands = [f for f in e.program.get('__rust_std_internal_init_fn', []) if norm_type(f.ret) == ty]
        if len(cands) != 1:
            raise Unsupported('initializer of the thread-local %s: %d candidates of type %s' % (name, len(cands), ty))
        return e.call_mir(cands[0], [], fr.depth + 1)
    cell = e.global_cell('thread_local ' + name, init)
    r = call_closure(e, fr, args[1], [cell])
    return ok(r) if m.group(2) == 'try_with' else r


@contract(r'^(?:mem::)?needs_drop::<.*>$')
def mem_needs_drop(e, args, fr, m):
    return True


@contract(r'^<impl \[.*\]>::partition_point::<.*>$')
def slice_partition_point(e, args, fr, m):
    """index of the first element for which the predicate is false (the slice is assumed partitioned, as documented; evaluated left to right)"""
    v = e.load(args[0])
    for k, x in enumerate(v.items):
        if not e.branch(call_closure(e, fr, args[1], [ValRef(x)])):
            return Int(k, 'usize')
    return Int(len(v.items), 'usize')


@contract(r'^<impl str>::match_indices::<char>$|^<impl str>::char_indices$')
def str_match_indices(e, args, fr, m):
    s_ = e.load(args[0])
    if not s_.concrete:
        raise Unsupported('match_indices / char_indices of a symbolic string')
    out, off = [], 0
    if m.group(0).endswith('char_indices'):
        for ch in s_.v:
            out.append(Tuple((Int(off, 'usize'), Int(ord(ch), 'char'))))
            off += len(ch.encode('utf-8'))
        return IterV(out, 0, 'val')
    c = e.force(args[1])
    if not c.concrete:
        raise Unsupported('match_indices with a symbolic character')
    for ch in s_.v:
        if ord(ch) == c.v:
            out.append(Tuple((Int(off, 'usize'), Str(ch))))
        off += len(ch.encode('utf-8'))
    return IterV(out, 0, 'val')


@contract(r'^(?:write|ewrite)$|^(?:io::)?(?:_print|_eprint)$')
def console_output(e, args, fr, m):
    """terminal output (colour::unnamed::write / ewrite, print! / eprint!): no effect on anything a property observes; recorded"""
    if m.group(0) in ('write', 'ewrite') and len(args) != 3:
        raise Unsupported('callee %s with %d arguments' % (m.group(0), len(args)))
    e.extra.setdefault('console', []).append(m.group(0))
    return UNIT


@contract(r'^(?:mem::)?swap::<.*>$')
def mem_swap(e, args, fr, m):
    a, b = e.load(args[0]), e.load(args[1])
    e.store(args[0], b)
    e.store(args[1], a)
    return UNIT


@contract(r'^(?:mem::)?replace::<.*>$')
def mem_replace(e, args, fr, m):
    old = e.load(args[0])
    e.store(args[0], args[1])
    return old


@contract(r'^(?:mem::)?take::<(.*)>$')
def mem_take(e, args, fr, m):
    old = e.load(args[0])
    ty = m.group(1)
    if ty.startswith('Vec<'):
        new = VecV(())
    elif ty == 'String':
        new = Str('')
    elif ty.startswith('Option<'):
        new = NONE
    elif ty.startswith('HashSet<') or ty.startswith('BTreeSet<'):
        new = SetV((), 'btree' if ty.startswith('BTree') else 'hash')
    elif ty.startswith('HashMap<') or ty.startswith('BTreeMap<'):
        new = MapV(())
    elif ty in INT_TYPES:
        new = Int(0, ty)
    elif ty == 'bool':
        new = False
    else:
        raise Unsupported('mem::take of ' + ty)
    e.store(args[0], new)
    return old


@contract(r'^<impl str>::eq_ignore_ascii_case$')
def str_eq_ignore_ascii_case(e, args, fr, m):
    a, b = e.load(args[0]), e.load(args[1])
    if a.concrete and b.concrete:
        fold = lambda t: ''.join(c.lower() if c.isascii() else c for c in t)
        return fold(a.v) == fold(b.v)
    if isinstance(a, NameStr) and b.concrete:
        return a.eq_ignore_ascii_case(b.v)
    if isinstance(b, NameStr) and a.concrete:
        return b.eq_ignore_ascii_case(a.v)
    raise Unsupported('eq_ignore_ascii_case of symbolic strings')


@contract(r'^<impl str>::is_char_boundary$')
def str_is_char_boundary(e, args, fr, m):
    s_, i = e.load(args[0]), e.force(args[1])
    if s_.concrete and i.concrete:
        raw = s_.v.encode('utf-8')
        return i.v == len(raw) or (i.v < len(raw) and (raw[i.v] & 0xC0) != 0x80)
    if isinstance(s_, NameStr):
        return disj([i.z() == bnd for bnd in s_.boundaries()])
    raise Unsupported('is_char_boundary of a symbolic string')


@contract(r'^<impl str>::chars$')
def str_chars(e, args, fr, m):
    s_ = e.load(args[0])
    if s_.concrete:
        return IterV([Int(ord(c), 'char') for c in s_.v], 0, 'val')
    return Adt('Chars', None, (s_,))


@contract(r"^<Chars<'_> as Iterator>::count$")
def chars_count(e, args, fr, m):
    it = e.force(args[0])
    if isinstance(it, IterV):
        return Int(len(it.items) - it.pos, 'usize')
    s_ = it.fields[0]
    if getattr(s_, 'char_len', None) is not None:
        return Int(s_.char_len, 'usize')
    raise Unsupported('number of characters of a symbolic string')


@contract(r'^<impl \[.*\]>::contains$|^Vec::<.*>::contains$')
def slice_contains(e, args, fr, m):
    v = e.load(args[0])
    x = e.load(args[1])
    return disj([deep_eq(e, y, x) for y in v.items])


@contract(r'^Option::<.*>::filter::<.*>$')
def opt_filter(e, args, fr, m):
    v = e.force(args[0])
    if v.variant != 'Some':
        return NONE
    keep = call_closure(e, fr, args[1], [ValRef(v.fields[0])])
    return v if e.branch(keep) else NONE


@contract(r'^Option::<.*>::map::<.*>$')
def opt_map(e, args, fr, m):
    v = e.force(args[0])
    if v.variant != 'Some':
        return NONE
    return some(call_closure(e, fr, args[1], [v.fields[0]]))


@contract(r'^Option::<.*>::and_then::<.*>$')
def opt_and_then(e, args, fr, m):
    v = e.force(args[0])
    if v.variant != 'Some':
        return NONE
    return call_closure(e, fr, args[1], [v.fields[0]])


@contract(r'^Option::<.*>::unwrap_or_else::<.*>$')
def opt_unwrap_or_else(e, args, fr, m):
    v = e.force(args[0])
    if v.variant == 'Some':
        return v.fields[0]
    return call_closure(e, fr, args[1], [])


@contract(r'^Option::<.*>::unwrap_or_default$')
def opt_unwrap_or_default(e, args, fr, m):
    v = e.force(args[0])
    if v.variant == 'Some':
        return v.fields[0]
    raise Unsupported('unwrap_or_default on None (default value of an unknown type)')


@contract(r'^Option::<.*>::or$')
def opt_or(e, args, fr, m):
    v = e.force(args[0])
    return v if v.variant == 'Some' else args[1]


@contract(r'^HashMap::<.*>::values_mut$|^HashMap::<.*>::iter_mut$')
def hashmap_values_mut(e, args, fr, m):
    r = e.force(args[0])
    mp = e.load(r)
    while isinstance(r, (Ref, ValRef)):
        inner = e.force(e.read_place(r.frame, (r.local, r.projs)) if isinstance(r, Ref) else r.v)
        if isinstance(inner, (Ref, ValRef)):
            r = inner
        else:
            break
    if not isinstance(r, Ref):
        raise Unsupported('values_mut on a map without a place')
    refs = [Ref(r.frame, r.local, r.projs + (('mapvalue', i),)) for i in range(len(mp.pairs))]
    return IterV(refs, 0, 'perm' if e.flags.get('symbolic_order') else 'val')


@contract(r'^<(?:ValuesMut|Values|Keys|IterMut)<.*> as Iterator>::next$')
def map_iter_next(e, args, fr, m):
    return iter_next(e, args, fr, m)


@contract(r'^<String as PartialEq<&?str>>::ne$|^<&?str as PartialEq<String>>::ne$')
def string_ne(e, args, fr, m):
    return e._bnot(deep_eq(e, args[0], args[1]))
