"""`./check <ID> --replay <file>`: re-runs a recorded violation on the REAL code built from /repo's current tree and prints what
the real code does now (exit 1 if it still misbehaves as recorded, 0 if the behaviour changed / is fixed)."""
import json
import os
import subprocess
import sys
import tempfile

from .native import Native, hexs, unhex
from .world import World


def main():
    pid, path = sys.argv[1], sys.argv[2]
    rec = json.load(open(path))
    w = World()
    n = Native(w)
    job = rec.get('job')
    print('replay of %s (%s): %s' % (rec.get('key'), pid, rec.get('what', '')[:300]))
    try:
        if job in ('detect',) and 'source' in rec:
            p = n.file(rec['source'])
            r = n.run([['detect', rec['detector'], p]])[0]
            print('real detector `%s` on the recorded file -> %s' % (rec['detector'], r))
            print('recorded observation                     -> %s' % (rec.get('observed'),))
            same = list(r) == list(rec.get('observed') or [])
        elif job == 'analyze':
            src = rec.get('relayout') or rec.get('source')
            r = n.run([['analyze', 'opt' if False else rec.get('category', 'opt'), rec.get('detector') or rec.get('pattern'), n.file(src)]])[0]
            print('real analyze -> %s ; expected %s' % (r, rec.get('expected')))
            same = r[0] != 'OK' or [int(x) for x in r[1].split(',') if x] != rec.get('expected')
        elif job == 'analyze_between':
            r = n.run([['analyze', rec['category'], rec['detector'], n.file(rec['source'])]])[0]
            got = [int(x) for x in r[1].split(',') if x] if r[0] == 'OK' else None
            print('real analyze -> %s ; lines on which flagged constructs begin: %s ; lines on which a construct of the pattern may begin: %s' % (r, rec['must'], rec['may']))
            same = got is None or any(l not in got for l in rec['must']) or any(l not in rec['may'] for l in got)
        elif job == 'line':
            r = n.run([['line', str(rec['offset']), hexs(rec['text'])]])[0]
            print('get_line_number(%d, %r) -> %s ; expected %s' % (rec['offset'], rec['text'], r, rec['expected']))
            same = r[0] != 'OK' or int(r[1]) != rec['expected']
        elif job == 'slots':
            r = n.run([['slots', ','.join(map(str, rec['sizes']))]])[0]
            print('storage_slots_used(%r) -> %s ; expected %s' % (rec['sizes'], r, rec['expected']))
            same = r[0] != 'OK' or int(r[1]) != rec['expected']
        elif job == 'extract':
            r = n.run([['extract', n.file(rec['source']), ','.join(rec['targets'])]])[0]
            print('real walker -> %s' % (r,)); print('expected    -> %s' % (rec['expected'],))
            same = r[0] != 'OK' or r[1].split(',') != [x for x in rec['expected']]
        elif job == 'report':
            specs = rec.get('findings_orders') or [rec.get('findings')]
            texts = set()
            for _ in range(6):
                for sp in specs:
                    r = n.run([['report', rec['category'], sp]])[0]
                    texts.add(unhex(r[1]) if r[0] == 'OK' else 'PANIC')
            print('%d distinct report texts over %d runs; first:\n%s' % (len(texts), 6 * len(specs), sorted(texts)[0][:600]))
            same = True
        elif job == 'strto':
            r = n.run([['strto', rec['category'], hexs(rec['name'])]])[0]
            print('str_to_%s(%r) -> %s' % (rec['category'], rec['name'], r))
            same = True
        elif job == 'analyze sequence' and 'other_source' in rec:
            cat = rec.get('category') or ('qa' if rec.get('detector', '').startswith(('constructor', 'private_')) and 'constant' not in rec.get('detector', '') else None)
            from . import oracle
            cat = cat or oracle.CATEGORY.get(rec['detector'], 'opt')
            pa, pb = n.file(rec['source']), n.file(rec['other_source'])
            alone = n.run([['analyze', cat, rec['detector'], pa]])[0]
            seq = n.run([(['bigstack', 'analyze_raw'] if rec.get('raw') else ['analyze']) + [cat, rec['detector'], pb], ['analyze', cat, rec['detector'], pa]])[1]
            print('analysed alone -> %s ; analysed after the other file in the same process -> %s' % (alone, seq))
            same = alone != seq
        elif job == 'threads':
            pa, pb = n.file(rec['file_a']), n.file(rec['file_b'])
            r = n.run([['threads', rec['category'], rec['detector'], pa, pb, str(rec.get('threads', 8)), str(rec.get('iterations', 300))]])[0]
            print('8 threads on two files -> %s' % (r,))
            same = r[0] != 'OK'
        elif job == 'solstat' and 'config' in rec:
            binary = os.path.join(w.build, 'solstat')
            d = os.path.join(n.dir, 'bin')
            os.makedirs(os.path.join(d, 'proj'))
            open(os.path.join(d, 'proj', 'Sel.sol'), 'w').write(rec['source'])
            open(os.path.join(d, 'cfg.toml'), 'w').write(rec['config'])
            p = subprocess.run([binary, '--toml', 'cfg.toml'], cwd=d, stdout=subprocess.PIPE, stderr=subprocess.PIPE, text=True)
            rp = os.path.join(d, 'solstat_report.md')
            rep = open(rp).read() if os.path.exists(rp) else None
            print('configuration:\n%s\nsolstat --toml cfg.toml -> exit status %d, report %s' % (rec['config'], p.returncode, 'absent' if rep is None else 'of %d bytes, entries %r' % (
                len(rep), [ln for ln in rep.split('\n') if ln.startswith('- ')][:12])))
            same = (rep or '')[:300] == (rec.get('observed') or '')
        elif job == 'solstat' and 'creation_orders' in rec:
            import shutil
            binary = os.path.join(w.build, 'solstat')
            shm = '/dev/shm' if os.path.isdir('/dev/shm') and os.access('/dev/shm', os.W_OK) else n.dir
            base = tempfile.mkdtemp(prefix='solstat-verif-replay-', dir=shm)
            reports = []
            try:
                for i, order in enumerate(rec['creation_orders']):
                    proj, cwd = os.path.join(base, 'h%d' % i, 'proj'), os.path.join(base, 'h%d' % i, 'cwd')
                    os.makedirs(proj); os.makedirs(cwd)
                    for rel in order:
                        os.makedirs(os.path.dirname(os.path.join(proj, rel)), exist_ok=True)
                        if isinstance(rec['files'][rel], list):
                            os.symlink(rec['files'][rel][1], os.path.join(proj, rel))
                        else:
                            open(os.path.join(proj, rel), 'w').write(rec['files'][rel])
                    p = subprocess.run([binary, '--path', '../proj'], cwd=cwd, stdout=subprocess.PIPE, stderr=subprocess.PIPE)
                    rp = os.path.join(cwd, 'solstat_report.md')
                    reports.append(open(rp, 'rb').read() if p.returncode == 0 and os.path.exists(rp) else ('exit %d' % p.returncode).encode())
            finally:
                shutil.rmtree(base, ignore_errors=True)
            print('the same files created in two orders -> reports of %r bytes, %s' % ([len(r) for r in reports], 'identical' if len(set(reports)) == 1 else 'DIFFERENT'))
            same = len(set(reports)) > 1
        elif job == 'solstat' and 'runs' in rec:
            binary = os.path.join(w.build, 'solstat')
            proj = os.path.join(n.dir, 'proj')
            for rel, text in rec['files'].items():
                os.makedirs(os.path.dirname(os.path.join(proj, rel)), exist_ok=True)
                if isinstance(text, list):
                    os.symlink(text[1], os.path.join(proj, rel))
                else:
                    open(os.path.join(proj, rel), 'w').write(text)
            seen = set()
            for i in range(int(rec['runs'])):
                cwd = os.path.join(n.dir, 'cwd%d' % i)
                os.makedirs(cwd)
                p = subprocess.run([binary, '--path', proj], cwd=cwd, stdout=subprocess.PIPE, stderr=subprocess.PIPE)
                rp = os.path.join(cwd, 'solstat_report.md')
                seen.add(open(rp, 'rb').read() if p.returncode == 0 and os.path.exists(rp) else ('exit %d' % p.returncode).encode())
            print('%d runs over the same directory -> %d different reports' % (int(rec['runs']), len(seen)))
            same = len(seen) > 1
        elif job == 'solstat_stale':
            import re
            binary = os.path.join(w.build, 'solstat')
            d = os.path.join(n.dir, 'stale')
            os.makedirs(os.path.join(d, 'contracts'))
            open(os.path.join(d, 'contracts', 'Vault.sol'), 'w').write(rec['source'])
            open(os.path.join(d, 'solstat_report.md'), 'w').write(rec['stale'])
            cmd = [binary]
            if rec.get('config') is not None:
                open(os.path.join(d, 'cfg.toml'), 'w').write('path = "contracts"\n' + rec['config'])
                cmd += ['--toml', 'cfg.toml']
            p = subprocess.run(cmd, cwd=d, stdout=subprocess.PIPE, stderr=subprocess.PIPE, text=True)
            rp = os.path.join(d, 'solstat_report.md')
            rep = open(rp).read() if os.path.exists(rp) else ''
            got = sorted([m.group(1), int(m.group(2))] for m in re.finditer(r'^- (.+):(-?\d+)$', rep, re.M))
            print('exit status %d; entries of solstat_report.md after the run: %r ; findings of the run: %r' % (p.returncode, got, rec['expected']))
            same = p.returncode != 0 or got != [list(x) for x in rec['expected']]
        elif job == 'solstat_dirs':
            import re
            binary = os.path.join(w.build, 'solstat')
            d = os.path.join(n.dir, 'dirs')
            text = 'pragma solidity 0.8.16;\ncontract Sel {\n    uint256 st; function w() public { st = 1; }\n}\n'
            os.makedirs(d)
            for sub, fname in (('.argdir', 'FromArg.sol'), ('.cfg.d', 'FromConfig.sol')) + ((('contracts', 'FromDefault.sol'),) if rec['contracts'] else ()):
                os.makedirs(os.path.join(d, sub))
                open(os.path.join(d, sub, fname), 'w').write(text)
            open(os.path.join(d, 'afile'), 'w').write(text)
            tomldir = rec.get('tomldir', '')
            if tomldir:
                for sub in ('.argdir', '.cfg.d', 'contracts'):
                    os.makedirs(os.path.join(d, tomldir, sub))
                    open(os.path.join(d, tomldir, sub, 'FromNextToConfig.sol'), 'w').write(text)
            cmd = [binary]
            if rec['arg'] != 'none':
                cmd += ['--path', {'dir': '.argdir', 'missing': 'no-such-dir', 'file': 'afile'}[rec['arg']]]
            if rec['cfg'] != 'none':
                open(os.path.join(d, tomldir, 'cfg.toml'), 'w').write('path = "%s"\noptimizations = ["sstore"]\nvulnerabilities = []\nqa = []\n' % {'dir': '.cfg.d', 'missing': 'no-such-cfg-dir'}[rec['cfg']])
                cmd += ['--toml', os.path.join(tomldir, 'cfg.toml')]
            p = subprocess.run(cmd, cwd=d, stdout=subprocess.PIPE, stderr=subprocess.PIPE, text=True)
            rp = os.path.join(d, 'solstat_report.md')
            rep = open(rp).read() if os.path.exists(rp) else ''
            listed = sorted(set(re.findall(r'^- (From\w+\.sol):\d+$', rep, re.M)))
            print('%s -> exit status %d, files listed in the report: %r' % (' '.join(cmd[1:]) or '(no arguments)', p.returncode, listed))
            same = p.returncode == rec.get('exit') and rep[:300] == rec.get('observed')
        elif job == 'analyze_dir_files':
            from . import dirlib as dl
            import shutil
            shm = '/dev/shm' if rec.get('listing_by_creation') and os.path.isdir('/dev/shm') else n.dir
            root = tempfile.mkdtemp(prefix='solstat-verif-replay-', dir=shm)
            try:
                for nm, content in rec['files']:
                    os.makedirs(os.path.dirname(os.path.join(root, nm)), exist_ok=True)
                    open(os.path.join(root, nm), 'w').write(content)
                class C_: pass
                c_ = C_(); c_.native = n
                got, want, raw = dl.native_union(c_, rec['category'], root, rec['patterns'])
            finally:
                shutil.rmtree(root, ignore_errors=True)
            print('analyze_dir -> %r\nunion of the per-file results -> %r' % (got if got is not None else raw, want))
            same = got is None or sorted(got) != sorted(want)
        elif job == 'analyze_dir_layout':
            root = os.path.join(n.dir, 'layout')
            os.makedirs(root, exist_ok=True)
            with open(os.path.join(root, rec['file_name']), 'w', encoding='utf-8', newline='') as fh:
                fh.write(rec['source'])
            r = n.run([['analyze_dir', rec['category'], root, rec['detector']]])[0]
            got = []
            if r[0] == 'OK':
                for item in (r[1].split(';') if r[1] else []):
                    got = [int(x) for x in item.split('|')[2].split(',') if x]
            print('analyze_dir on a directory with this file -> lines %r ; the flagged constructs begin on lines %r' % (got if r[0] == 'OK' else r, rec['expected']))
            same = r[0] != 'OK' or got != rec['expected']
        elif job == 'analyze_dir' and 'tree' in rec:
            from . import dirlib as dl
            from .checklib import Check
            root = os.path.join(n.dir, 'tree')
            tags = {}
            dl.materialise(rec['tree'], root, lambda tag: rec.get('patterns', []))
            class C_: pass
            c_ = C_(); c_.native = n
            got, want, raw = dl.native_union(c_, rec['category'], root, rec.get('patterns', []))
            print('analyze_dir -> %r\nunion of the per-file results -> %r' % (got if got is not None else raw, want))
            same = got is None or sorted(got) != sorted(want)
        else:
            print('recorded data:\n' + json.dumps({k: v for k, v in rec.items() if k not in ('what',)}, indent=1)[:3000])
            same = True
    finally:
        n.close()
    sys.exit(1 if same else 0)


if __name__ == '__main__':
    main()
