"""Reference oracle for the detectors: an independent, three-valued restatement of DESIGN.md section 8 over (possibly partly
symbolic) parse trees. For every node it says whether the detector MUST report it (canonical form), MUST NOT report it
(clearly non-matching) or is free to do either. Conditions are python bools or Z3 terms when they depend on symbolic leaves.

Written from the documentation tables, not from the Rust sources."""
import z3

from .engine import Adt, BoxV, Choice, Int, Str, Tuple, VecV
from . import ptgen, sol

NODE_TYS = ('Expression', 'Statement', 'ContractPart', 'SourceUnitPart')


class Ctx:
    __slots__ = ('unchecked', 'for_cond', 'func', 'contract', 'in_body', 'item', 'in_attr')

    def __init__(self, unchecked=False, for_cond=False, func=None, contract=None, in_body=False, item=None, in_attr=False):
        self.unchecked, self.for_cond, self.func, self.contract = unchecked, for_cond, func, contract
        self.in_body, self.item, self.in_attr = in_body, item, in_attr

    def but(self, **kw):
        c = Ctx(self.unchecked, self.for_cond, self.func, self.contract, self.in_body, self.item, self.in_attr)
        for k, v in kw.items():
            setattr(c, k, v)
        return c


def unbox(v):
    return v.inner if isinstance(v, BoxV) else v


def sub_nodes(v, out):
    """nearest node-typed descendants of a non-node value"""
    if isinstance(v, BoxV):
        return sub_nodes(v.inner, out)
    if isinstance(v, Adt):
        if v.ty in NODE_TYS:
            out.append(v)
            return out
        for f in v.fields:
            sub_nodes(f, out)
    elif isinstance(v, VecV):
        for f in v.items:
            sub_nodes(f, out)
    elif isinstance(v, Tuple):
        for f in v.fields:
            sub_nodes(f, out)
    return out


def walk(su):
    """pre-order list of (node, ctx) for every node of a CONCRETE-structure file (leaves may be symbolic)"""
    out = []
    for idx, p in enumerate(su.fields[0].items):
        _walk(p, Ctx(item=idx), out)
    return out


def _walk(n, ctx, out):
    out.append((n, ctx))
    if n.ty == 'Statement' and n.variant == 'Assembly':
        return
    if n.ty in ('SourceUnitPart', 'ContractPart') and n.variant == 'ContractDefinition':
        cd = unbox(n.fields[0])
        c2 = ctx.but(contract=cd)
        for c in sub_nodes(cd.fields[3], []):
            _walk(c, c2, out)
        for c in cd.fields[4].items:
            _walk(c, c2, out)
        return
    if n.ty in ('SourceUnitPart', 'ContractPart') and n.variant == 'FunctionDefinition':
        fd = unbox(n.fields[0])
        c2 = ctx.but(func=fd)
        for i, f in enumerate(fd.fields):
            c3 = c2.but(in_body=(i == 8), in_attr=(i == 5))
            for c in sub_nodes(f, []):
                _walk(c, c3, out)
        return
    for i, f in enumerate(n.fields):
        c2 = ctx
        if n.ty == 'Statement' and n.variant == 'Block' and i == 2 and n.fields[1] is True:
            c2 = ctx.but(unchecked=True)
        if n.ty == 'Statement' and n.variant == 'For' and i == 2:
            c2 = ctx.but(for_cond=True)
        for c in sub_nodes(f, []):
            _walk(c, c2, out)


# ------------------------------------------------------------------------------------------------ helpers
def is_var(e, name=None):
    e = unbox(e)
    if not (isinstance(e, Adt) and e.ty == 'Expression' and e.variant == 'Variable'):
        return False
    return name is None or sname(e.fields[0].fields[1]) == name


def sname(s):
    return s.v if isinstance(s, Str) and s.concrete else None


def ident_name(i):
    return sname(i.fields[1])


def name_is(s, text):
    """condition `the string s equals text`: python bool for concrete names, Z3 term for symbolic ones"""
    if isinstance(s, Adt) and s.ty == 'Identifier':
        s = s.fields[1]
    if isinstance(s, Str) and s.concrete:
        return s.v == text
    return s.z() == z3.StringVal(text)


def name_starts(s, text):
    if isinstance(s, Adt) and s.ty == 'Identifier':
        s = s.fields[1]
    if isinstance(s, Str) and s.concrete:
        return s.v.startswith(text)
    return z3.PrefixOf(z3.StringVal(text), s.z())


def var_is(e, text):
    """the expression is the identifier `text` (condition)"""
    e = unbox(e)
    if not (isinstance(e, Adt) and e.ty == 'Expression' and e.variant == 'Variable'):
        return False
    return name_is(e.fields[0], text)


def three(flag, free=False):
    """(flag, never) from a flag condition and a free condition"""
    return flag, band(bnot(flag), bnot(free))


def is_type_call(e, tnames):
    e = unbox(e)
    if e.variant != 'FunctionCall':
        return False
    callee = unbox(e.fields[1])
    return callee.variant == 'Type' and callee.fields[1].variant in tnames


def band(*xs):
    out = []
    for x in xs:
        if x is False:
            return False
        if x is True:
            continue
        out.append(x)
    return True if not out else (out[0] if len(out) == 1 else z3.And(*out))


def bor(*xs):
    out = []
    for x in xs:
        if x is True:
            return True
        if x is False:
            continue
        out.append(x)
    return False if not out else (out[0] if len(out) == 1 else z3.Or(*out))


def bnot(x):
    return (not x) if isinstance(x, bool) else z3.Not(x)


FLAG, NEVER, FREE = (True, False), (False, True), (False, False)

ARITH10 = ('Add', 'Subtract', 'Multiply', 'Divide', 'Modulo', 'ShiftLeft', 'ShiftRight', 'BitwiseAnd', 'BitwiseOr', 'BitwiseXor')


# ------------------------------------------------------------------------------------------------ expression-level gas detectors
def address_balance(n, ctx):
    if n.variant != 'MemberAccess':
        return NEVER
    is_balance = name_is(n.fields[2], 'balance')
    base = unbox(n.fields[1])
    if base.variant == 'FunctionCall':
        callee = unbox(base.fields[1])
        if callee.variant == 'Type':
            t = callee.fields[1].variant
            if t == 'Address' and len(base.fields[2].items) == 1:
                return three(is_balance)
            return three(False, is_balance)
        return NEVER
    if base.variant == 'Parenthesis':
        return three(False, is_balance)
    return NEVER


def _addr_zero_side(e):
    e = unbox(e)
    if e.variant == 'Parenthesis':
        return 'maybe' if _addr_zero_side(e.fields[1]) != 'no' else 'no'
    if not is_type_call(e, ('Address',)):
        if is_type_call(e, ('Payable', 'AddressPayable')):
            return 'maybe'
        return 'no'
    args = e.fields[2].items
    if len(args) != 1:
        return 'maybe'
    a = args[0]
    if a.variant == 'NumberLiteral':
        v, ex = sname(a.fields[1]), sname(a.fields[2])
        if v == '0' and ex == '':
            return 'zero'
        if v is None or ex is None or set(v) <= set('0_') or ex != '':
            return 'maybe'
        return 'no'
    if a.variant in ('HexNumberLiteral', 'Parenthesis'):
        return 'maybe'
    return 'no'


def address_zero(n, ctx):
    if n.variant not in ('Equal', 'NotEqual'):
        return NEVER
    sides = [_addr_zero_side(n.fields[1]), _addr_zero_side(n.fields[2])]
    if 'zero' in sides:
        return FLAG
    if 'maybe' in sides:
        return FREE
    return NEVER


def bool_equals_bool(n, ctx):
    if n.variant not in ('Equal', 'NotEqual'):
        return NEVER
    sides = [unbox(n.fields[1]), unbox(n.fields[2])]
    if any(s.variant == 'BoolLiteral' for s in sides):
        return FLAG
    if any(s.variant == 'Parenthesis' for s in sides):
        return FREE
    return NEVER


def _subscript_lit(e):
    """(array name, literal value, literal exp) for `name[lit]`, else None / 'nonlit'"""
    e = unbox(e)
    if e.variant != 'ArraySubscript' or not is_var(e.fields[1]) or e.fields[2].variant != 'Some':
        return None
    idx = unbox(e.fields[2].fields[0])
    name = ident_name(unbox(e.fields[1]).fields[0])
    if idx.variant != 'NumberLiteral':
        return (name, None, None)
    return (name, sname(idx.fields[1]), sname(idx.fields[2]))


def assign_update_array_value(n, ctx):
    if n.variant != 'Assign':
        return NEVER
    lhs = _subscript_lit(n.fields[1])
    if lhs is None:
        return NEVER
    if lhs[1] is None:
        return FREE
    rhs = unbox(n.fields[2])
    if rhs.variant == 'Parenthesis':
        return FREE
    if rhs.variant not in ARITH10:
        return NEVER
    l, r = _subscript_lit(rhs.fields[1]), _subscript_lit(rhs.fields[2])
    if l is not None and l[0] == lhs[0] and l[1] is not None:
        if l[1] == lhs[1] and l[2] == '' and lhs[2] == '':
            return FLAG
        if l[1] == lhs[1]:
            return FREE
    if r is not None or unbox(rhs.fields[1]).variant == 'Parenthesis':
        return FREE
    if l is not None and l[1] is None:
        return FREE
    return NEVER


def cache_array_length(n, ctx):
    if n.variant != 'MemberAccess':
        return NEVER
    if not ctx.for_cond:
        return NEVER
    return three(name_is(n.fields[2], 'length'))


def increment_decrement(n, ctx):
    if n.variant in ('PostIncrement', 'PostDecrement'):
        return FLAG
    if n.variant in ('PreIncrement', 'PreDecrement'):
        u = ctx.unchecked
        if isinstance(u, bool):
            return NEVER if u else FLAG
        return (z3.Not(u), u)
    return NEVER


def multiple_require(n, ctx):
    if n.variant != 'FunctionCall':
        return NEVER
    req = var_is(n.fields[1], 'require')
    args = n.fields[2].items
    if any(a.variant == 'And' for a in args):
        return three(req)
    if any(a.variant == 'Parenthesis' for a in args):
        return three(False, req)
    return NEVER


def optimal_comparison(n, ctx):
    return FLAG if n.variant in ('MoreEqual', 'LessEqual') else NEVER


UNIT_MULT = {'Seconds': 1, 'Minutes': 60, 'Hours': 3600, 'Days': 86400, 'Weeks': 604800, 'Wei': 1, 'Gwei': 10 ** 9, 'Ether': 10 ** 18}


def _is_pow2(v):
    return v > 0 and v & (v - 1) == 0


def _shift_operand(e):
    """-> (pow2 condition, free condition); everything else is 'clearly not a power-of-two literal'"""
    e = unbox(e)
    if e.variant == 'NumberLiteral':
        val, ex = e.fields[1], sname(e.fields[2])
        if isinstance(val, sol.DecStr):
            n, w = val.n, val.width
            if ex != '':
                return False, True
            pow2 = z3.Or([n == z3.BitVecVal(1 << k, w) for k in range(1, 128)])
            free = z3.Or(n == 1, z3.UGE(n, z3.BitVecVal(1 << 128, w)))
            return pow2, free
        v = sname(val)
        if v is None or ex is None:
            return False, True
        try:
            iv = int(v.replace('_', ''))
            ie = int(ex) if ex else 0
        except ValueError:
            return False, True
        if ex == '':
            if iv == 1 or iv >= 1 << 128:
                return False, True
            if v != str(iv):
                return False, True          # leading zeros / underscores: unusual spelling, left free
            return _is_pow2(iv), False
        total = iv * 10 ** ie if ie >= 0 else None
        if total is None or _is_pow2(total) or total == 1:
            return False, True
        return False, False
    if e.variant == 'Unit':
        inner = unbox(e.fields[1])
        if inner.variant == 'NumberLiteral' and sname(inner.fields[1]) is not None and sname(inner.fields[2]) == '':
            try:
                total = int(sname(inner.fields[1])) * UNIT_MULT[e.fields[2].variant]
            except ValueError:
                return False, True
            return False, (_is_pow2(total) or total in (0, 1))
        return False, True
    if e.variant in ('HexNumberLiteral', 'Parenthesis', 'RationalNumberLiteral'):
        return False, True
    return False, False


def shift_math(n, ctx):
    if n.variant not in ('Multiply', 'Divide'):
        return NEVER
    lp, lf = _shift_operand(n.fields[1])
    rp, rf = _shift_operand(n.fields[2])
    if n.variant == 'Multiply':
        flag = bor(lp, rp)
        free = bor(lf, rf)
    else:
        flag = rp
        free = bor(lp, lf, rf)
    return flag, band(bnot(flag), bnot(free))


def solidity_keccak256(n, ctx):
    if n.variant != 'FunctionCall':
        return NEVER
    return three(var_is(n.fields[1], 'keccak256'))


def solidity_math(n, ctx):
    return FLAG if n.variant in ('Add', 'Subtract', 'Multiply', 'Divide') else NEVER


# ------------------------------------------------------------------------------------------------ vulnerabilities
def unsafe_erc20_operation(n, ctx):
    if n.variant != 'MemberAccess':
        return NEVER
    return three(bor(*[name_is(n.fields[2], t) for t in ('transfer', 'transferFrom', 'approve')]))


def _left_chain(e, through, target):
    """follow left operands through `through` kinds and parentheses: True if `target` is reached, False if another kind"""
    e = unbox(e)
    while True:
        if e.variant == target:
            return True
        if e.variant == 'Parenthesis':
            e = unbox(e.fields[1])
        elif e.variant in through:
            e = unbox(e.fields[1])
        else:
            return False


def divide_before_multiply(n, ctx):
    if n.variant == 'Multiply':
        return FLAG if _left_chain(n.fields[1], ('Multiply',), 'Divide') else NEVER
    if n.variant == 'AssignDivide':
        through = ('Divide', 'Add', 'Subtract', 'Modulo', 'BitwiseAnd', 'BitwiseOr', 'BitwiseXor', 'ShiftLeft', 'ShiftRight')
        return FLAG if _left_chain(n.fields[2], through, 'Multiply') else NEVER
    return NEVER


def floating_pragma(n, ctx):
    if n.ty != 'SourceUnitPart' or n.variant != 'PragmaDirective':
        return NEVER
    lit = n.fields[2].fields[2]
    v = sname(lit)
    if v is None:
        if isinstance(lit, Str):
            return three(z3.Contains(lit.z(), z3.StringVal('^')))      # a caret anywhere in the version expression
        return FREE
    return FLAG if '^' in v else NEVER


def _is_msg_sender(e):
    e = unbox(e)
    return e.variant == 'MemberAccess' and is_var(e.fields[1], 'msg') and ident_name(e.fields[2]) == 'sender'


def _mentions_msg_sender(v):
    """any occurrence of msg.sender below v"""
    if isinstance(v, BoxV):
        return _mentions_msg_sender(v.inner)
    if isinstance(v, Adt):
        if v.ty == 'Expression' and _is_msg_sender(v):
            return True
        return any(_mentions_msg_sender(f) for f in v.fields)
    if isinstance(v, VecV):
        return any(_mentions_msg_sender(f) for f in v.items)
    if isinstance(v, Tuple):
        return any(_mentions_msg_sender(f) for f in v.fields)
    return False


def _fn_visibility(fd):
    vis = None
    for a in fd.fields[5].items:
        if a.variant == 'Visibility':
            vis = a.fields[0].variant
    return vis


def _fn_modifier_names(fd):
    out = []
    for a in fd.fields[5].items:
        if a.variant == 'BaseOrModifier':
            out += [ident_name(i) for i in a.fields[1].fields[1].fields[1].items]
    return out


def _selfdestruct_call(n):
    return n.variant == 'FunctionCall' and (is_var(n.fields[1], 'selfdestruct') or is_var(n.fields[1], 'suicide'))


def _sender_uses(body):
    """classify every msg.sender occurrence in a function body:
    'own'  - inside the arguments of a selfdestruct/suicide call or the operand of a type conversion
    'check'- argument `msg.sender`, `msg.sender == E` or `msg.sender != E` of another (non-conversion) call
    'other'- anything else"""
    uses = []

    def rec(v, mode):
        if isinstance(v, BoxV):
            return rec(v.inner, mode)
        if isinstance(v, Adt):
            if v.ty == 'Expression':
                if _is_msg_sender(v):
                    uses.append(mode)
                    return
                if v.variant == 'FunctionCall':
                    callee = unbox(v.fields[1])
                    rec(callee, mode)
                    if _selfdestruct_call(v):
                        for a in v.fields[2].items:
                            rec(a, 'own')
                        return
                    if callee.variant == 'Type':
                        for a in v.fields[2].items:
                            rec(a, 'own' if _is_msg_sender(a) else mode)
                        return
                    for a in v.fields[2].items:
                        if _is_msg_sender(a):
                            uses.append('check')
                        elif a.variant in ('Equal', 'NotEqual') and _is_msg_sender(a.fields[1]):
                            uses.append('check')
                            rec(a.fields[2], 'other' if mode != 'own' else mode)
                        else:
                            rec(a, 'other' if mode != 'own' else mode)
                    return
            for f in v.fields:
                rec(f, mode)
        elif isinstance(v, VecV):
            for f in v.items:
                rec(f, mode)
        elif isinstance(v, Tuple):
            for f in v.fields:
                rec(f, mode)

    rec(body, 'other')
    return uses


def unprotected_selfdestruct(n, ctx):
    if not (n.ty == 'Expression' and _selfdestruct_call(n)):
        return NEVER
    fd = ctx.func
    if fd is None or ctx.contract is None or not ctx.in_body:
        return NEVER if (fd is None or ctx.contract is None) else FREE
    kind = fd.fields[1].variant
    if kind == 'Constructor':
        return NEVER
    vis = _fn_visibility(fd)
    if vis in ('Internal', 'Private'):
        return NEVER
    mods = _fn_modifier_names(fd)
    if any(m is not None and 'only' in m for m in mods):
        return NEVER
    body = fd.fields[8].fields[0]
    uses = _sender_uses(body)
    if 'check' in uses:
        return NEVER
    if vis is None or kind == 'Modifier':
        return FREE
    if 'other' in uses:
        return FREE
    return FLAG


EXPRESSION_DETECTORS = {
    'address_balance': address_balance, 'address_zero': address_zero, 'bool_equals_bool': bool_equals_bool,
    'assign_update_array_value': assign_update_array_value, 'cache_array_length': cache_array_length,
    'increment_decrement': increment_decrement, 'multiple_require': multiple_require,
    'optimal_comparison': optimal_comparison, 'shift_math': shift_math, 'solidity_keccak256': solidity_keccak256,
    'solidity_math': solidity_math,
}
VULNERABILITY_DETECTORS = {
    'unsafe_erc20_operation': unsafe_erc20_operation, 'divide_before_multiply': divide_before_multiply,
    'floating_pragma': floating_pragma, 'unprotected_selfdestruct': unprotected_selfdestruct,
}
DETECTORS = dict(EXPRESSION_DETECTORS)
DETECTORS.update(VULNERABILITY_DETECTORS)

MIR_NAME = {
    'address_balance': 'address_balance_optimization', 'address_zero': 'address_zero_optimization',
    'assign_update_array_value': 'assign_update_array_optimization', 'bool_equals_bool': 'bool_equals_bool_optimization',
    'cache_array_length': 'cache_array_length_optimization', 'constant_variables': 'constant_variable_optimization',
    'immutable_variables': 'immutable_variables_optimization', 'increment_decrement': 'increment_decrement_optimization',
    'memory_to_calldata': 'memory_to_calldata_optimization', 'multiple_require': 'multiple_require_optimization',
    'optimal_comparison': 'optimal_comparison_optimization', 'pack_storage_variables': 'pack_storage_variables_optimization',
    'pack_struct_variables': 'pack_struct_variables_optimization', 'payable_function': 'payable_function_optimization',
    'private_constant': 'private_constant_optimization', 'safe_math_pre_080': 'safe_math_pre_080_optimization',
    'safe_math_post_080': 'safe_math_post_080_optimization', 'shift_math': 'shift_math_optimization',
    'short_revert_string': 'short_revert_string_optimization', 'solidity_keccak256': 'solidity_keccak256_optimization',
    'solidity_math': 'solidity_math_optimization', 'sstore': 'sstore_optimization', 'string_errors': 'string_error_optimization',
    'constructor_order': 'constructor_order_qa', 'private_func_leading_underscore': 'private_func_leading_underscore',
    'private_vars_leading_underscore': 'private_vars_leading_underscore',
    'divide_before_multiply': 'divide_before_multiply_vulnerability', 'floating_pragma': 'floating_pragma_vulnerability',
    'unprotected_selfdestruct': 'unprotected_selfdestruct_vulnerability',
    'unsafe_erc20_operation': 'unsafe_erc20_operation_vulnerability',
}
CATEGORY = {d: 'opt' for d in MIR_NAME}
for _d in ('constructor_order', 'private_func_leading_underscore', 'private_vars_leading_underscore'):
    CATEGORY[_d] = 'qa'
for _d in VULNERABILITY_DETECTORS:
    CATEGORY[_d] = 'vul'


def report_loc(detector, n):
    """the Loc whose first byte defines the reported line for a flagged node"""
    if detector == 'solidity_keccak256':
        return unbox(n.fields[1]).fields[0].fields[0]
    return ptgen.node_loc(n)


def classify_file(detector, su, fn=None):
    """-> list of (node, loc id, flag condition, never condition) for every node of the file"""
    fn = fn or DETECTORS[detector]
    out = []
    for n, ctx in walk(su):
        flag, never = fn(n, ctx)
        loc = report_loc(detector, n) if flag is not False else ptgen.node_loc(n)
        out.append((n, sol.loc_id(loc) if loc is not None else None, flag, never))
    return out


# ================================================================================================ file-level oracles
WRITE_FORMS = ('Assign', 'AssignOr', 'AssignAnd', 'AssignXor', 'AssignShiftLeft', 'AssignShiftRight', 'AssignAdd',
               'AssignSubtract', 'AssignMultiply', 'AssignDivide', 'AssignModulo', 'PreIncrement', 'PostIncrement',
               'PreDecrement', 'PostDecrement')


def state_variables(su):
    """[(definition node (ContractPart), VariableDefinition, contract)] for contract-level variables"""
    out = []
    for n, ctx in walk(su):
        if n.ty == 'ContractPart' and n.variant == 'VariableDefinition':
            out.append((n, unbox(n.fields[0]), ctx.contract))
    return out


def var_info(vd):
    ty = vd.fields[1]
    attrs = [a for a in vd.fields[2].items]
    vis = None
    for a in attrs:
        if a.variant == 'Visibility':
            vis = a.fields[0].variant
    return {
        'name': ident_name(vd.fields[3]), 'ty': ty,
        'elementary': ty.variant == 'Type' and ty.fields[1].variant != 'Mapping',
        'mapping': ty.variant == 'Type' and ty.fields[1].variant == 'Mapping',
        'constant': any(a.variant == 'Constant' for a in attrs), 'immutable': any(a.variant == 'Immutable' for a in attrs),
        'vis': vis, 'has_attrs': bool(attrs),
    }


def writes(su):
    """[(write node, kind, target description, ctx)]: target = ('direct', name) | ('index', name) | ('member', name) |
    ('tuple', [names]) | ('other', None)"""
    out = []
    for n, ctx in walk(su):
        if n.ty == 'Expression' and n.variant in WRITE_FORMS:
            t = unbox(n.fields[1])
            out.append((n, n.variant, _target(t), ctx))
    return out


def _target(t):
    t = unbox(t)
    if t.variant == 'Variable':
        return ('direct', ident_name(t.fields[0]))
    if t.variant == 'Parenthesis':
        inner = _target(t.fields[1])
        return ('paren', inner[1]) if inner[0] in ('direct', 'paren') else ('other', None)
    if t.variant == 'ArraySubscript' and is_var(t.fields[1]):
        return ('index', ident_name(unbox(t.fields[1]).fields[0]))
    if t.variant == 'MemberAccess' and is_var(t.fields[1]):
        return ('member', ident_name(unbox(t.fields[1]).fields[0]))
    if t.variant == 'List':
        names = []
        for tp in t.fields[1].items:
            if tp.fields[1].variant == 'Some':
                p = tp.fields[1].fields[0]
                if is_var(p.fields[1]):
                    names.append(ident_name(unbox(p.fields[1]).fields[0]))
        return ('tuple', names)
    return ('other', None)


def _indirect_names(ws):
    names = set()
    for _, _, t, _ in ws:
        if t[0] in ('index', 'member', 'paren'):
            names.add(t[1])
        elif t[0] == 'tuple':
            names.update(t[1])
    return names


def constant_variables(su, meta=None):
    ws = writes(su)
    direct = {t[1] for _, _, t, _ in ws if t[0] == 'direct'}
    indirect = _indirect_names(ws)
    out = []
    for node, vd, contract in state_variables(su):
        info = var_info(vd)
        lid = sol.loc_id(ptgen.node_loc(info['ty']))
        if not info['elementary'] or info['name'] is None:
            out.append((node, lid, False, False))          # user-defined / array / mapping types: free
            continue
        if info['constant']:
            out.append((node, lid, False, True))
        elif info['name'] in direct:
            out.append((node, lid, False, True))
        elif info['name'] in indirect:
            out.append((node, lid, False, False))
        else:
            out.append((node, lid, True, False))
    return out


def _non_value(v):
    v = unbox(v)
    if v.variant == 'StringLiteral':
        return True
    if v.variant == 'FunctionCall':
        callee = unbox(v.fields[1])
        if callee.variant == 'MemberAccess' and is_var(callee.fields[1], 'abi'):
            return True
        if callee.variant == 'Type' and callee.fields[1].variant == 'DynamicBytes':
            return True
    return False


def immutable_variables(su, meta=None):
    ws = writes(su)
    out = []
    for node, vd, contract in state_variables(su):
        info = var_info(vd)
        lid = sol.loc_id(ptgen.node_loc(info['ty']))
        name = info['name']
        if not info['elementary'] or name is None:
            out.append((node, lid, False, False))
            continue
        if info['constant'] or info['immutable']:
            out.append((node, lid, False, True))
            continue
        ctor_plain, ctor_other, elsewhere_direct, free_fn, fuzzy = False, False, False, False, False
        for wn, kind, t, ctx in ws:
            hit_direct = t[0] == 'direct' and t[1] == name
            hit_indirect = (t[0] in ('index', 'member', 'paren') and t[1] == name) or (t[0] == 'tuple' and name in t[1])
            if not (hit_direct or hit_indirect):
                continue
            in_ctor = ctx.func is not None and ctx.func.fields[1].variant == 'Constructor' and ctx.contract is not None
            if hit_indirect:
                fuzzy = True
                continue
            if in_ctor:
                if kind == 'Assign' and ctx.in_body and not _non_value(wn.fields[2]):
                    ctor_plain = True
                else:
                    ctor_other = True
            elif ctx.func is not None and ctx.contract is not None:
                elsewhere_direct = True
            elif ctx.func is not None:
                free_fn = True
            else:
                fuzzy = True            # a write inside a state-variable initialiser or similar
        if elsewhere_direct:
            out.append((node, lid, False, True))
        elif not ctor_plain and not ctor_other:
            out.append((node, lid, False, not (fuzzy or free_fn) or True))
        elif ctor_plain and not (free_fn or fuzzy):
            out.append((node, lid, True, False))
        else:
            out.append((node, lid, False, False))
    return out


def memory_to_calldata(su, meta=None):
    out = []
    for n, ctx in walk(su):
        if not (n.ty in ('ContractPart', 'SourceUnitPart') and n.variant == 'FunctionDefinition'):
            continue
        fd = unbox(n.fields[0])
        kind = fd.fields[1].variant
        vis = _fn_visibility(fd)
        has_body = fd.fields[8].variant == 'Some'
        assigned, fuzzy = set(), set()
        if has_body:
            for wn, wkind, t, wctx in writes_in(fd.fields[8].fields[0]):
                if wkind == 'Assign' and t[0] in ('direct', 'index'):
                    assigned.add(t[1])
                elif t[1] is not None and t[0] != 'tuple':
                    fuzzy.add(t[1])
                elif t[0] == 'tuple':
                    fuzzy.update(t[1])
        for tp in fd.fields[4].items:
            if tp.fields[1].variant != 'Some':
                continue
            p = tp.fields[1].fields[0]
            if p.fields[2].variant != 'Some':
                continue
            sl = p.fields[2].fields[0]
            lid = sol.loc_id(sl.fields[0])
            name = ident_name(p.fields[3].fields[0]) if p.fields[3].variant == 'Some' else None
            if sl.variant != 'Memory' or name is None or kind == 'Constructor' or name in assigned:
                out.append((n, lid, False, True))
            elif not has_body:
                out.append((n, lid, False, False))
            elif vis in ('Public', 'External') and name not in fuzzy and ctx.contract is not None and kind == 'Function':
                out.append((n, lid, True, False))
            else:
                out.append((n, lid, False, False))
    return out


def writes_in(stmt):
    fake = Adt('SourceUnit', None, (VecV(()),))
    out = []
    acc = []
    _walk(stmt, Ctx(), acc)
    for n, ctx in acc:
        if n.ty == 'Expression' and n.variant in WRITE_FORMS:
            out.append((n, n.variant, _target(n.fields[1]), ctx))
    return out


def sstore(su, meta=None):
    qualifying = set()
    for node, vd, contract in state_variables(su):
        info = var_info(vd)
        if info['elementary'] and not info['constant'] and not info['immutable'] and info['name']:
            qualifying.add(info['name'])
    out = []
    for n, ctx in walk(su):
        if n.ty == 'Expression' and n.variant == 'Assign':
            t = _target(n.fields[1])
            lid = sol.loc_id(ptgen.node_loc(n))
            if t[0] == 'direct' and t[1] in qualifying:
                out.append((n, lid, True, False))
            elif t[0] == 'paren':
                out.append((n, lid, False, False))
            else:
                out.append((n, lid, False, True))
    return out


# ---- declaration-level detectors (C06): iff on the stated domain
def payable_function(su, meta=None):
    out = []
    for n, ctx in walk(su):
        if not (n.ty in ('ContractPart', 'SourceUnitPart') and n.variant == 'FunctionDefinition'):
            continue
        fd = unbox(n.fields[0])
        lid = sol.loc_id(fd.fields[0])
        if ctx.contract is None:
            out.append((n, lid, False, True))                  # free functions are not members of a contract
            continue
        kind = fd.fields[1].variant
        vis = _fn_visibility(fd)
        payable = any(a.variant == 'Mutability' and a.fields[0].variant == 'Payable' for a in fd.fields[5].items)
        has_body = fd.fields[8].variant == 'Some'
        should = has_body and vis in ('Public', 'External') and not payable
        if kind not in ('Function', 'Fallback'):
            # constructors, receive functions (which must be payable anyway) and modifiers: free when the shape matches.
            # A `fallback() external { .. }` is a function declaration with a visibility and a body like any other: canonical
            out.append((n, lid, False, not should))
        else:
            out.append((n, lid, should, not should))
    return out


def private_constant(su, meta=None):
    out = []
    for node, vd, contract in state_variables(su):
        info = var_info(vd)
        lid = sol.loc_id(ptgen.node_loc(info['ty']))
        if not info['elementary']:
            out.append((node, lid, False, info['mapping'] or not info['constant']))
            continue
        should = info['constant'] and info['vis'] != 'Private' and not info['immutable']
        if info['immutable'] and info['constant']:
            out.append((node, lid, False, False))
        else:
            out.append((node, lid, should, not should))
    for n, ctx in walk(su):
        if n.ty == 'SourceUnitPart' and n.variant == 'VariableDefinition':
            vd = unbox(n.fields[0])
            out.append((n, sol.loc_id(ptgen.node_loc(vd.fields[1])), False, False))
    return out


def private_vars_leading_underscore(su, meta=None):
    out = []
    for node, vd, contract in state_variables(su):
        info = var_info(vd)
        lid = sol.loc_id(ptgen.node_loc(info['ty']))
        if not info['elementary']:
            out.append((node, lid, False, info['mapping']))
            continue
        if info['constant']:
            out.append((node, lid, False, True))
            continue
        vis = info['vis']
        us = name_starts(vd.fields[3], '_')
        should = bnot(us) if vis in ('Private', 'Internal') else (us if vis == 'Public' else False)
        if vis == 'External':
            out.append((node, lid, False, False))
        else:
            out.append((node, lid, should, bnot(should)))
    for n, ctx in walk(su):
        if n.ty == 'SourceUnitPart' and n.variant == 'VariableDefinition':
            vd = unbox(n.fields[0])
            out.append((n, sol.loc_id(ptgen.node_loc(vd.fields[1])), False, True))
    return out


def private_func_leading_underscore(su, meta=None):
    out = []
    for n, ctx in walk(su):
        if not (n.ty in ('ContractPart', 'SourceUnitPart') and n.variant == 'FunctionDefinition'):
            continue
        fd = unbox(n.fields[0])
        if fd.fields[2].variant != 'Some':
            out.append((n, sol.loc_id(fd.fields[0]), False, True))
            continue
        name_ident = fd.fields[2].fields[0]
        lid = sol.loc_id(name_ident.fields[0])
        kind = fd.fields[1].variant
        vis = _fn_visibility(fd)
        if ctx.contract is None or kind != 'Function' or vis is None:
            out.append((n, lid, False, True))
            continue
        us = name_starts(name_ident, '_')
        should = us if vis in ('Public', 'External') else bnot(us)
        out.append((n, lid, should, bnot(should)))
    return out


def constructor_order(su, meta=None):
    out = []
    for n, ctx in walk(su):
        if n.ty == 'SourceUnitPart' and n.variant == 'ContractDefinition':
            cd = unbox(n.fields[0])
            seen_fn = False
            for part in cd.fields[4].items:
                if part.variant != 'FunctionDefinition':
                    continue
                fd = unbox(part.fields[0])
                kind = fd.fields[1].variant
                lid = sol.loc_id(fd.fields[0])
                if kind == 'Constructor':
                    out.append((part, lid, seen_fn, not seen_fn))
                else:
                    out.append((part, lid, False, True))
                    if kind != 'Modifier':
                        seen_fn = True
        elif n.ty == 'SourceUnitPart' and n.variant == 'FunctionDefinition':
            out.append((n, sol.loc_id(unbox(n.fields[0]).fields[0]), False, True))
    return out


# ---- version-gated detectors (C09)
def _uses_safemath(su):
    for n, ctx in walk(su):
        if n.variant == 'Using':
            u = unbox(n.fields[0])
            if u.fields[1].variant == 'Library':
                if any(ident_name(i) == 'SafeMath' for i in u.fields[1].fields[0].fields[1].items):
                    return True
    return False


def _version_cond(meta, op, ref):
    """z3/python condition `version op ref` for the file's version (M, m, p); None when the file has no single full version"""
    v = (meta or {}).get('version')
    if v is None:
        return None
    M, m, p = v
    a, b_, c = ref
    if all(isinstance(x, int) for x in v):
        return ((M, m, p) < ref) if op == '<' else ((M, m, p) >= ref)
    lt = z3.Or(M < a, z3.And(M == a, z3.Or(m < b_, z3.And(m == b_, p < c))))
    return lt if op == '<' else z3.Not(lt)


def _safe_math(pre):
    def f(su, meta=None):
        using = _uses_safemath(su)
        cond = _version_cond(meta, '<' if pre else '>=', (0, 8, 0))
        out = []
        for n, ctx in walk(su):
            if n.ty == 'Expression' and n.variant == 'FunctionCall':
                callee = unbox(n.fields[1])
                if callee.variant == 'MemberAccess' and ident_name(callee.fields[2]) in ('add', 'sub', 'mul', 'div'):
                    lid = sol.loc_id(callee.fields[0])
                    if cond is None:
                        out.append((n, lid, False, False))
                    elif not using:
                        out.append((n, lid, False, True))
                    else:
                        out.append((n, lid, cond, bnot(cond)))
        return out
    return f


def _require_string(n):
    if n.ty == 'Expression' and n.variant == 'FunctionCall' and is_var(n.fields[1], 'require') and n.fields[2].items:
        last = n.fields[2].items[-1]
        if last.variant == 'StringLiteral':
            return last.fields[0].items[0]
    return None


def string_errors(su, meta=None):
    cond = _version_cond(meta, '>=', (0, 8, 4))
    out = []
    for n, ctx in walk(su):
        lit = _require_string(n)
        if lit is not None:
            lid = sol.loc_id(lit.fields[0])
            out.append((n, lid, False, False) if cond is None else (n, lid, cond, bnot(cond)))
    return out


def short_revert_string(su, meta=None):
    cond = _version_cond(meta, '<', (0, 8, 4))
    out = []
    for n, ctx in walk(su):
        lit = _require_string(n)
        if lit is not None:
            lid = sol.loc_id(lit.fields[0])
            s = lit.fields[2]
            if getattr(s, 'byte_len', None) is not None:
                long_ = z3.UGE(s.byte_len, z3.BitVecVal(32, 64))
            else:
                long_ = len(s.v.encode('utf-8')) >= 32
            if cond is None:
                out.append((n, lid, False, False))
            else:
                fl = band(cond, long_)
                out.append((n, lid, fl, bnot(fl)))
    return out


FILE_DETECTORS = {
    'constant_variables': constant_variables, 'immutable_variables': immutable_variables,
    'memory_to_calldata': memory_to_calldata, 'sstore': sstore, 'payable_function': payable_function,
    'private_constant': private_constant, 'private_vars_leading_underscore': private_vars_leading_underscore,
    'private_func_leading_underscore': private_func_leading_underscore, 'constructor_order': constructor_order,
    'safe_math_pre_080': _safe_math(True), 'safe_math_post_080': _safe_math(False), 'string_errors': string_errors,
    'short_revert_string': short_revert_string,
}

_classify_nodes = classify_file


def classify_file(detector, su, fn=None, meta=None):
    if fn is None and detector in FILE_DETECTORS:
        return FILE_DETECTORS[detector](su, meta)
    return _classify_nodes(detector, su, fn)
