"""mirsym: symbolic execution of solstat's MIR (see DESIGN.md section 2).

Values are immutable python objects; scalars are python ints/bools when concrete and Z3 terms when symbolic.
Forking is done by re-execution under a *decision trace*: a path is identified by the list of choices taken at its
decision points (symbolic `switchInt`, resolution of a Choice value, an iteration-order pick); unexplored feasible
alternatives are queued as new traces. Z3 decides feasibility at every symbolic branch and the property at the end.
"""
import re
import time

import z3

from .mirparse import INT_TYPES
from .types import norm_type, strip_generics


# ================================================================================================ values
class Int:
    __slots__ = ('v', 'ty')

    def __init__(self, v, ty):
        if isinstance(v, int):
            w, signed = INT_TYPES[ty]
            v &= (1 << w) - 1
            if signed and v >> (w - 1):
                v -= 1 << w
        self.v, self.ty = v, ty

    @property
    def concrete(self):
        return isinstance(self.v, int)

    def z(self):
        if isinstance(self.v, int):
            return z3.BitVecVal(self.v, INT_TYPES[self.ty][0])
        return self.v

    def __repr__(self):
        return '%s_%s' % (self.v, self.ty)

    def __eq__(self, o):
        return isinstance(o, Int) and self.ty == o.ty and (
            (self.concrete and o.concrete and self.v == o.v) or
            (not self.concrete and not o.concrete and self.v.eq(o.v)))

    def __hash__(self):
        return hash((self.ty, self.v if self.concrete else self.v.hash()))


class Adt:
    """enum value (variant is a name) or struct value (variant is None)"""
    __slots__ = ('ty', 'variant', 'fields')

    def __init__(self, ty, variant, fields=()):
        self.ty, self.variant, self.fields = ty, variant, tuple(fields)

    def __repr__(self):
        head = '%s::%s' % (self.ty, self.variant) if self.variant else self.ty
        return head + ('(%s)' % ', '.join(map(repr, self.fields)) if self.fields else '')

    def __eq__(self, o):
        return isinstance(o, Adt) and self.ty == o.ty and self.variant == o.variant and self.fields == o.fields

    def __hash__(self):
        return hash((self.ty, self.variant, self.fields))


class Tuple:
    __slots__ = ('fields',)

    def __init__(self, fields=()):
        self.fields = tuple(fields)

    def __repr__(self):
        return '(%s)' % ', '.join(map(repr, self.fields))

    def __eq__(self, o):
        return isinstance(o, Tuple) and self.fields == o.fields

    def __hash__(self):
        return hash(self.fields)


UNIT = Tuple(())


class Array:
    __slots__ = ('items',)

    def __init__(self, items):
        self.items = tuple(items)

    def __repr__(self):
        return '[%s]' % ', '.join(map(repr, self.items))


class BoxV:
    """owning pointer to an immutable value (parse trees)"""
    __slots__ = ('inner',)

    def __init__(self, inner):
        self.inner = inner

    def __repr__(self):
        return 'Box(%r)' % (self.inner,)

    def __eq__(self, o):
        return isinstance(o, BoxV) and self.inner == o.inner

    def __hash__(self):
        return hash(('box', self.inner))


class MutBox:
    """heap cell that is written through a raw pointer (the `vec![..]` lowering: Box<MaybeUninit<[T; N]>>)"""
    __slots__ = ('inner',)

    def __init__(self, inner=None):
        self.inner = inner


class Ptr:
    """raw pointer obtained from a Box by the Unique/NonNull projection chain + Transmute"""
    __slots__ = ('box',)

    def __init__(self, box):
        self.box = box


class Ref:
    """reference to a place: (frame, local, projections)"""
    __slots__ = ('frame', 'local', 'projs')

    def __init__(self, frame, local, projs=()):
        self.frame, self.local, self.projs = frame, local, tuple(projs)

    def __repr__(self):
        return '&%s%s' % (self.local, ''.join('.%s' % (p[1] if len(p) > 1 else '*') for p in self.projs))


class ValRef:
    """reference to a value that has no place of its own (result of a library contract, promoted constant)"""
    __slots__ = ('v',)

    def __init__(self, v):
        self.v = v

    def __repr__(self):
        return '&tmp(%r)' % (self.v,)


class Str:
    """String / &str: python str when concrete, Z3 sequence term when symbolic"""
    __slots__ = ('v', 'lower_invariant')

    def __init__(self, v):
        self.v = v

    @property
    def concrete(self):
        return isinstance(self.v, str)

    def z(self):
        return z3.StringVal(self.v) if isinstance(self.v, str) else self.v

    def __repr__(self):
        return 'Str(%r)' % (self.v,)

    def __eq__(self, o):
        return isinstance(o, Str) and self.concrete and o.concrete and self.v == o.v

    def __hash__(self):
        return hash(('str', self.v if self.concrete else id(self.v)))


class CaseStr(Str):
    """`base` with an arbitrary (symbolic) choice of letter case per character; to_lowercase() is base.lower()"""
    __slots__ = ('base', 'mask')

    def __init__(self, base, mask):
        self.base, self.mask = base, mask
        chars = []
        for i, ch in enumerate(base):
            if ch.lower() != ch.upper():
                bit = z3.Extract(i, i, mask) == 1
                chars.append(z3.If(bit, z3.StringVal(ch.upper()), z3.StringVal(ch.lower())))
            else:
                chars.append(z3.StringVal(ch))
        self.v = z3.Concat(*chars) if len(chars) > 1 else chars[0]


class VecV:
    __slots__ = ('items',)

    def __init__(self, items=()):
        self.items = tuple(items)

    def __repr__(self):
        return 'vec![%s]' % ', '.join(map(repr, self.items))

    def __eq__(self, o):
        return isinstance(o, VecV) and self.items == o.items

    def __hash__(self):
        return hash(('vec', self.items))


class IterV:
    """iterator over a concrete-length sequence; `kind`: 'val' yields items, 'ref' yields references to them"""
    __slots__ = ('items', 'pos', 'kind', 'extra')

    def __init__(self, items, pos=0, kind='val', extra=None):
        self.items, self.pos, self.kind, self.extra = tuple(items), pos, kind, extra


class SetV:
    """HashSet / BTreeSet as an insertion-ordered tuple; element equality may be symbolic, so duplicates are kept and
    the set semantics is applied where the set is observed"""
    __slots__ = ('items', 'kind')

    def __init__(self, items=(), kind='hash'):
        self.items, self.kind = tuple(items), kind

    def __repr__(self):
        return '%sset{%s}' % (self.kind, ', '.join(map(repr, self.items)))


class MapV:
    """HashMap as an association tuple ((key, value), ...), keys pairwise different"""
    __slots__ = ('pairs',)

    def __init__(self, pairs=()):
        self.pairs = tuple(pairs)

    def __repr__(self):
        return 'map{%s}' % ', '.join('%r: %r' % p for p in self.pairs)


class Choice:
    """one of `alts`, selected at the first inspection by a decision point; `sel` names the selector"""
    __slots__ = ('sel', 'alts')

    def __init__(self, sel, alts):
        self.sel, self.alts = sel, tuple(alts)

    def __repr__(self):
        return 'Choice(%s, %d alts)' % (self.sel, len(self.alts))


class Opaque:
    """uninterpreted value of a given type (an opaque subtree, an unknown environment value)"""
    __slots__ = ('ty', 'name')

    def __init__(self, ty, name):
        self.ty, self.name = ty, name

    def __repr__(self):
        return '<%s %s>' % (self.ty, self.name)

    def __eq__(self, o):
        return isinstance(o, Opaque) and self.name == o.name

    def __hash__(self):
        return hash(('opaque', self.name))


class Closure:
    __slots__ = ('name', 'captures')

    def __init__(self, name, captures):
        self.name, self.captures = name, tuple(captures)


class FnItem:
    __slots__ = ('name',)

    def __init__(self, name):
        self.name = name


class Uninit:
    def __repr__(self):
        return '<uninit>'


UNINIT = Uninit()


# ================================================================================================ outcomes
class Panic(Exception):
    def __init__(self, msg, site=''):
        Exception.__init__(self, msg)
        self.msg, self.site = msg, site


class Exit(Exception):
    def __init__(self, code):
        Exception.__init__(self, 'exit(%r)' % (code,))
        self.code = code


class Unsupported(Exception):
    pass


class Infeasible(Exception):
    """the decision trace asked for an alternative that does not exist on this run (engine bug guard)"""


class PathResult:
    __slots__ = ('trace', 'outcome', 'value', 'pc', 'choices', 'steps', 'extra', 'notes')

    def __init__(self, trace, outcome, value, pc, choices, steps, extra, notes):
        self.trace, self.outcome, self.value, self.pc = trace, outcome, value, pc
        self.choices, self.steps, self.extra, self.notes = choices, steps, extra, notes

    def __repr__(self):
        return '<Path %s %s %r>' % (self.trace, self.outcome, self.value)


# ================================================================================================ engine
class Frame:
    __slots__ = ('fn', 'env', 'depth')

    def __init__(self, fn, depth):
        self.fn, self.env, self.depth = fn, {}, depth


class Engine:
    def __init__(self, program, typedb, overflow_checks=True, timeout_ms=10000):
        self.program = program            # name -> [Func]
        self.types = typedb
        self.overflow_checks = overflow_checks
        self.stubs = {}                   # exact callee text or normalised name -> fn(engine, args, frame, callee)
        # process-wide state (statics, thread-locals): name -> value; reset at the start of every path, so what one call leaves behind is
        # seen by the next call executed on the SAME path. global_presets: name -> fn(engine) -> initial value (instead of the initializer)
        self.gframe = Frame(None, 0)
        self.global_presets = {}
        self.stub_patterns = []           # (compiled regex on the normalised callee, fn(engine, args, frame, match)): per-check stubs
        self.contracts = []               # [(compiled regex on the normalised callee, handler)]
        self.solver = z3.Solver()
        self.solver.set('timeout', timeout_ms)
        self.timeout_ms = timeout_ms
        self.stats = {'blocks': 0, 'calls': 0, 'queries': 0, 'solver_s': 0.0, 'paths': 0, 'unknown': 0}
        self.functions_encoded = set()
        self.contracts_used = set()
        self.max_steps = 400000
        self.max_depth = 200
        self._resolve_cache = {}
        self._index_functions()
        # per-path state
        self.trace, self.pos, self.pc, self.choices, self.pending = [], 0, [], {}, []
        self.fresh_counter = 0
        self.steps = 0
        self.notes = []
        self.base_constraints = []
        self.flags = {}
        self.extra = {}

    # ---------------------------------------------------------------------------------------- program index
    def _index_functions(self):
        self.by_last = {}
        self.impl_methods = {}
        for name, fl in self.program.items():
            last = name.rsplit('::', 1)[-1]
            self.by_last.setdefault(last, []).append(name)
            if '<impl at ' in name:
                self.impl_methods.setdefault(last, []).append(name)

    def func(self, name):
        return self.program[name][0]

    # ---------------------------------------------------------------------------------------- path exploration
    def explore(self, run, max_paths=20000, base_constraints=(), wall_s=None):
        """run(engine) executes one path and returns its value. -> list of PathResult (all feasible paths)"""
        results, work = [], [[]]
        t_end = time.time() + wall_s if wall_s else None
        self.base_constraints = list(base_constraints)
        while work:
            if len(results) >= max_paths:
                raise Unsupported('more than %d paths' % max_paths)
            if t_end and time.time() > t_end:
                raise Unsupported('exploration exceeded %ds wall time' % wall_s)
            trace = work.pop()
            self.trace, self.pos, self.pc, self.choices, self.pending = trace, 0, [], {}, []
            self.fresh_counter, self.steps, self.notes = 0, 0, []
            self.extra = {}
            self.gframe.env = {}
            self.solver.reset()
            self.solver.set('timeout', self.timeout_ms)
            if self.base_constraints:
                self.solver.add(*self.base_constraints)
            try:
                v = run(self)
                outcome = 'return'
            except Panic as p:
                v, outcome = p, 'panic'
            except Exit as e:
                v, outcome = e, 'exit'
            except Unsupported as u:
                v, outcome = u, 'unsupported'
            taken = self.trace[:self.pos] if self.pos <= len(self.trace) else self.trace
            results.append(PathResult(list(self.trace), outcome, v, list(self.pc), dict(self.choices), self.steps,
                                      self.extra, list(self.notes)))
            self.stats['paths'] += 1
            work.extend(self.pending)
        return results

    def fresh(self, prefix):
        self.fresh_counter += 1
        return '%s!%d' % (prefix, self.fresh_counter)

    def check(self, *conds):
        """satisfiability of pc ∧ conds -> z3.sat / unsat / unknown"""
        t = time.time()
        self.solver.push()
        self.solver.add(*conds)
        r = self.solver.check()
        self.solver.pop()
        self.stats['queries'] += 1
        self.stats['solver_s'] += time.time() - t
        if r == z3.unknown:
            self.stats['unknown'] += 1
        return r

    def assume(self, cond):
        if cond is True:
            return
        self.pc.append(cond)
        self.solver.add(cond)

    def decide(self, n, conds=None, label=None):
        """decision point with n alternatives (alternative i guarded by conds[i], None = always possible)"""
        if self.pos < len(self.trace):
            k = self.trace[self.pos]
            self.pos += 1
            if k >= n:
                raise Infeasible('trace alternative %d of %d' % (k, n))
            if conds is not None and conds[k] is not None:
                self.assume(conds[k])
            return k
        feas = []
        for i in range(n):
            if conds is None or conds[i] is None:
                feas.append(i)
                continue
            r = self.check(conds[i])
            if r == z3.sat:
                feas.append(i)
            elif r == z3.unknown:
                raise Unsupported('solver returned unknown at a branch (%s)' % (label or ''))
        if not feas:
            raise Unsupported('no feasible alternative at a decision point (%s): contradictory path' % (label or ''))
        k = feas[0]
        base = self.trace[:self.pos]
        for j in feas[1:]:
            self.pending.append(base + [j])
        self.trace = base + [k]
        self.pos += 1
        if conds is not None and conds[k] is not None:
            self.assume(conds[k])
        return k

    def branch(self, cond):
        """python bool for a possibly symbolic boolean (forks when both values are feasible)"""
        if isinstance(cond, bool):
            return cond
        cond = z3.simplify(cond)
        if z3.is_true(cond):
            return True
        if z3.is_false(cond):
            return False
        return self.decide(2, [z3.Not(cond), cond], 'bool') == 1

    def force(self, v):
        """resolve Choice values at the top level"""
        while isinstance(v, Choice):
            if v.sel in self.choices:
                k = self.choices[v.sel]
            else:
                k = self.decide(len(v.alts), None, v.sel)
                self.choices[v.sel] = k
            v = v.alts[k]
        return v

    # ---------------------------------------------------------------------------------------- places
    def read_place(self, frame, place):
        local, projs = place
        try:
            v = frame.env[local]
        except KeyError:
            raise Unsupported('read of unset local %s in %s' % (local, frame.fn.name))
        return self.project(v, projs, frame)

    def project(self, v, projs, frame=None):
        for p in projs:
            v = self.force(v)
            k = p[0]
            if k == 'deref':
                if isinstance(v, Ref):
                    v = self.read_place(v.frame, (v.local, v.projs))
                elif isinstance(v, ValRef):
                    v = v.v
                elif isinstance(v, Ptr):
                    b = v.box
                    v = b.inner
                elif isinstance(v, (BoxV, MutBox)):
                    v = v.inner
                elif isinstance(v, (Str, VecV, Opaque)):
                    pass                                  # fat pointers modelled by value
                else:
                    raise Unsupported('deref of %r' % (v,))
            elif k == 'field':
                if isinstance(v, (BoxV, MutBox, Ptr)):
                    continue                              # Unique / NonNull wrapper chain of Box: identity
                if isinstance(v, (Adt, Tuple)):
                    try:
                        v = v.fields[p[1]]
                    except IndexError:
                        raise Unsupported('field %d of %r' % (p[1], v))
                elif v is UNINIT or isinstance(v, (Array, Closure)):
                    if isinstance(v, Closure):
                        v = v.captures[p[1]]
                    # MaybeUninit / ManuallyDrop / MaybeDangling wrappers: identity
                elif isinstance(v, Opaque):
                    u = self._unfold(v)
                    if u is not None:
                        try:
                            v = u.fields[p[1]]
                        except IndexError:
                            raise Unsupported('field %d of %r' % (p[1], u))
                    else:
                        v = Opaque('?', '%s.%d' % (v.name, p[1]))
                else:
                    raise Unsupported('field %d of %r' % (p[1], v))
            elif k == 'down':
                if isinstance(v, Adt):
                    if v.variant != p[1]:
                        raise Unsupported('downcast to %s of %r' % (p[1], v))
                elif isinstance(v, Opaque):
                    pass
                else:
                    raise Unsupported('downcast of %r' % (v,))
            elif k == 'index':
                idx = self.force(frame.env[p[1]])
                v = self._index(v, idx)
            elif k == 'constindex':
                v = self._index(v, Int(p[1], 'usize'))
            elif k == 'vecindex':
                v = v.items[p[1]]
            elif k == 'mapvalue':
                v = v.pairs[p[1]][1]
            else:
                raise Unsupported('projection %r' % (p,))
        return v

    def _index(self, v, idx):
        if not isinstance(v, (VecV, Array)):
            raise Unsupported('index into %r' % (v,))
        if not idx.concrete:
            raise Unsupported('symbolic index')
        if idx.v >= len(v.items):
            raise Panic('index out of bounds: the len is %d but the index is %d' % (len(v.items), idx.v))
        return v.items[idx.v]

    def write_place(self, frame, place, val):
        local, projs = place
        if not projs:
            frame.env[local] = val
            return
        frame.env[local] = self._update(frame.env.get(local), list(projs), val, frame)

    def _update(self, cur, projs, val, frame):
        if not projs:
            return val
        cur = self.force(cur)
        p = projs[0]
        k = p[0]
        if k == 'deref':
            if isinstance(cur, Ref):
                self.write_place(cur.frame, (cur.local, cur.projs + tuple(projs[1:])), val)
                return cur
            if isinstance(cur, Ptr) and isinstance(cur.box, MutBox):
                cur.box.inner = self._update(cur.box.inner, projs[1:], val, frame)
                return cur
            if isinstance(cur, MutBox):
                cur.inner = self._update(cur.inner, projs[1:], val, frame)
                return cur
            if isinstance(cur, ValRef):
                cur.v = self._update(cur.v, projs[1:], val, frame)
                return cur
            raise Unsupported('write through %r' % (cur,))
        if k == 'field':
            if cur is UNINIT or cur is None:
                if len(projs) == 1 or all(q[0] == 'field' for q in projs):
                    # wrapper chain of MaybeUninit: the innermost write defines the content
                    return self._update(UNINIT, projs[1:], val, frame) if len(projs) > 1 else val
            if isinstance(cur, Adt):
                fs = list(cur.fields)
                while len(fs) <= p[1]:
                    fs.append(UNINIT)
                fs[p[1]] = self._update(fs[p[1]], projs[1:], val, frame)
                return Adt(cur.ty, cur.variant, fs)
            if isinstance(cur, Tuple):
                fs = list(cur.fields)
                while len(fs) <= p[1]:
                    fs.append(UNINIT)
                fs[p[1]] = self._update(fs[p[1]], projs[1:], val, frame)
                return Tuple(fs)
            if cur is UNINIT or cur is None:
                fs = [UNINIT] * (p[1] + 1)
                fs[p[1]] = self._update(UNINIT, projs[1:], val, frame)
                return Tuple(fs)
            raise Unsupported('field write into %r' % (cur,))
        if k == 'down':
            return self._update(cur, projs[1:], val, frame)
        if k == 'vecindex':
            items = list(cur.items)
            items[p[1]] = self._update(items[p[1]], projs[1:], val, frame)
            return VecV(items)
        if k == 'mapvalue':
            pairs = list(cur.pairs)
            pairs[p[1]] = (pairs[p[1]][0], self._update(pairs[p[1]][1], projs[1:], val, frame))
            return MapV(pairs)
        if k in ('index', 'constindex'):
            idx = self.force(frame.env[p[1]]).v if k == 'index' else p[1]
            items = list(cur.items)
            if idx >= len(items):
                raise Panic('index out of bounds: the len is %d but the index is %d' % (len(items), idx))
            items[idx] = self._update(items[idx], projs[1:], val, frame)
            return VecV(items) if isinstance(cur, VecV) else Array(items)
        raise Unsupported('write projection %r' % (p,))

    def load(self, r):
        """value behind a reference-like value (follows Ref / ValRef chains, resolves choices)"""
        r = self.force(r)
        while isinstance(r, (Ref, ValRef)):
            r = self.read_place(r.frame, (r.local, r.projs)) if isinstance(r, Ref) else r.v
            r = self.force(r)
        return r

    def store(self, r, val):
        r = self.force(r)
        if isinstance(r, Ref):
            inner = self.force(self.read_place(r.frame, (r.local, r.projs)))
            if isinstance(inner, (Ref, ValRef)):       # &mut &mut T
                return self.store(inner, val)
            self.write_place(r.frame, (r.local, r.projs), val)
        elif isinstance(r, ValRef):
            if isinstance(self.force(r.v), (Ref, ValRef)):
                return self.store(r.v, val)
            r.v = val
        else:
            raise Unsupported('store through %r' % (r,))

    # ---------------------------------------------------------------------------------------- operands / rvalues
    def operand(self, frame, o):
        k = o[0]
        if k == 'copy' or k == 'move':
            return self.read_place(frame, o[1])
        c = o[1]
        ck = c[0]
        if ck == 'int':
            return Int(c[1], c[2])
        if ck == 'bool':
            return c[1]
        if ck == 'str':
            return Str(c[1])
        if ck == 'bytes':
            return ('bytes', c[1])
        if ck == 'unit':
            return UNIT
        if ck == 'char':
            return Int(ord(c[1]), 'char')
        if ck == 'promoted':
            return self._promoted(frame, c[1])
        if ck == 'item':
            return self._const_item(frame, c[1])
        if ck == 'alloc':
            return self.static_ref(c[1])
        raise Unsupported('constant %r' % (c,))

    def static_ref(self, alloc):
        """reference to the cell of the static behind `{allocN: &T}`; the cell is created on first use from the static's initializer"""
        tab = self.program.get('__allocs__')
        name = tab[0].locals.get(alloc) if tab else None
        if name is None:
            raise Unsupported('address of %s (not a static of this crate)' % alloc)
        return self.global_cell(name)

    def global_cell(self, name, init=None):
        env = self.gframe.env
        if name not in env:
            if name in self.global_presets:
                env[name] = self.global_presets[name](self)
            elif init is not None:
                env[name] = init()
            else:
                cands = [n for n in self.program if (n == name or n.endswith('::' + name)) and self.program[n][0].kind == 'static']
                if len(cands) != 1:
                    raise Unsupported('initializer of static %s (%d candidates)' % (name, len(cands)))
                env[name] = self.call_mir(self.func(cands[0]), [], 1)
            self.extra.setdefault('globals_touched', [])
            if name not in self.extra['globals_touched']:
                self.extra['globals_touched'].append(name)
        return Ref(self.gframe, name, ())

    def _promoted(self, frame, name):
        cands = [n for n in self.program if n == name]
        if not cands:
            # the operand prints a (possibly) shortened path: match on the `fn::promoted[i]` suffix of the caller
            suffix = '::'.join(name.split('::')[-2:])
            own = frame.fn.name + '::' + name.split('::')[-1]
            cands = [n for n in self.program if n == own] or \
                    [n for n in self.program if n.endswith(suffix) and self.program[n][0].kind == 'const']
        if len(cands) != 1:
            raise Unsupported('promoted constant %s (%d candidates)' % (name, len(cands)))
        return self.call_mir(self.func(cands[0]), [], frame.depth + 1)

    def _const_item(self, frame, text):
        if re.search(r'::\{constant#\d+\}$', text):
            return FnItem(text)            # the accessor of a thread-local key: never called, the LocalKey contract identifies the key
        if text.startswith('ZeroSized: '):
            ty = text[len('ZeroSized: '):]
            if ty.startswith('{closure@'):
                return Closure(ty, ())
            m = re.match(r'^fn\(.*\) (?:-> .* )?\{(.*)\}$', ty)
            if m:
                return FnItem(m.group(1))
        # a named constant of the crate (`const opts::DEFAULT_PATH`): evaluate its MIR item
        last = text.rsplit('::', 1)[-1]
        cands = [n for n in self.program if (n == text or n == last or n.endswith('::' + last)) and self.program[n][0].kind == 'const'
                 and 'promoted[' not in n]
        if len(cands) == 1:
            return self.call_mir(self.func(cands[0]), [], frame.depth + 1)
        t = norm_type(text)
        m = re.match(r'^(?:<impl )?(u8|u16|u32|u64|u128|usize|i8|i16|i32|i64|i128|isize)>?::(MAX|MIN)$', t)
        if m:
            w, s = INT_TYPES[m.group(1)]
            if m.group(2) == 'MAX':
                return Int((1 << (w - 1)) - 1 if s else (1 << w) - 1, m.group(1))
            return Int(-(1 << (w - 1)) if s else 0, m.group(1))
        # unit-like enum variant or ZST written as a constant, e.g. `const Target::Add`, `const ZeroSized: ..`
        v = self._adt_from_path(t, 'unit', [])
        if v is not None:
            return v
        return FnItem(text)

    def _adt_from_path(self, path, kind, fields):
        p = strip_generics(norm_type(path))
        segs = p.split('::')
        if len(segs) >= 2 and segs[-2] in self.types.enums:
            enum = segs[-2]
            try:
                self.types.variant_index(enum, segs[-1])
            except KeyError:
                return None
            if kind == 'struct':
                _, _, names = self.types.variant(enum, segs[-1])
                d = dict(fields)
                fields = [d[n] for n in names]
            return Adt(enum, segs[-1], fields)
        name = segs[-1]
        if name in self.types.structs:
            names, _ = self.types.structs[name]
            if kind == 'struct' and names:
                d = dict(fields)
                fields = [d[n] for n in names]
            elif kind == 'struct':
                fields = [v for _, v in fields]
            return Adt(name, None, fields)
        if kind == 'struct':
            return Adt(name, None, [v for _, v in fields])
        if kind == 'tuple':
            if len(segs) >= 2 and segs[-2][:1].isupper():
                return Adt(segs[-2], segs[-1], fields)          # variant of an enum outside the type database
            return Adt(name, None, fields)
        if kind == 'unit' and len(segs) >= 2 and segs[-2][:1].isupper() and segs[-1][:1].isupper():
            return Adt(segs[-2], segs[-1], ())
        return None

    def rvalue(self, frame, rv, dest_ty=None):
        k = rv[0]
        if k == 'use':
            return self.operand(frame, rv[1])
        if k == 'ref' or k == 'rawptr':
            local, projs = rv[2]
            # `&(*_5)` re-borrow: point at the referent
            if projs and projs[-1][0] == 'deref':
                inner = self.force(self.read_place(frame, (local, projs[:-1])))
                if isinstance(inner, (Ref, ValRef)):
                    return inner
                if isinstance(inner, (Str, VecV, Opaque)):
                    return inner
                if isinstance(inner, (BoxV, Ptr, MutBox)):
                    return ValRef(inner.inner if not isinstance(inner, Ptr) else inner.box.inner)
            if any(p[0] == 'deref' for p in projs):
                # reference into the referent of another reference: resolve the outer part to a place
                for i in range(len(projs) - 1, -1, -1):
                    if projs[i][0] == 'deref':
                        inner = self.force(self.read_place(frame, (local, projs[:i])))
                        if isinstance(inner, Ref):
                            return Ref(inner.frame, inner.local, inner.projs + tuple(projs[i + 1:]))
                        if isinstance(inner, ValRef):
                            return ValRef(self.project(inner.v, projs[i + 1:], frame))
                        if isinstance(inner, (BoxV, Ptr, MutBox)):
                            base = inner.box.inner if isinstance(inner, Ptr) else inner.inner
                            return ValRef(self.project(base, projs[i + 1:], frame))
                        if isinstance(inner, (Str, VecV)):
                            return ValRef(self.project(inner, projs[i + 1:], frame))
                        raise Unsupported('borrow through %r' % (inner,))
            projs2 = []
            for p in projs:
                if p[0] == 'index':
                    projs2.append(('vecindex', self.force(frame.env[p[1]]).v))
                elif p[0] == 'constindex':
                    projs2.append(('vecindex', p[1]))
                else:
                    projs2.append(p)
            return Ref(frame, local, projs2)
        if k == 'discr':
            return self.discriminant(self.force(self.read_place(frame, rv[1])))
        if k == 'bin':
            return self.binop(rv[1], self.force(self.operand(frame, rv[2])), self.force(self.operand(frame, rv[3])))
        if k == 'un':
            return self.unop(rv[1], self.force(self.operand(frame, rv[2])))
        if k == 'cast':
            return self.cast(frame, self.force(self.operand(frame, rv[1])), rv[2], rv[3])
        if k == 'agg':
            fields = [(f[0], self.operand(frame, f[1])) for f in rv[3]] if rv[2] == 'struct' else \
                [self.operand(frame, f) for f in rv[3]]
            v = self._adt_from_path(rv[1], rv[2], fields)
            if v is None:
                segs = strip_generics(norm_type(rv[1])).split('::')
                if not fields and len(segs) >= 2 and segs[-2] == 'Ordering' and segs[-1] in ('Relaxed', 'Release', 'Acquire', 'AcqRel', 'SeqCst'):
                    return Adt('AtomicOrdering', segs[-1], ())
                raise Unsupported('aggregate %s' % rv[1])
            return v
        if k == 'tuple':
            return Tuple([self.operand(frame, f) for f in rv[1]])
        if k == 'array':
            return Array([self.operand(frame, f) for f in rv[1]])
        if k == 'repeat':
            n = re.match(r'^(?:const )?(\d+)', rv[2])
            if not n:
                raise Unsupported('repeat length %s' % rv[2])
            return Array([self.operand(frame, rv[1])] * int(n.group(1)))
        if k == 'len':
            v = self.force(self.read_place(frame, rv[1]))
            return Int(len(v.items), 'usize')
        if k == 'closure':
            return Closure(rv[1], [self.operand(frame, f) for f in rv[2]])
        raise Unsupported('rvalue %r' % (rv,))

    def _unfold(self, v):
        """an opaque node whose kind was decided on this path, expanded one level by the check's callback (children opaque again)"""
        cb = self.flags.get('opaque_unfold')
        key = 'kind:' + v.name
        if cb is None or key not in self.choices:
            return None
        store = self.extra.setdefault('unfolded', {})
        if v.name not in store:
            store[v.name] = cb(self, v, self.choices[key])
        return store[v.name]

    def discriminant(self, v):
        if isinstance(v, Adt):
            if v.ty == 'Ordering':
                return Int(self.types.ordering_discr[v.variant], 'i8')
            if v.variant is None:
                return Int(0, 'isize')
            return Int(self.types.variant_index(v.ty, v.variant), 'isize')
        if isinstance(v, Opaque) and self.flags.get('opaque_kinds') and v.ty in self.types.enums:
            # code that looks at the KIND of a node the harness left opaque: one path per kind (remembered for this node on this path)
            key = 'kind:' + v.name
            if key not in self.choices:
                k = self.decide(len(self.types.enums[v.ty]), None, 'kind of the opaque node ' + v.name)
                self.choices[key] = k
            return Int(self.choices[key], 'isize')
        raise Unsupported('discriminant of %r' % (v,))

    def cast(self, frame, v, ty, kind):
        if kind == 'Transmute':
            if isinstance(v, (BoxV, MutBox)):
                return Ptr(v)
            return v
        if kind.startswith('PointerCoercion') or kind in ('PtrToPtr', 'FnPtrToPtr'):
            return v
        if kind == 'IntToInt':
            t = norm_type(ty)
            if isinstance(v, bool):
                return Int(int(v), t)
            if isinstance(v, Int) and t in INT_TYPES:
                if v.concrete:
                    return Int(v.v, t)
                w0, s0 = INT_TYPES[v.ty]
                w1, _ = INT_TYPES[t]
                if w1 == w0:
                    return Int(v.v, t)
                if w1 < w0:
                    return Int(z3.Extract(w1 - 1, 0, v.v), t)
                return Int(z3.SignExt(w1 - w0, v.v) if s0 else z3.ZeroExt(w1 - w0, v.v), t)
            if z3.is_bool(v) and t in INT_TYPES:
                w = INT_TYPES[t][0]
                return Int(z3.If(v, z3.BitVecVal(1, w), z3.BitVecVal(0, w)), t)
        raise Unsupported('cast %s of %r to %s' % (kind, v, ty))

    def binop(self, op, a, b):
        if isinstance(a, bool) or isinstance(b, bool) or z3.is_bool(a) or z3.is_bool(b):
            if op == 'Eq': return self._beq(a, b)
            if op == 'Ne': return self._bnot(self._beq(a, b))
            if op == 'BitAnd': return self._band(a, b)
            if op == 'BitOr': return self._bnot(self._band(self._bnot(a), self._bnot(b)))
            if op == 'BitXor': return self._bnot(self._beq(a, b))
            raise Unsupported('bool binop ' + op)
        if not (isinstance(a, Int) and isinstance(b, Int)):
            raise Unsupported('binop %s on %r, %r' % (op, a, b))
        w, signed = INT_TYPES[a.ty]
        if not a.concrete and not b.concrete and op in ('Eq', 'Ne', 'Le', 'Ge', 'Lt', 'Gt') and a.v.eq(b.v):
            return op in ('Eq', 'Le', 'Ge')            # the same term on both sides: no constraint on the path
        if a.concrete and b.concrete:
            x, y = a.v, b.v
            if op in ('Add', 'AddUnchecked'): return Int(x + y, a.ty)
            if op in ('Sub', 'SubUnchecked'): return Int(x - y, a.ty)
            if op in ('Mul', 'MulUnchecked'): return Int(x * y, a.ty)
            if op in ('AddWithOverflow', 'SubWithOverflow', 'MulWithOverflow'):
                r = x + y if op[0] == 'A' else x - y if op[0] == 'S' else x * y
                lo, hi = (-(1 << (w - 1)), (1 << (w - 1)) - 1) if signed else (0, (1 << w) - 1)
                return Tuple((Int(r, a.ty), not (lo <= r <= hi)))
            if op == 'Div':
                if y == 0: raise Panic('attempt to divide by zero')
                q = abs(x) // abs(y)
                return Int(q if (x < 0) == (y < 0) else -q, a.ty)
            if op == 'Rem':
                if y == 0: raise Panic('attempt to calculate the remainder with a divisor of zero')
                r = abs(x) % abs(y)
                return Int(-r if x < 0 else r, a.ty)
            if op == 'BitAnd': return Int(x & y, a.ty)
            if op == 'BitOr': return Int(x | y, a.ty)
            if op == 'BitXor': return Int(x ^ y, a.ty)
            if op in ('Shl', 'ShlUnchecked'): return Int(x << (y % w), a.ty)
            if op in ('Shr', 'ShrUnchecked'): return Int(x >> (y % w), a.ty)
            if op == 'Eq': return x == y
            if op == 'Ne': return x != y
            if op == 'Lt': return x < y
            if op == 'Le': return x <= y
            if op == 'Gt': return x > y
            if op == 'Ge': return x >= y
            if op == 'Cmp': return Adt('Ordering', 'Less' if x < y else 'Equal' if x == y else 'Greater')
            raise Unsupported('binop ' + op)
        x, y = a.z(), b.z()
        if op in ('Add', 'AddUnchecked'): return Int(x + y, a.ty)
        if op in ('Sub', 'SubUnchecked'): return Int(x - y, a.ty)
        if op in ('Mul', 'MulUnchecked'): return Int(x * y, a.ty)
        if op == 'AddWithOverflow':
            ovf = z3.Not(z3.And(z3.BVAddNoOverflow(x, y, signed), z3.BVAddNoUnderflow(x, y))) if signed else \
                z3.Not(z3.BVAddNoOverflow(x, y, False))
            return Tuple((Int(x + y, a.ty), ovf))
        if op == 'SubWithOverflow':
            ovf = z3.Not(z3.And(z3.BVSubNoOverflow(x, y), z3.BVSubNoUnderflow(x, y, signed)))
            return Tuple((Int(x - y, a.ty), ovf))
        if op == 'MulWithOverflow':
            ovf = z3.Not(z3.And(z3.BVMulNoOverflow(x, y, signed), z3.BVMulNoUnderflow(x, y))) if signed else \
                z3.Not(z3.BVMulNoOverflow(x, y, False))
            return Tuple((Int(x * y, a.ty), ovf))
        if op == 'BitAnd': return Int(x & y, a.ty)
        if op == 'BitOr': return Int(x | y, a.ty)
        if op == 'BitXor': return Int(x ^ y, a.ty)
        if op == 'Eq': return x == y
        if op == 'Ne': return x != y
        if op == 'Lt': return (x < y) if signed else z3.ULT(x, y)
        if op == 'Le': return (x <= y) if signed else z3.ULE(x, y)
        if op == 'Gt': return (x > y) if signed else z3.UGT(x, y)
        if op == 'Ge': return (x >= y) if signed else z3.UGE(x, y)
        if op in ('Div', 'Rem'):
            if self.branch(y == 0):
                raise Panic('attempt to divide by zero' if op == 'Div' else
                            'attempt to calculate the remainder with a divisor of zero')
            if op == 'Div': return Int((x / y) if signed else z3.UDiv(x, y), a.ty)
            return Int(z3.SRem(x, y) if signed else z3.URem(x, y), a.ty)
        raise Unsupported('symbolic binop ' + op)

    @staticmethod
    def _beq(a, b):
        if isinstance(a, bool) and isinstance(b, bool): return a == b
        return z3.simplify((z3.BoolVal(a) if isinstance(a, bool) else a) == (z3.BoolVal(b) if isinstance(b, bool) else b))

    @staticmethod
    def _bnot(a):
        return (not a) if isinstance(a, bool) else z3.simplify(z3.Not(a))

    @staticmethod
    def _band(a, b):
        if isinstance(a, bool): return b if a else False
        if isinstance(b, bool): return a if b else False
        return z3.And(a, b)

    def unop(self, op, a):
        if op == 'Not':
            if isinstance(a, bool) or z3.is_bool(a): return self._bnot(a)
            if isinstance(a, Int): return Int(~a.v, a.ty)
        if op == 'Neg' and isinstance(a, Int):
            return Int(-a.v, a.ty)
        if op == 'PtrMetadata':
            v = self.load(a)
            if isinstance(v, (VecV, Array)): return Int(len(v.items), 'usize')
            if isinstance(v, Str) and v.concrete: return Int(len(v.v.encode()), 'usize')
        raise Unsupported('unop %s on %r' % (op, a))

    # ---------------------------------------------------------------------------------------- calls
    def resolve(self, callee, caller):
        key = (callee, caller.name if '::' not in callee else None)
        if key in self._resolve_cache:
            return self._resolve_cache[key]
        r = self._resolve(callee, caller)
        self._resolve_cache[key] = r
        return r

    def _resolve(self, callee, caller):
        if callee in self.program:
            return self.func(callee)
        n = norm_type(callee)
        m = re.match(r'^<(.*) as ([A-Za-z_0-9<>, &\'\[\]()]+?)>::(\w+)(?:::<.*>)?$', n)
        if m:
            ty, method = m.group(1), m.group(3)
            want = re.sub(r"&(?:'\w+ )?(?:mut )?", '', ty).strip()
            out = []
            for name in self.impl_methods.get(method, []):
                f = self.func(name)
                if not f.params:
                    continue
                pt = re.sub(r"&(?:'\w+ )?(?:mut )?", '', norm_type(f.params[0][1])).strip()
                if pt == want:
                    out.append(f)
            # derived impls: `<T as Trait>::m` with the same first parameter type can exist for several traits
            # (PartialEq::eq vs. others); method names of derives are distinct, so one candidate is expected
            if len(out) == 1:
                return out[0]
            return None
        if '<' in n and not re.match(r'^(?:\w+::)*\w+$', strip_generics(n)):
            return None
        base = strip_generics(n)
        segs = base.split('::')
        last = segs[-1]
        cands = self.by_last.get(last, [])
        if len(segs) == 2 and segs[0][:1].isupper():
            # inherent method `Type::method` (printed as `mod::<impl at ..>::method` in the definition) or an enum
            # constructor shim `Node::Expression`
            if base in self.program:
                return self.func(base)
            out = []
            for name in self.impl_methods.get(last, []):
                f = self.func(name)
                if f.params and re.sub(r"&(?:mut )?", '', norm_type(f.params[0][1])).strip() == segs[0]:
                    out.append(f)
                elif not f.params and norm_type(f.ret).strip() == segs[0]:
                    out.append(f)                      # associated function without parameters returning Self (`Opts::new()`)
            return out[0] if len(out) == 1 else None
        exact = [c for c in cands if '<impl at ' not in c and (c == base or c.endswith('::' + base))]
        if len(exact) == 1:
            return self.func(exact[0])
        if len(exact) > 1:
            # same simple name in several modules: the caller's own module wins (self-recursion of analyze_dir)
            mod = caller.name.rsplit('::', 1)[0] if '::' in caller.name else ''
            own = [c for c in exact if c == mod + '::' + base]
            if len(own) == 1:
                return self.func(own[0])
            return None
        return None

    def call(self, frame, callee, args):
        """args: already evaluated operand values"""
        self.stats['calls'] += 1
        if re.match(r'^(?:move|copy) \(?\*?_\d+', callee):
            # call through a value: a function pointer / function item / closure held in a local
            from .mirparse import parse_operand
            target = self.force(self.operand(frame, parse_operand(callee)))
            while isinstance(target, (Ref, ValRef)):
                target = self.force(self.read_place(target.frame, (target.local, target.projs)) if isinstance(target, Ref) else target.v)
            if isinstance(target, FnItem):
                return self.call(frame, target.name, args)
            if isinstance(target, Closure):
                from .lib import call_closure
                return call_closure(self, frame, target, list(args))
            raise Unsupported('indirect call of %r' % (target,))
        stub = self.stubs.get(callee)
        ncallee = None
        if stub is None and self.stubs:
            ncallee = strip_generics(norm_type(callee))
            stub = self.stubs.get(ncallee)
        if stub is not None:
            return stub(self, args, frame, callee)
        if self.stub_patterns:
            n0 = norm_type(callee)
            for rx, handler in self.stub_patterns:
                m = rx.match(n0)
                if m:
                    return handler(self, args, frame, m)
        f = self.resolve(callee, frame.fn)
        if f is not None:
            return self.call_mir(f, args, frame.depth + 1)
        n = norm_type(callee)
        for rx, handler, name in self.contracts:
            m = rx.match(n)
            if m:
                self.contracts_used.add(name)
                return handler(self, args, frame, m)
        raise Unsupported('callee ' + n)

    def call_mir(self, fn, args, depth=0):
        if depth > self.max_depth:
            raise Unsupported('call depth > %d' % self.max_depth)
        self.functions_encoded.add(fn.name)
        fr = Frame(fn, depth)
        env = fr.env
        for (local, _), a in zip(fn.params, args):
            env[local] = a
        blocks = fn.blocks
        bb = 'bb0'
        stats = self.stats
        while True:
            stats['blocks'] += 1
            self.steps += 1
            if self.steps > self.max_steps:
                raise Unsupported('more than %d basic blocks on one path' % self.max_steps)
            for st in blocks[bb]:
                k = st[0]
                if k == 'assign':
                    self.write_place(fr, st[1], self.rvalue(fr, st[2]))
                elif k == 'call':
                    argv = [self.operand(fr, a) for a in st[3]]
                    res = self.call(fr, st[2], argv)
                    if st[4] is None:
                        raise Unsupported('diverging call %s returned' % st[2])
                    if st[1] is not None:
                        self.write_place(fr, st[1], res)
                    bb = st[4]
                    break
                elif k == 'switch':
                    v = self.force(self.operand(fr, st[1]))
                    bb = self._switch(v, st[2], st[3])
                    break
                elif k == 'goto':
                    bb = st[1]
                    break
                elif k == 'drop':
                    bb = st[2]
                    break
                elif k == 'return':
                    return env.get('_0', UNIT)
                elif k == 'assert':
                    cond = self.force(self.operand(fr, st[1]))
                    if st[2]:
                        cond = self._bnot(cond)
                    is_overflow = 'overflow' in st[3]
                    if is_overflow and not self.overflow_checks:
                        bb = st[4]
                        break
                    if not self.branch(cond):
                        raise Panic(st[3].strip('"'), '%s %s' % (fn.name, bb))
                    bb = st[4]
                    break
                elif k == 'nop':
                    pass
                elif k == 'unreachable':
                    raise Unsupported('reached `unreachable` in %s %s' % (fn.name, bb))
                elif k == 'setdiscr':
                    raise Unsupported('SetDiscriminant')
                elif k == 'resume':
                    raise Unsupported('resume reached')
                else:
                    raise Unsupported('statement %r in %s' % (st[1] if len(st) > 1 else st, fn.name))
            else:
                raise Unsupported('block %s of %s has no terminator' % (bb, fn.name))

    def _switch(self, v, arms, other):
        if isinstance(v, bool):
            v = Int(int(v), 'u8')
        if isinstance(v, Int) and v.concrete:
            for val, tgt in arms:
                if val == v.v or (v.v < 0 and val == v.v + (1 << INT_TYPES[v.ty][0])):
                    return tgt
            if other is None:
                raise Unsupported('switch without matching arm')
            return other
        if z3.is_bool(v):
            conds, tgts = [], []
            for val, tgt in arms:
                conds.append(v if val else z3.Not(v))
                tgts.append(tgt)
            if other is not None:
                seen = {bool(val) for val, _ in arms}
                if len(seen) < 2:
                    conds.append(z3.Not(v) if True in seen else v)
                    tgts.append(other)
            return tgts[self.decide(len(conds), conds, 'switch')]
        if isinstance(v, Int):
            w = INT_TYPES[v.ty][0]
            conds, tgts = [], []
            for val, tgt in arms:
                conds.append(v.v == z3.BitVecVal(val, w))
                tgts.append(tgt)
            if other is not None:
                conds.append(z3.And([v.v != z3.BitVecVal(val, w) for val, _ in arms]) if arms else z3.BoolVal(True))
                tgts.append(other)
            return tgts[self.decide(len(conds), conds, 'switch')]
        raise Unsupported('switchInt on %r' % (v,))
