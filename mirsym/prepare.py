"""Rebuild everything a check needs from /repo's CURRENT working tree.

  /repo (working tree) --copy--> /tmp/solstat-verif-build/{mir,run}   (fixed scratch paths, under a lock, deleted at once)
     mir/: lock-file bump of proc-macro2 (build-time only), `cargo +nightly rustc -- -Zunpretty=mir` for lib and bin
     run/: the native replay runner (/verif/replay) with a path dependency on the copy, stable toolchain, real lock file
  results -> /verif/.cache/<sha256 of every copied file + the runner sources>/{lib.mir,bin.mir,runner,opts_probe,solstat}

The content hash is the cache key, so an edit anywhere in /repo's sources, docs, lock file or manifest gives a new
build. Compiled *dependencies* are kept in /verif/.cache/target-* (they do not depend on /repo's sources); the solstat
crate itself is recompiled for every new hash.
"""
import fcntl
import hashlib
import json
import os
import re
import shutil
import subprocess
import sys
import time

VERIF = os.path.dirname(os.path.dirname(os.path.abspath(__file__)))
REPO = os.environ.get('VERIF_REPO', '/repo')
CACHE = os.path.join(VERIF, '.cache')
# one scratch area per framework instance (a `vp run` snapshot builds independently of /verif); the path is fixed per instance so that
# cargo's fingerprints stay valid between builds
SCRATCH = '/tmp/solstat-verif-build' + ('' if VERIF == '/verif' else '-' + hashlib.sha256(VERIF.encode()).hexdigest()[:8])
PREP_VERSION = '5'
COPY = ['src', 'Cargo.toml', 'Cargo.lock', 'docs', 'README.md', 'Solstat.toml']
ENV = dict(os.environ, CARGO_NET_OFFLINE='true', CARGO_TERM_COLOR='never')


def _files(root, rels):
    out = []
    for rel in rels:
        p = os.path.join(root, rel)
        if os.path.isdir(p):
            for d, _, fs in os.walk(p):
                for f in fs:
                    out.append(os.path.join(d, f))
        elif os.path.exists(p):
            out.append(p)
    return sorted(out)


# runner jobs that call a helper function of the crate directly: (cfg that compiles the job out, pattern in the compiler's message)
OPTIONAL_JOBS = [('no_line_job', r'get_line_number'), ('no_slots_job', r'storage_slots_used'), ('no_typesize_job', r'get_type_size'),
                 ('no_version_job', r'get_solidity_major_minor_patch_version'), ('no_fileversion_job', r'get_solidity_version_from_source_unit')]


def source_hash():
    h = hashlib.sha256(PREP_VERSION.encode())
    for f in _files(REPO, COPY):
        h.update(os.path.relpath(f, REPO).encode() + b'\0')
        h.update(open(f, 'rb').read() + b'\0')
    for f in _files(os.path.join(VERIF, 'replay'), ['Cargo.toml.in', 'src']):
        h.update(open(f, 'rb').read() + b'\0')
    return h.hexdigest()[:24]


def _copy_repo(dst):
    if os.path.exists(dst):
        shutil.rmtree(dst)
    os.makedirs(dst)
    for rel in COPY:
        s = os.path.join(REPO, rel)
        if os.path.isdir(s):
            shutil.copytree(s, os.path.join(dst, rel))
        elif os.path.exists(s):
            shutil.copy2(s, os.path.join(dst, rel))
    # cargo decides freshness by mtime: make every build see "changed" sources
    now = time.time()
    for f in _files(dst, ['src']):
        os.utime(f, (now, now))


def _run(cmd, cwd, env, log):
    p = subprocess.run(cmd, cwd=cwd, env=env, stdout=subprocess.PIPE, stderr=subprocess.PIPE, text=True)
    log.append('$ %s\n%s' % (' '.join(cmd), p.stderr[-4000:]))
    return p


def _gen_targets(ast_src):
    m = re.search(r'pub enum Target \{(.*?)\n\}', ast_src, re.S)
    body = re.sub(r'//[^\n]*', '', m.group(1))
    names = [x.strip() for x in body.split(',') if x.strip()]
    out = ['fn target_from_name(s: &str) -> Option<Target> {', '    Some(match s {']
    out += ['        "%s" => Target::%s,' % (n, n) for n in names]
    out += ['        _ => return None,', '    })', '}', 'fn target_name(t: Target) -> &\'static str {', '    match t {']
    out += ['        Target::%s => "%s",' % (n, n) for n in names]
    out += ['    }', '}']
    return '\n'.join(out) + '\n'


class BuildError(Exception):
    pass


def prepare(verbose=False):
    """-> directory with lib.mir, bin.mir, runner, opts_probe, solstat for the current /repo working tree"""
    os.makedirs(CACHE, exist_ok=True)
    key = source_hash()
    out = os.path.join(CACHE, 'b-' + key)
    if os.path.exists(os.path.join(out, 'ok')):
        os.utime(os.path.join(out, 'ok'))
        return out
    with open(os.path.join(CACHE, 'lock'), 'w') as lk:
        fcntl.flock(lk, fcntl.LOCK_EX)
        if os.path.exists(os.path.join(out, 'ok')):
            return out
        t0 = time.time()
        log = []
        try:
            if os.path.exists(out):
                shutil.rmtree(out)
            os.makedirs(out)
            mir, run = os.path.join(SCRATCH, 'mir'), os.path.join(SCRATCH, 'run')
            _copy_repo(mir)
            _copy_repo(run)
            # ---- native runner (stable toolchain, the repository's own lock file)
            rdir = os.path.join(run, 'verif_runner')
            shutil.copytree(os.path.join(VERIF, 'replay', 'src'), os.path.join(rdir, 'src'))
            shutil.copy(os.path.join(VERIF, 'replay', 'Cargo.toml.in'), os.path.join(rdir, 'Cargo.toml'))
            shutil.copy(os.path.join(run, 'Cargo.lock'), os.path.join(rdir, 'Cargo.lock'))
            open(os.path.join(rdir, 'src', 'targets_gen.rs'), 'w').write(
                _gen_targets(open(os.path.join(run, 'src', 'analyzer', 'ast.rs')).read()))
            env_run = dict(ENV, CARGO_TARGET_DIR=os.path.join(CACHE, 'target-run'))
            procs = []
            procs.append(('runner', subprocess.Popen(['cargo', 'build', '--offline', '--bins'], cwd=rdir, env=env_run,
                                                     stdout=subprocess.PIPE, stderr=subprocess.PIPE, text=True)))
            # ---- MIR (nightly; proc-macro2 bump in the scratch lock file only)
            env_mir = dict(ENV, CARGO_TARGET_DIR=os.path.join(CACHE, 'target-mir'))
            p = _run(['cargo', 'update', '-p', 'proc-macro2', '--precise', '1.0.107', '--offline'], mir, env_mir, log)
            if p.returncode != 0:
                raise BuildError('lock bump failed:\n' + p.stderr)
            flags = ['--', '-Zunpretty=mir', '-C', 'debug-assertions=off', '-C', 'overflow-checks=on']
            p = _run(['cargo', '+nightly', 'rustc', '--offline', '--lib'] + flags, mir, env_mir, log)
            if p.returncode != 0 or 'fn ' not in p.stdout:
                raise BuildError('MIR dump (lib) failed:\n' + p.stderr[-3000:])
            open(os.path.join(out, 'lib.mir'), 'w').write(p.stdout)
            p = _run(['cargo', '+nightly', 'rustc', '--offline', '--bin', 'solstat'] + flags, mir, env_mir, log)
            if p.returncode != 0 or 'fn ' not in p.stdout:
                raise BuildError('MIR dump (bin) failed:\n' + p.stderr[-3000:])
            open(os.path.join(out, 'bin.mir'), 'w').write(p.stdout)
            for name, pr in procs:
                so, se = pr.communicate()
                log.append('$ cargo build (%s)\n%s' % (name, se[-4000:]))
                if pr.returncode != 0:
                    # a helper function of the crate whose signature changed only breaks the runner job that calls it directly: compile
                    # that job out (it answers UNAVAILABLE, the checks turn that into UNDECIDED) instead of giving up on the whole tree
                    cfgs = [cfg for cfg, sym in OPTIONAL_JOBS if re.search(sym, se)]
                    if not cfgs:
                        raise BuildError('%s build failed:\n%s' % (name, se[-3000:]))
                    env2 = dict(env_run, RUSTFLAGS=' '.join('--cfg %s' % c for c in cfgs))
                    p2 = _run(['cargo', 'build', '--offline', '--bins'], rdir, env2, log)
                    if p2.returncode != 0:
                        raise BuildError('%s build failed (also without the jobs %r):\n%s' % (name, cfgs, p2.stderr[-3000:]))
                    open(os.path.join(out, 'unavailable_jobs.json'), 'w').write(json.dumps(cfgs))
            p = _run(['cargo', 'build', '--offline', '--bin', 'solstat'], run, env_run, log)
            if p.returncode != 0:
                raise BuildError('solstat binary build failed:\n' + p.stderr[-3000:])
            for b in ('solstat-verif-runner', 'opts_probe', 'solstat'):
                shutil.copy2(os.path.join(CACHE, 'target-run', 'debug', b),
                             os.path.join(out, 'runner' if b == 'solstat-verif-runner' else b))
            # sources the checks read at run time (docs tables, type definitions) are read from /repo directly
            open(os.path.join(out, 'build.log'), 'w').write('\n'.join(log))
            open(os.path.join(out, 'ok'), 'w').write('%.1f' % (time.time() - t0))
        except Exception:
            open(os.path.join(CACHE, 'last_failed_build.log'), 'w').write('\n'.join(log))
            shutil.rmtree(out, ignore_errors=True)
            raise
        finally:
            shutil.rmtree(SCRATCH, ignore_errors=True)
        # evict all but the newest builds (4; more when several checks of different trees run side by side: VERIF_KEEP_BUILDS)
        keep = max(2, int(os.environ.get('VERIF_KEEP_BUILDS', '4')))
        builds = sorted((d for d in os.listdir(CACHE) if d.startswith('b-')),
                        key=lambda d: os.path.getmtime(os.path.join(CACHE, d, 'ok'))
                        if os.path.exists(os.path.join(CACHE, d, 'ok')) else 0)
        for d in builds[:-keep]:
            shutil.rmtree(os.path.join(CACHE, d), ignore_errors=True)
        if verbose:
            print('prepared %s in %.1fs' % (out, time.time() - t0), file=sys.stderr)
    return out


def build_wrap_runner(build_dir):
    """native runner compiled WITHOUT arithmetic overflow checks (what `cargo build --release` users run), built on demand
    for the same source state as build_dir"""
    out = os.path.join(build_dir, 'runner_wrap')
    if os.path.exists(out):
        return out
    with open(os.path.join(CACHE, 'lock'), 'w') as lk:
        fcntl.flock(lk, fcntl.LOCK_EX)
        if os.path.exists(out):
            return out
        if os.path.basename(build_dir) != 'b-' + source_hash():
            raise BuildError('source tree changed while a check was running')
        run = os.path.join(SCRATCH, 'run')
        try:
            _copy_repo(run)
            rdir = os.path.join(run, 'verif_runner')
            shutil.copytree(os.path.join(VERIF, 'replay', 'src'), os.path.join(rdir, 'src'))
            shutil.copy(os.path.join(VERIF, 'replay', 'Cargo.toml.in'), os.path.join(rdir, 'Cargo.toml'))
            shutil.copy(os.path.join(run, 'Cargo.lock'), os.path.join(rdir, 'Cargo.lock'))
            open(os.path.join(rdir, 'src', 'targets_gen.rs'), 'w').write(
                _gen_targets(open(os.path.join(run, 'src', 'analyzer', 'ast.rs')).read()))
            env_run = dict(ENV, CARGO_TARGET_DIR=os.path.join(CACHE, 'target-run'))
            p = subprocess.run(['cargo', 'build', '--offline', '--profile', 'wrap', '--bin', 'solstat-verif-runner'], cwd=rdir,
                               env=env_run, stdout=subprocess.PIPE, stderr=subprocess.PIPE, text=True)
            if p.returncode != 0:
                raise BuildError('wrap runner build failed:\n' + p.stderr[-3000:])
            shutil.copy2(os.path.join(CACHE, 'target-run', 'wrap', 'solstat-verif-runner'), out)
        finally:
            shutil.rmtree(SCRATCH, ignore_errors=True)
    return out


def kani_slots(build_dir, timeout=900):
    """E2: runs the Kani harnesses of /verif/kani against the same source state; result cached next to the MIR.
    -> dict(status='ok'|'inconclusive', main='SUCCESSFUL'|'FAILED'|..., twin=..., cover=..., seconds=...)"""
    import json
    out = os.path.join(build_dir, 'kani_slots.json')
    if os.path.exists(out):
        return json.load(open(out))
    with open(os.path.join(CACHE, 'lock'), 'w') as lk:
        fcntl.flock(lk, fcntl.LOCK_EX)
        if os.path.exists(out):
            return json.load(open(out))
        res = {'status': 'inconclusive', 'why': ''}
        t0 = time.time()
        if os.path.basename(build_dir) != 'b-' + source_hash():
            res['why'] = 'source tree changed while a check was running'
            return res
        root = os.path.join(SCRATCH, 'kani')
        try:
            _copy_repo(root)
            kh = os.path.join(root, 'kh')
            shutil.copytree(os.path.join(VERIF, 'kani', 'src'), os.path.join(kh, 'src'))
            shutil.copy(os.path.join(VERIF, 'kani', 'Cargo.toml.in'), os.path.join(kh, 'Cargo.toml'))
            shutil.copy(os.path.join(root, 'Cargo.lock'), os.path.join(kh, 'Cargo.lock'))
            os.makedirs(os.path.join(kh, '.cargo'))
            open(os.path.join(kh, '.cargo', 'config.toml'), 'w').write('[net]\noffline = true\n')
            env = dict(ENV, CARGO_TARGET_DIR=os.path.join(CACHE, 'target-kani'))
            p = subprocess.run(['cargo', 'update', '-p', 'proc-macro2', '--precise', '1.0.107', '--offline'], cwd=kh, env=env,
                               stdout=subprocess.PIPE, stderr=subprocess.PIPE, text=True)
            try:
                p = subprocess.run(['cargo', 'kani', '--output-format', 'terse'], cwd=kh, env=env, stdout=subprocess.PIPE,
                                   stderr=subprocess.STDOUT, text=True, timeout=timeout)
            except subprocess.TimeoutExpired:
                res['why'] = 'Kani timed out after %ds' % timeout
                return res
            txt = p.stdout
            cur = None
            verdicts = {}
            for line in txt.split('\n'):
                m = re.match(r'^Checking harness (\S+)\.\.\.', line)
                if m:
                    cur = m.group(1)
                m = re.match(r'^VERIFICATION:- (\w+)', line)
                if m and cur:
                    verdicts[cur] = m.group(1)
                if 'cover properties satisfied' in line and cur:
                    verdicts[cur + ':cover'] = line.strip(' *')
            res.update({'main': verdicts.get('proofs::slots_match_layout_rule'), 'twin': verdicts.get('proofs::vacuity_twin_must_fail'),
                        'cover': verdicts.get('proofs::slots_match_layout_rule:cover'), 'seconds': round(time.time() - t0, 1),
                        'kani': 'cargo kani 0.68 / CBMC, unwind 7, vector length <= 5, sizes 8k (k in 1..32)'})
            if res['main'] in ('SUCCESSFUL', 'FAILED') and res['twin'] in ('SUCCESSFUL', 'FAILED') and 'Status: ERROR' not in txt:
                res['status'] = 'ok'
            else:
                res['why'] = 'no verdict: ' + txt[-600:]
            json.dump(res, open(out, 'w'))
        except Exception as ex:
            res['why'] = 'Kani run failed: %r' % (ex,)
        finally:
            shutil.rmtree(SCRATCH, ignore_errors=True)
        return res


def solang_pt_path():
    """pt.rs of the solang-parser version named in /repo/Cargo.lock"""
    lock = open(os.path.join(REPO, 'Cargo.lock')).read()
    m = re.search(r'name = "solang-parser"\nversion = "([^"]+)"', lock)
    ver = m.group(1)
    base = os.path.expanduser('~/.cargo/registry/src')
    for d in os.listdir(base):
        p = os.path.join(base, d, 'solang-parser-' + ver, 'src', 'pt.rs')
        if os.path.exists(p):
            return p
    raise BuildError('solang-parser %s sources not found' % ver)


if __name__ == '__main__':
    print(prepare(verbose=True))
