"""Shared machinery of the report checks (C11, C12, C13): symbolic findings maps, the structural oracle of a report and
native validation through the real report generators."""
import itertools
import re

import z3

from .engine import Adt, Int, MapV, SetV, Str, Tuple, VecV, Unsupported
from .lib import CatStr, RankStr, concat
from .native import hexs, unhex

# documented pattern name and report-section module per enum variant (written from the documentation, independent of the code)
OPT = [('AddressBalance', 'address_balance'), ('AddressZero', 'address_zero'), ('AssignUpdateArrayValue', 'assign_update_array_value'),
       ('CacheArrayLength', 'cache_array_length'), ('ConstantVariables', 'constant_variables'), ('BoolEqualsBool', 'bool_equals_bool'),
       ('ImmutableVarialbes', 'immutable_variables'), ('IncrementDecrement', 'increment_decrement'), ('MemoryToCalldata', 'memory_to_calldata'),
       ('MultipleRequire', 'multiple_require'), ('PackStorageVariables', 'pack_storage_variables'), ('PackStructVariables', 'pack_struct_variables'),
       ('PayableFunction', 'payable_function'), ('PrivateConstant', 'private_constant'), ('SafeMathPre080', 'safe_math_pre_080'),
       ('SafeMathPost080', 'safe_math_post_080'), ('ShiftMath', 'shift_math'), ('SolidityKeccak256', 'solidity_keccak256'),
       ('SolidityMath', 'solidity_math'), ('Sstore', 'sstore'), ('StringErrors', 'string_errors'), ('OptimalComparison', 'optimal_comparison'),
       ('ShortRevertString', 'short_revert_string')]
VUL = [('FloatingPragma', 'floating_pragma'), ('UnsafeERC20Operation', 'unsafe_erc20_operation'),
       ('UnprotectedSelfdestruct', 'unprotected_selfdestruct'), ('DivideBeforeMultiply', 'divide_before_multiply')]
QA = [('ConstructorOrder', 'constructor_order'), ('PrivateVarsLeadingUnderscore', 'private_vars_leading_underscore'),
      ('PrivateFuncLeadingUnderscore', 'private_func_leading_underscore')]
SECTION_MODULE = {'constant_variables': 'constant_variable', 'immutable_variables': 'immutable_variable'}
SEVERITY = {'UnprotectedSelfdestruct': 'High', 'DivideBeforeMultiply': 'Medium', 'UnsafeERC20Operation': 'Low', 'FloatingPragma': 'Low'}
CATS = {
    'opt': dict(enum='Optimization', table=OPT, gen='generate_optimization_report', dir='optimizations'),
    'vul': dict(enum='Vulnerability', table=VUL, gen='generate_vulnerability_report', dir='vulnerabilities'),
    'qa': dict(enum='QualityAssurance', table=QA, gen='generate_qa_report', dir='qa'),
}
NAME_ALPHABET = z3.Range(' ', '~')


class Findings:
    """a findings map with symbolic file names and line numbers: [(variant, [(name Str, [line Int...])...])...]"""

    def __init__(self, cat, shape, tag='f'):
        """shape: [(variant, [number of lines per file, ...]), ...] in insertion order"""
        self.cat, self.shape = cat, shape
        self.base = []
        self.items = []
        self.syms = []
        for pi, (variant, files) in enumerate(shape):
            entries = []
            for fi, nlines in enumerate(files):
                rk = z3.Int('%s_rank_%d_%d' % (tag, pi, fi))
                self.base += [rk >= 0, rk <= 9999]
                nm = RankStr(rk, '%s_%d_%d' % (tag, pi, fi))
                lines = []
                for li in range(nlines):
                    lv = z3.BitVec('%s_line_%d_%d_%d' % (tag, pi, fi, li), 32)
                    self.base.append(lv >= -100000)          # `any line sets`: zero and negative numbers are line numbers of the map too
                    self.base.append(lv <= 100000)
                    if lines:
                        self.base.append(lines[-1] < lv)
                    lines.append(lv)
                entries.append((nm, lines))
            self.items.append((variant, entries))
        names = [nm for _, es in self.items for nm, _ in es]
        for a, b in itertools.combinations(names, 2):
            self.base.append((a.rank == b.rank) == (a.sym == b.sym))

    def value(self):
        enum = CATS[self.cat]['enum']
        pairs = []
        for variant, entries in self.items:
            vec = VecV([Tuple((nm, SetV([Int(l, 'i32') for l in lines], 'btree'))) for nm, lines in entries])
            pairs.append((Adt(enum, variant), vec))
        return MapV(pairs)

    def concretize(self, model):
        out = []
        for variant, entries in self.items:
            es = []
            for nm, lines in entries:
                s = nm.render(model)
                es.append((s, [model.eval(l, model_completion=True).as_signed_long() for l in lines]))
            out.append((variant, es))
        return out

    def spec(self, model):
        """findings spec of the native runner: pattern|hexname|l1,l2;..."""
        name_of = dict(CATS[self.cat]['table'])
        parts = []
        for variant, entries in self.concretize(model):
            if not entries:
                parts.append(name_of[variant])             # a pattern without file entries: an item without `|`
            for nm, lines in entries:
                parts.append('%s|%s|%s' % (name_of[variant], hexs(nm), ','.join(map(str, lines))))
        return ';'.join(parts)


def section_text(engine, cat, variant):
    """text of the explanatory section that BELONGS to the pattern: the module named after the pattern"""
    name = dict(CATS[cat]['table'])[variant]
    mod = SECTION_MODULE.get(name, name)
    want = '%s::report_section_content' % mod
    cands = [n for n in engine.program if n == want or n.endswith('::' + want)]
    cands = [n for n in cands if ('::%s::' % CATS[cat]['dir']) in n or len(cands) == 1] or cands
    if len(cands) != 1:
        raise Unsupported('report section module %s: %d candidates' % (mod, len(cands)))
    r = engine.explore(lambda en: en.call_mir(en.func(cands[0]), []))
    if len(r) != 1 or r[0].outcome != 'return' or not r[0].value.concrete:
        raise Unsupported('report section %s is not a constant text' % mod)
    return r[0].value.v


def overview_parts(engine, cat):
    """(prefix, suffix) of the overview around the decimal total, obtained by executing the overview function on a
    symbolic total; for QA the overview has no total: (text, None)"""
    d = CATS[cat]['dir']
    cands = [n for n in engine.program if n.endswith('%s::overview::report_section_content' % d)]
    if len(cands) != 1:
        raise Unsupported('overview of %s' % cat)
    f = engine.func(cands[0])
    if not f.params:
        r = engine.explore(lambda en: en.call_mir(f, []))
        return r[0].value.v, None
    t = z3.BitVec('total', 64)
    r = engine.explore(lambda en: en.call_mir(f, [Int(t, 'usize')]))
    if len(r) != 1 or r[0].outcome != 'return':
        raise Unsupported('overview function forks or fails')
    v = r[0].value
    parts = v.parts if isinstance(v, CatStr) else [v.v]
    from .lib import int_string
    want = int_string(Int(t, 'usize')).z()
    if len(parts) != 3 or not isinstance(parts[0], str) or not isinstance(parts[2], str) or \
            not parts[1].z().eq(want):
        raise Unsupported('overview is not <text><total><text>: %r' % (parts,))
    return parts[0], parts[2]


def entry(name, line):
    return ['- ', name, ':', line, '\n']


def block(section, entries):
    """entries: list of (name piece, [line pieces])"""
    out = [section, '\n', '### Lines\n']
    for nm, lines in entries:
        for l in lines:
            out += entry(nm, l)
    out.append('\n\n')
    return out


def key_of(pieces):
    return CatStr([p if isinstance(p, (str, Str)) else p for p in pieces]).key()


def sym_line(l):
    from .lib import int_string
    return int_string(Int(l, 'i32'))


def run_report(engine, cat, findings, symbolic_order=False):
    f = engine.func(CATS[cat]['gen'])
    engine.flags['symbolic_order'] = symbolic_order
    try:
        return engine.explore(lambda en: en.call_mir(f, [findings.value()]), base_constraints=findings.base, max_paths=20000)
    finally:
        engine.flags['symbolic_order'] = False


def piece_key(v):
    if isinstance(v, CatStr):
        return v.key()
    if isinstance(v, Str) and v.concrete:
        return (v.v,) if v.v else ()
    return (('sym', v.z().get_id()),)


def decimal(n):
    return str(n)


# ------------------------------------------------------------------------------------------------ structural acceptance
def flat(v):
    """python string in which every symbolic piece is a unique placeholder: equality / prefix tests are exact for all values"""
    if isinstance(v, CatStr):
        parts = v.parts
    elif isinstance(v, Str):
        parts = [v.v] if v.concrete else [v]
    else:
        parts = v
    out = []
    for p in parts:
        if isinstance(p, str):
            out.append(p)
        elif isinstance(p, Str) and p.concrete and type(p) is Str:
            out.append(p.v)
        else:
            out.append('\x00%d\x00' % p.z().get_id())
    return ''.join(out)


def block_alternatives(section, entries):
    """all renderings of one pattern's block over the orders of its file entries"""
    alts = set()
    for perm in itertools.permutations(entries):
        alts.add(flat(block(section, [(nm, [sym_line(l) for l in lines]) for nm, lines in perm])))
    return alts


def accept_report(result, cat, findings, sections, overview, headings=None):
    """does `result` list exactly the findings, each under its own pattern's section, with a correct total, for SOME
    order of patterns / entries?  -> (ok, explanation)"""
    text = flat(result)
    total = sum(len(lines) for _, entries in findings.items for _, lines in entries)
    pre, suf = overview
    head = pre + (str(total) + suf if suf is not None else '\n')     # the QA overview has no total; it is followed by a line feed
    if not text.startswith(head) and suf is not None and text.startswith(pre + format(total, ',') + suf):
        head = pre + format(total, ',') + suf         # the same number written with thousands separators is the same total
    if not text.startswith(head):
        m = re.match(re.escape(pre) + r'(\d[\d,]*)', text) if suf is not None else None
        if m:
            return False, 'overview prints total %s, the report lists %d entries' % (m.group(1), total)
        return False, 'report does not start with the overview'
    pos = len(head)
    remaining = {}
    for variant, entries in findings.items:
        if variant in remaining:
            return False, 'harness: duplicate pattern'
        if sum(len(l) for _, l in entries) == 0:
            continue
        remaining[variant] = block_alternatives(sections[variant], entries)
    if headings is None:
        groups = [(None, set(remaining))]
    else:
        groups = [(h, {v for v in remaining if SEVERITY[v] == sev}) for sev, h in headings.items()]
        groups = [g for g in groups if g[1]]
    # groups may come in any order; inside a group the patterns may come in any order
    pending = list(groups)
    while pending:
        hit = None
        for g in pending:
            if g[0] is None or text.startswith(g[0], pos):
                hit = g
                break
        if hit is None:
            return False, 'expected a severity heading at offset %d, found %r' % (pos, text[pos:pos + 40])
        pending.remove(hit)
        if hit[0] is not None:
            pos += len(hit[0])
        left = set(hit[1])
        while left:
            found = None
            for v in left:
                for alt in remaining[v]:
                    if text.startswith(alt, pos):
                        found = (v, alt)
                        break
                if found:
                    break
            if found is None:
                return False, 'at offset %d none of the sections of %s (with its own entries) follows: %r' % (
                    pos, sorted(left), text[pos:pos + 60].replace('\x00', '~'))
            left.remove(found[0])
            pos += len(found[1])
    if pos != len(text):
        return False, 'unexpected extra text after the last section: %r' % text[pos:pos + 80].replace('\x00', '~')
    return True, ''
