"""Generic machinery over the parse-tree TYPE DEFINITIONS (read from pt.rs at run time): generation of one-level symbolic
nodes with opaque children, the structural oracle "children of a node in declaration order", instantiation of opaque
children by concrete snippets and a reference traversal of concrete trees."""
import re

from .engine import Adt, BoxV, Choice, Int, Opaque, Str, Tuple, VecV
from .mirparse import split_top
from . import sol

NODE_TYPES = ('Expression', 'Statement', 'ContractPart', 'SourceUnitPart', 'SourceUnit')
NODE_WRAPPER = {'Expression': 'Expression', 'Statement': 'Statement', 'ContractPart': 'ContractPart',
                'SourceUnitPart': 'SourceUnitPart', 'SourceUnit': 'SourceUnit'}


class Gen:
    def __init__(self, types, L=2, tag='g'):
        self.types = types
        self.L = L
        self.b = sol.TreeBuilder(tag=tag)
        self.n = 0
        self.Lnested = L

    def name(self, p):
        self.n += 1
        return '%s%d' % (p, self.n)

    def gen(self, ty, depth=1, top=None):
        """value of type `ty`; node types below the top level are opaque; every Option / Vec / non-node enum is a Choice"""
        ty = ty.strip()
        ty = self.types.aliases.get(ty, ty)
        m = re.match(r'^Box<(.*)>$', ty)
        if m:
            return BoxV(self.gen(m.group(1), depth))
        m = re.match(r'^Option<(.*)>$', ty)
        if m:
            return Choice(self.name('opt'), [sol.NONE, sol.some(self.gen(m.group(1), depth))])
        m = re.match(r'^Vec<(.*)>$', ty)
        if m:
            alts = []
            for n in range(0, (self.L if depth <= 1 else min(self.L, self.Lnested)) + 1):
                alts.append(VecV([self.gen(m.group(1), depth) for _ in range(n)]))
            return Choice(self.name('len'), alts)
        m = re.match(r'^\((.*)\)$', ty)
        if m:
            return Tuple([self.gen(t, depth) for t in split_top(m.group(1))])
        if ty == 'Loc':
            return self.b.loc()
        if ty == 'bool':
            return Choice(self.name('flag'), [False, True])
        if ty == 'String':
            return Str(self.name('s'))
        if ty in ('u8', 'u16', 'usize'):
            return Int(8, ty)
        if ty in NODE_TYPES and depth > 0:
            return Opaque(ty, self.name('c'))
        if ty == 'YulBlock':
            return Opaque('YulBlock', self.name('yul'))
        if ty == 'IdentifierPath':
            # the parser never produces an empty path
            return Adt(ty, None, [self.b.loc(), VecV([self.b.ident(self.name('id'))])])
        if ty in self.types.structs:
            names, tys = self.types.structs[ty]
            return Adt(ty, None, [self.gen(t, depth + 1) for t in tys])
        if ty in self.types.enums:
            alts = []
            for vname, ftys, fnames in self.types.enums[ty]:
                alts.append(Adt(ty, vname, [self.gen(t, depth + 1) for t in ftys]))
            return alts[0] if len(alts) == 1 else Choice(self.name('var'), alts)
        raise NotImplementedError('gen ' + ty)

    def variant(self, ty, vname):
        """node `ty::vname` with freshly generated fields (children opaque)"""
        _, ftys, _ = self.types.variant(ty, vname)
        return Adt(ty, vname, [self.gen(t, 1) for t in ftys])


def children(v, choices=None, pick=None, out=None):
    """opaque / node-typed children reachable through the fields of v in declaration order (nothing under inline assembly).
    Unresolved Choices are resolved by pick(choice) (default: first alternative)."""
    if out is None:
        out = []
    if isinstance(v, Choice):
        k = None if choices is None else choices.get(v.sel)
        if k is None:
            k = pick(v) if pick else 0
        return children(v.alts[k], choices, pick, out)
    if isinstance(v, Opaque):
        if v.ty in NODE_TYPES:
            out.append(v)
        return out
    if isinstance(v, BoxV):
        return children(v.inner, choices, pick, out)
    if isinstance(v, Adt):
        if v.ty == 'Statement' and v.variant == 'Assembly':
            return out
        if v.ty in ('Expression', 'Statement', 'ContractPart', 'SourceUnitPart') and out is not None and getattr(out, 'stop_at_nodes', False):
            out.append(v)
            return out
        for f in v.fields:
            children(f, choices, pick, out)
        return out
    if isinstance(v, (VecV,)):
        for f in v.items:
            children(f, choices, pick, out)
        return out
    if isinstance(v, Tuple):
        for f in v.fields:
            children(f, choices, pick, out)
        return out
    return out


def unresolved(v, choices, acc=None):
    """Choices reachable under the resolved structure that the path did not resolve"""
    if acc is None:
        acc = []
    if isinstance(v, Choice):
        k = choices.get(v.sel)
        if k is None:
            acc.append(v)
            return acc
        return unresolved(v.alts[k], choices, acc)
    if isinstance(v, BoxV):
        return unresolved(v.inner, choices, acc)
    if isinstance(v, Adt):
        if v.ty == 'Statement' and v.variant == 'Assembly':
            return acc
        for f in v.fields:
            unresolved(f, choices, acc)
    elif isinstance(v, VecV):
        for f in v.items:
            unresolved(f, choices, acc)
    elif isinstance(v, Tuple):
        for f in v.fields:
            unresolved(f, choices, acc)
    return acc


class NodeList(list):
    stop_at_nodes = True


def direct_subnodes(v):
    """for a CONCRETE node value: the nearest node-typed descendants (Expression/Statement/parts) in declaration order"""
    out = NodeList()
    if isinstance(v, Adt) and v.ty == 'Statement' and v.variant == 'Assembly':
        return out
    fields = v.fields if isinstance(v, (Adt, Tuple)) else v.items
    for f in fields:
        children(f, None, None, out)
    return out


def ref_walk(v, want, acc=None):
    """reference traversal of a concrete tree: pre-order, children in declaration order; `want(kind)` selects kinds.
    -> list of (kind, node)"""
    if acc is None:
        acc = []
    if isinstance(v, Adt) and v.ty == 'SourceUnit':
        if want('SourceUnit'):
            acc.append(('SourceUnit', v))
        for p in v.fields[0].items:
            ref_walk(p, want, acc)
        return acc
    if want(v.variant):
        acc.append((v.variant, v))
    for c in direct_subnodes(v):
        ref_walk(c, want, acc)
    return acc


def node_loc(v):
    """Loc of a concrete node as the parser defines it (pt::*::loc())"""
    if v.ty == 'Expression':
        if v.variant == 'Variable':
            return v.fields[0].fields[0]
        if v.variant in ('StringLiteral', 'HexLiteral'):
            return v.fields[0].items[0].fields[0]
        return v.fields[0]
    if v.ty == 'Statement':
        return v.fields[0]
    if v.ty in ('ContractPart', 'SourceUnitPart'):
        f = v.fields[0]
        if isinstance(f, BoxV):
            return f.inner.fields[0]
        if f.ty == 'Loc':
            return f
        if f.ty == 'Import':
            return f.fields[-1]
        return f.fields[0]
    return None
