"""Shared machinery of the directory checks (C03, C15, C16): symbolic directory trees for the fs contracts, the per-file
analysis replaced by an uninterpreted function F(file, pattern), and native replay on real directories."""
import itertools
import os
import shutil
import tempfile

import z3

from .engine import Adt, Choice, Int, MapV, SetV, Str, Tuple, VecV, Unsupported
from .lib import World
from .native import unhex

CATS = {
    'opt': dict(mod='analyzer::optimizations', enum='Optimization', per_file='analyze_for_optimization',
                patterns=[('SolidityMath', 'solidity_math'), ('OptimalComparison', 'optimal_comparison'), ('Sstore', 'sstore')]),
    'vul': dict(mod='analyzer::vulnerabilities', enum='Vulnerability', per_file='analyze_for_vulnerability',
                patterns=[('UnsafeERC20Operation', 'unsafe_erc20_operation'), ('FloatingPragma', 'floating_pragma'),
                          ('DivideBeforeMultiply', 'divide_before_multiply')]),
    'qa': dict(mod='analyzer::qa', enum='QualityAssurance', per_file='analyze_for_qa',
               patterns=[('ConstructorOrder', 'constructor_order'), ('PrivateVarsLeadingUnderscore', 'private_vars_leading_underscore'),
                         ('PrivateFuncLeadingUnderscore', 'private_func_leading_underscore')]),
}
# file contents whose findings are known per pattern name (used for native replay)
SNIPPETS = {
    'solidity_math': 'uint256 s1; function f1(uint256 a) public { a + 1; }',
    'optimal_comparison': 'function f2(uint256 a) public { a >= 1; }',
    'sstore': 'uint256 s3; function f3() public { s3 = 1; }',
    'unsafe_erc20_operation': 'function f4(address t) public { IERC20(t).transfer(t, 1); }',
    'floating_pragma': None,          # handled through the pragma line
    'divide_before_multiply': 'function f6(uint256 a) public { a / 2 * 3; }',
    'constructor_order': 'function f7() public {} constructor() {}',
    'private_vars_leading_underscore': 'uint256 private s8;',
    'private_func_leading_underscore': 'function f9() internal {}',
}


# eligible files without a single token: they have no findings, and nothing of them may reach another file
SPECIAL_CONTENTS = {'blank': '\n\n  \n\t\n\n\n', 'empty': '', 'comment': '// nothing here\n/* pragma solidity ^0.8.0; a / b * c */\n\n',
                    'one space': ' ',
                    # ... and eligible files WITH findings that hold no contract, library or interface at all: a floating pragma, a file-level
                    # struct, a free function (the directory result is the union over ALL eligible files, whatever they declare)
                    'free_only': 'pragma solidity ^0.8.16;\nstruct Pt { uint128 a; uint256 b; uint128 c; }\nfunction fr(uint256 a, uint256[] memory arr) pure returns (uint256) {\n    a + 1;\n    a >= 1;\n'
                                 '    for (uint256 i = 0; i < arr.length; i++) { }\n    return a / 2 * 3;\n}\n',
                    'pragma_only': 'pragma solidity ^0.8.0;\nimport "./Other.sol";\n'}


# files WITH findings whose text starts / ends with white space (the lines of the findings count from the first byte of the file)
PADDINGS = {'leading blank lines': ('\n\n\n', ''), 'leading blanks and tabs': ('  \t \n \n', ''), 'trailing blank lines': ('', '\n\n\n  '),
            'byte order mark-like space': ('\u00a0\n', '')}


def file_text(names_with_findings, salt=0):
    pragma = 'pragma solidity ^0.8.16;' if 'floating_pragma' in names_with_findings else 'pragma solidity 0.8.16;'
    body = '\n'.join('    ' + SNIPPETS[n] for n in names_with_findings if SNIPPETS.get(n))
    return '%s\n%scontract C%d {\n%s\n}\n' % (pragma, '\n' * (salt % 3), salt, body)


class Tree:
    """entries: list of ('file', name, tag) | ('dir', name, [entries]); name: str or Str (symbolic); tag identifies the file"""

    def __init__(self, entries):
        self.entries = entries
        self.world = World()
        self.file_by_key = {}
        self._build('root', entries)

    def _build(self, key, entries):
        lst = []
        for i, ent in enumerate(entries):
            k = '%s/e%d' % (key, i)
            if ent[0] == 'dir':
                lst.append({'name': ent[1] if isinstance(ent[1], Str) else Str(ent[1]), 'kind': 'dir', 'path': k})
                self._build(k, ent[2])
            else:
                contents = Str(z3.String('contents_' + ent[2])) if len(ent) < 4 or ent[3] != 'binary' else None
                rec = {'name': ent[1] if isinstance(ent[1], Str) else Str(ent[1]), 'kind': 'file', 'path': k, 'contents': contents,
                       'tag': ent[2]}
                lst.append(rec)
                self.world.files[k] = rec
                self.file_by_key[k] = rec
        self.world.dirs[key] = lst

    def files(self):
        return list(self.file_by_key.values())


def eligible(name):
    return name.endswith('.sol') and '.t.sol' not in name.lower()


def install_stubs(engine, cat, tree, fresults):
    """per-file analysis -> uninterpreted F: a choice between the empty set and one symbolic line per (file, pattern)"""
    per_file = CATS[cat]['per_file']
    by_contents = {id(rec['contents']): rec for rec in tree.files() if rec['contents'] is not None}

    def stub(en, args, fr, callee):
        c = en.load(args[0])
        rec = by_contents.get(id(c))
        if rec is None:
            raise Unsupported('per-file analysis called with a text that is not the content of a file of the tree')
        pat = en.force(args[2]).variant
        en.extra.setdefault('calls', []).append((rec['tag'], pat))
        key = 'F:%s:%s' % (rec['tag'], pat)
        mode = fresults.get((rec['tag'], pat), 'choice')
        line = Int(z3.BitVec('line_%s_%s' % (rec['tag'], pat), 32), 'i32')
        if mode == 'nonempty':
            return SetV((line,), 'btree')
        if mode == 'empty':
            return SetV((), 'btree')
        return Choice(key, [SetV((), 'btree'), SetV((line,), 'btree')])

    engine.stubs[per_file] = stub
    engine.flags['world'] = tree.world


def run_dir(engine, cat, tree, patterns, listing_symbolic=True, max_paths=60000):
    name = '%s::analyze_dir' % CATS[cat]['mod']
    f = engine.func(name)
    enum = CATS[cat]['enum']
    pats = VecV([Adt(enum, p) for p in patterns])
    engine.flags['symbolic_listing'] = listing_symbolic
    try:
        return engine.explore(lambda en: en.call_mir(f, [Str('root'), pats]), max_paths=max_paths)
    finally:
        engine.flags['symbolic_listing'] = False


def result_triples(r):
    """[(pattern, file name object id / text, line symbol name)] from a returned map"""
    out = []
    for k, vec in r.value.pairs:
        for t in vec.items:
            nm, st = t.fields
            while isinstance(st, Choice):
                st = st.alts[r.choices.get(st.sel, 0)]
            while isinstance(nm, Choice):
                nm = nm.alts[r.choices.get(nm.sel, 0)]
            for l in st.items:
                out.append((k.variant, nm, l.v.decl().name() if not l.concrete else l.v))
    return out


def realise_order(root, kinds, want_order, rng):
    """names for the entries of one directory such that the REAL file system lists them in `want_order`
    (ext4 lists by name hash, so the names are searched). kinds: list of 'E'/'X'/'T'/'D'; want_order: permutation of indices"""
    import random
    probe = os.path.join(root, '.probe')
    for attempt in range(400):
        names = []
        for k in kinds:
            n = rng.randrange(1, 100000)
            if k.startswith('='):
                names.append(k[1:])              # a fixed name (files that must keep their base name)
                continue
            names.append({'E': 'f%d.sol', 'X': 'n%d.txt', 'T': 'f%d.t.sol', 'D': 'd%d', 'B': 'b%d.bin'}[k] % n)
        if len(set(names)) < len(names):
            continue
        shutil.rmtree(probe, ignore_errors=True)
        os.makedirs(probe)
        for nm in names:
            open(os.path.join(probe, nm), 'w').close()
        listed = os.listdir(probe)
        shutil.rmtree(probe, ignore_errors=True)
        if [names.index(x) for x in listed] == list(want_order):
            return names
    return None


def kind_of(ent):
    if ent[0] == 'dir':
        return 'D'
    if ent[1] == 'Same.sol':
        return '=Same.sol'
    if ent[1].endswith('.t.sol'):
        return 'T'
    return 'E' if ent[1].endswith('.sol') else 'X'


def rename_for_order(entries, key, listing, rng, scratch):
    """copy of `entries` whose names make the real listing order equal to the order the counterexample path took"""
    order_keys = listing.get(key)
    kinds = [kind_of(e) for e in entries]
    names = None
    if order_keys and len(order_keys) == len(entries):
        want = [int(k.rsplit('/e', 1)[1]) for k in order_keys]
        names = realise_order(scratch, kinds, want, rng)
    out = []
    for i, ent in enumerate(entries):
        nm = names[i] if names else ent[1]
        if ent[0] == 'dir':
            out.append(('dir', nm, rename_for_order(ent[2], '%s/e%d' % (key, i), listing, rng, scratch)))
        else:
            out.append((ent[0], nm) + tuple(ent[2:]))
    return out


def materialise(tree_entries, root, findings_of, counter=None):
    """create the tree on disk; findings_of(tag) -> list of pattern names that must have findings in that file.
    Files called Same.sol are copies of each other (same findings on the same lines)"""
    counter = counter or [0]
    os.makedirs(root, exist_ok=True)
    for ent in tree_entries:
        name = ent[1]
        p = os.path.join(root, name)
        if ent[0] == 'dir':
            materialise(ent[2], p, findings_of, counter)
        else:
            counter[0] += 1
            if len(ent) > 3 and ent[3] in SPECIAL_CONTENTS:
                open(p, 'w').write(SPECIAL_CONTENTS[ent[3]])
            elif len(ent) > 3 and ent[3] in PADDINGS:
                pre, post = PADDINGS[ent[3]]
                open(p, 'w').write(pre + file_text(findings_of(ent[2]), counter[0]) + post)
            elif len(ent) > 3 and ent[3] == 'binary':
                open(p, 'wb').write(b'\xff\xfe\x00 not utf-8 \x80\x81')
            else:
                open(p, 'w').write(file_text(findings_of(ent[2]), 0 if name == 'Same.sol' else counter[0]))


def native_union(chk, cat, root, pattern_names):
    """the property, natively: analyze_dir(root) == union over eligible files of the per-file analysis.
    -> (directory result as sorted triples, union as sorted triples, raw)"""
    jobs = [['analyze_dir', cat, root, ','.join(pattern_names)]]
    files = []
    for d, _, fs in os.walk(root):
        for f in fs:
            if eligible(f):
                files.append(os.path.join(d, f))
    for f in files:
        for p in pattern_names:
            jobs.append(['analyze', cat, p, f])
    res = chk.native.run(jobs)
    dirres = res[0]
    variants = {v: n for n, v in [(a, b) for a, b in CATS[cat]['patterns']]}
    from . import reportlib as _rl
    name_of = dict(_rl.CATS[cat]['table'])              # every pattern of the category: variant as printed -> configured name
    got = None
    if dirres[0] == 'OK':
        got = []
        for item in (dirres[1].split(';') if dirres[1] else []):
            pat, hx, lines = item.split('|')
            got.append((name_of.get(pat, pat), unhex(hx), lines))
        got.sort()
    want = []
    i = 1
    for f in files:
        for p in pattern_names:
            r = res[i]; i += 1
            if r[0] == 'OK' and r[1]:
                want.append((p, os.path.basename(f), r[1]))
    want.sort()
    return got, want, dirres
