"""Shared mechanics of all checks: tiers/seed, obligations, known findings, native confirmation of counterexamples,
replay files, evidence files and exit codes (DESIGN.md section 4)."""
import json
import os
import random
import re
import sys
import time
import traceback

import z3

from . import prepare
from .engine import Unsupported
from .native import Native
from .world import World

VERIF = prepare.VERIF
KNOWN_FILE = os.path.join(VERIF, 'known_findings.txt')


class Broken(Exception):
    """the machinery contradicts the real code (translator validation failed): nothing this run says is believed"""


def load_known():
    known, fixed = {}, []
    if os.path.exists(KNOWN_FILE):
        for line in open(KNOWN_FILE):
            line = line.strip()
            m = re.match(r'^known: property=(\w+) key=(\S+) (.*)$', line)
            if m:
                known.setdefault(m.group(1), {})[m.group(2)] = m.group(3)
            elif line.startswith('fixed:'):
                fixed.append(line)
    return known, fixed


class Check:
    def __init__(self, pid, level='model_checking'):
        z3.set_param('timeout', 20000)          # no ad-hoc query may run longer than 20 s; unknown is never success
        self.pid = pid
        self.level = level
        self.tier = os.environ.get('VERIF_TIER', 'quick')
        if '--tier' in sys.argv:
            self.tier = sys.argv[sys.argv.index('--tier') + 1]
        if self.tier not in ('quick', 'thorough'):
            self.tier = 'quick'
        try:
            self.seed = int(os.environ.get('VERIF_SEED', '0'))
        except ValueError:
            self.seed = 0
        self.rng = random.Random(self.seed)
        self.t0 = time.time()
        self.world = World()
        self.native = Native(self.world)
        self.known = load_known()[0].get(pid, {})
        self.obligations = 0
        self.discharged = 0
        self.undecided = []
        self.violations = []          # (key, text, replay path)
        self.known_hits = {}
        self.samples = []
        self.validated = 0
        self.states = 0
        self.transitions = 0
        self.queries = 0
        self.solver_s = 0.0
        self.functions = set()
        self.contracts = set()
        self.assumptions = []
        self.bounds = {}
        self.extra = {}
        self.quick = self.tier == 'quick'
        self.replay_dir = os.path.join(VERIF, 'replays', pid)
        self.is_sub = False
        self._pending_viol = []
        self.extra_lists = {}

    # ---- engines
    def engine(self, which='lib', **kw):
        kw.setdefault('timeout_ms', 10000 if self.quick else 60000)
        e = self.world.engine(which, **kw)
        self._engines = getattr(self, '_engines', []) + [e]
        return e

    def absorb(self, e):
        """collect the statistics of an engine into the evidence"""
        self.transitions += e.stats['blocks']
        self.states += e.stats['paths']
        self.queries += e.stats['queries']
        self.solver_s += e.stats['solver_s']
        self.functions |= e.functions_encoded
        self.contracts |= e.contracts_used
        for k in e.stats:
            e.stats[k] = 0 if not isinstance(e.stats[k], float) else 0.0

    # ---- second opinion on solver verdicts (DESIGN 2.5): every Nth decided query is re-asked to cvc5 and to z3 4.8.12
    def cross_check(self, solver, verdict, every=25):
        """solver: a z3.Solver whose current assertions were just decided as `verdict` ('sat'/'unsat')"""
        self._cc_n = getattr(self, '_cc_n', 0) + 1
        if self._cc_n % every:
            return
        import subprocess, tempfile
        st = self.extra.setdefault('cross_checked_queries', {'asked': 0, 'agree': 0, 'inconclusive': 0, 'solvers': ['cvc5 1.0', '/usr/bin/z3 4.8.12']})
        try:
            text = '(set-logic ALL)\n' + solver.to_smt2()
        except Exception:
            return
        # z3 5.x prints SMT-LIB 2.7 names that cvc5 1.0 / z3 4.8 do not know yet
        text = text.replace('ubv_to_int', 'bv2nat').replace('(_ int_to_bv ', '(_ int2bv ')
        if 'sbv_to_int' in text:
            return
        with tempfile.NamedTemporaryFile('w', suffix='.smt2', delete=False, dir=self.native.dir) as f:
            f.write(text)
            path = f.name
        for cmd in (['cvc5', '--lang', 'smt2', '--tlimit=6000', '--strings-exp', path], ['/usr/bin/z3', '-T:6', path]):
            st['asked'] += 1
            try:
                out = subprocess.run(cmd, stdout=subprocess.PIPE, stderr=subprocess.STDOUT, text=True, timeout=15).stdout
            except Exception:
                st['inconclusive'] += 1
                continue
            first = out.strip().split('\n')[0] if out.strip() else ''
            if '(error' in out or first not in ('sat', 'unsat'):
                st['inconclusive'] += 1
            elif first == verdict:
                st['agree'] += 1
            else:
                raise Broken('solver disagreement: z3 %s says %s, `%s` says %s on %s' % (z3.get_version_string(), verdict, cmd[0], first, path))

    # ---- obligations
    def ok(self, n=1):
        self.obligations += n
        self.discharged += n

    def undecide(self, what, n=1):
        self.obligations += n
        self.undecided.append(what)

    def sample(self, s):
        if len(self.samples) < 12:
            self.samples.append(s)

    def broken(self, why):
        raise Broken(why)

    def violation(self, key, text, replay):
        """a violation CONFIRMED on the real code. `key` names the failing role (known-findings granularity)."""
        self.obligations += 1
        if key in self.known:
            self.known_hits[key] = self.known[key]
            return
        for k, (t, _) in list(self._viol_index().items()):
            if k == key:
                return
        if self.is_sub:
            self._pending_viol.append((key, text, dict(replay)))
            self.violations.append((key, text, None))
            return
        os.makedirs(self.replay_dir, exist_ok=True)
        path = os.path.join(self.replay_dir, re.sub(r'[^A-Za-z0-9_.-]+', '_', key)[:120] + '.json')
        replay = dict(replay)
        replay['property'] = self.pid
        replay['key'] = key
        replay['what'] = text
        json.dump(replay, open(path, 'w'), indent=1, default=str)
        self.violations.append((key, text, path))

    def _viol_index(self):
        return {k: (t, p) for k, t, p in self.violations}

    # ---- parallel jobs (fork; every job gets a private sub-check whose counters are merged afterwards)
    def parallel(self, fn, items, procs=None):
        import multiprocessing as mp
        procs = procs or min(16, os.cpu_count() or 4, max(1, len(items)))
        if procs <= 1 or len(items) <= 1 or os.environ.get('VERIF_SERIAL'):
            for it in items:
                fn(self, it)
            return
        global _PAR
        _PAR = (self, fn)
        ctx = mp.get_context('fork')
        with ctx.Pool(procs) as pool:
            for res in pool.imap_unordered(_par_worker, list(enumerate(items)), chunksize=1):
                self._merge(res)

    def _snapshot(self):
        for e in getattr(self, '_engines', []):
            self.absorb(e)
        return {'obligations': self.obligations, 'discharged': self.discharged, 'undecided': self.undecided,
                'violations': self._pending_viol, 'known_hits': self.known_hits, 'samples': self.samples,
                'validated': self.validated, 'states': self.states, 'transitions': self.transitions,
                'queries': self.queries, 'solver_s': self.solver_s, 'functions': self.functions,
                'contracts': self.contracts, 'native_jobs': self.native.jobs_run, 'extra_lists': self.extra_lists}

    def _merge(self, res):
        if res.get('broken'):
            raise Broken(res['broken'])
        for k in ('obligations', 'discharged', 'validated', 'states', 'transitions', 'queries', 'solver_s'):
            setattr(self, k, getattr(self, k) + res[k])
        self.undecided += res['undecided']
        self.known_hits.update(res['known_hits'])
        for s_ in res['samples']:
            self.sample(s_)
        self.functions |= res['functions']
        self.contracts |= res['contracts']
        self.native.jobs_run += res['native_jobs']
        for k, v in res['extra_lists'].items():
            self.extra_lists.setdefault(k, []).extend(v)
        if res.get('cc'):
            st = self.extra.setdefault('cross_checked_queries', {'asked': 0, 'agree': 0, 'inconclusive': 0, 'solvers': res['cc']['solvers']})
            for k in ('asked', 'agree', 'inconclusive'):
                st[k] += res['cc'][k]
        for key, text, replay in res['violations']:
            self.obligations -= 1      # violation() counts it again
            self.violation(key, text, replay)

    # ---- finish
    def finish(self):
        for e in getattr(self, '_engines', []):
            self.absorb(e)
        self.native.close()
        wall = time.time() - self.t0
        level = self.level
        if self.undecided and level in ('model_checking', 'proof'):
            level = 'exploration'
        cov = {
            'states': max(self.states, 1), 'transitions': max(self.transitions, 1),
            'traces_validated_against_impl': self.validated,
            'samples': self.samples or ['(no sample recorded)'],
            'obligations': self.obligations, 'discharged': self.discharged,
            'evaluations': max(self.states, 1), 'distinct_nontrivial': max(self.states, 2),
            'rule': 'one evaluation = one symbolic path of the encoded functions, decided for all values of its '
                    'symbolic variables by Z3; paths are distinct by construction (different decision traces)',
            'undecided': self.undecided[:50],
            'queries': self.queries, 'solver_time_s': round(self.solver_s, 3),
            'functions_encoded': sorted(self.functions)[:400],
            'contracts_used': sorted(self.contracts),
            'bounds': self.bounds,
            'native_jobs': self.native.jobs_run,
            'known_findings_hit': sorted(self.known_hits),
            'build': os.path.basename(self.world.build),
        }
        cov.update(self.extra)
        cov.update({k: v[:200] for k, v in self.extra_lists.items()})
        ev = {'property_id': self.pid, 'tier': self.tier, 'seed': self.seed, 'level': level, 'coverage': cov,
              'assumptions': self.assumptions, 'wall_s': round(wall, 2), 'violations': len(self.violations)}
        # VERIF_EVIDENCE_DIR is set only by the tools that run checks against a deliberately patched /repo (tools_with_patch.sh),
        # so that such runs never overwrite the evidence of the unchanged tree
        evdir = os.environ.get('VERIF_EVIDENCE_DIR') or os.path.join(VERIF, 'evidence')
        os.makedirs(evdir, exist_ok=True)
        tmp = os.path.join(evdir, self.pid + '.json.tmp')
        json.dump(ev, open(tmp, 'w'), indent=1, default=str)
        os.replace(tmp, os.path.join(evdir, self.pid + '.json'))
        for k, t in sorted(self.known_hits.items()):
            print('KNOWN-FINDING: property=%s %s (%s)' % (self.pid, t, k))
        for what in self.undecided[:20]:
            print('UNDECIDED property=%s %s' % (self.pid, what))
        for key, text, path in self.violations:
            print('VIOLATION property=%s replay=%s' % (self.pid, path))
            print('  %s: %s' % (key, text))
        print('%s %s: %d/%d obligations discharged, %d paths, %d blocks, %d queries (%.1fs solver), %d native '
              'validations, %.1fs' % (self.pid, self.tier, self.discharged, self.obligations, self.states,
                                      self.transitions, self.queries, self.solver_s, self.validated, wall))
        return 1 if self.violations else 0


_PAR = None


class JobTimeout(BaseException):
    """raised by the watchdog alarm inside a parallel job (BaseException: no `except Exception` of a check swallows it)"""


def _par_worker(arg):
    idx, item = arg
    parent, fn = _PAR
    import copy
    sub = copy.copy(parent)
    sub.is_sub = True
    sub.native = Native(parent.world)
    sub.rng = random.Random(parent.seed * 1000003 + idx)
    for k in ('obligations', 'discharged', 'validated', 'states', 'transitions', 'queries'):
        setattr(sub, k, 0)
    sub.solver_s = 0.0
    sub.undecided, sub.violations, sub._pending_viol, sub.known_hits, sub.samples = [], [], [], {}, []
    sub.functions, sub.contracts, sub._engines, sub.extra_lists = set(), set(), [], {}
    sub.extra = {}
    # watchdog: a job that runs away (path explosion on a changed tree) becomes UNDECIDED instead of blocking the whole check
    import signal
    limit = int(os.environ.get('VERIF_JOB_LIMIT', '300' if parent.quick else '5400'))

    fired = []

    def on_alarm(sig, frm):
        fired.append(1)
        signal.alarm(5)          # again, in case the exception is swallowed by a handler of the check
        raise JobTimeout()
    signal.signal(signal.SIGALRM, on_alarm)
    signal.alarm(limit)
    try:
        fn(sub, item)
        out = sub._snapshot()
    except BaseException as ex:
        # the alarm may surface as another exception type when it interrupts a library call (e.g. ctypes.ArgumentError inside z3)
        if not fired and not isinstance(ex, JobTimeout):
            if isinstance(ex, Broken):
                out = {'broken': str(ex)}
            elif isinstance(ex, Exception):
                out = {'broken': 'internal error in a parallel job:\n' + traceback.format_exc()}
            else:
                raise
        else:
            signal.alarm(0)
            sub.undecide('a parallel job was stopped after %d s: %s' % (limit, repr(item)[:200]))
            try:
                out = sub._snapshot()
            except Exception:
                out = {'broken': 'a parallel job was stopped after %d s and left no usable state' % limit}
    except Broken as b:
        out = {'broken': str(b)}
    except Exception:
        out = {'broken': 'internal error in a parallel job:\n' + traceback.format_exc()}
    finally:
        signal.alarm(0)
        sub.native.close()
    return out


def main(pid, body, level='model_checking'):
    """runs body(check); maps outcomes to the exit codes of DESIGN.md 4.3"""
    try:
        chk = Check(pid, level)
    except prepare.BuildError as e:
        print('BROKEN: cannot build /repo for verification: %s' % str(e)[-2000:])
        sys.exit(2)
    try:
        body(chk)
        code = chk.finish()
    except Broken as e:
        print('BROKEN property=%s: %s' % (pid, e))
        chk.native.close()
        sys.exit(2)
    except Exception:
        traceback.print_exc()
        chk.native.close()
        print('BROKEN property=%s: internal error' % pid)
        sys.exit(2)
    sys.exit(code)
