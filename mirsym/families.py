"""Tree families for the detector checks: the position catalogue (where an expression can sit in a file), interesting
expression forms per detector, and `run_case`, which executes a detector's MIR on one (partly symbolic) file, decides the
oracle's obligations with Z3 on every path, and validates / confirms against the real code."""
import re

import z3

from . import oracle, ptgen, sol
from .engine import Adt, BoxV, Choice, Int, Str, Tuple, VecV, Unsupported
from .native import unhex


def fit(b, e, maxlevel):
    """e if it may stand where the grammar wants PrecedenceN with N = maxlevel, else (e)"""
    return e if sol.level(e) <= maxlevel else b.paren(e)


def u256(b):
    return b.ty('Uint', 256)


def fn_def(b, body_stmts, name='f', kind='Function', attrs=None, params=()):
    attrs = [b.fattr('visibility', 'public')] if attrs is None else attrs
    return b.function(kind, name if kind in ('Function', 'Modifier') else None, list(params), attrs, b.block(body_stmts))


def contract_with(b, parts, name='C', kind='Contract', bases=()):
    return b.supart(b.contract(kind, name, [b.cpart(p) for p in parts], bases))


# ---- the position catalogue: name -> builder(b, E) -> list of SourceUnitParts (without pragma) -------------------------
STMT_POSITIONS = {}


def _in_fn(stmts_of):
    def place(b, e):
        return [contract_with(b, [fn_def(b, stmts_of(b, e))])]
    place.stmts_of = stmts_of
    return place


POSITIONS = {
    'statement': _in_fn(lambda b, e: [b.expr_stmt(e)]),
    'initialiser': _in_fn(lambda b, e: [b.var_stmt(u256(b), 'v', e)]),
    'return': _in_fn(lambda b, e: [b.ret(e)]),
    'assign_rhs': _in_fn(lambda b, e: [b.expr_stmt(b.bin('Assign', b.var('z'), fit(b, e, 14)))]),
    'if_condition': _in_fn(lambda b, e: [b.if_(e, b.block([]))]),
    'if_body': _in_fn(lambda b, e: [b.if_(b.var('c'), b.block([b.expr_stmt(e)]))]),
    'else_body': _in_fn(lambda b, e: [b.if_(b.var('c'), b.block([]), b.block([b.expr_stmt(e)]))]),
    'while_condition': _in_fn(lambda b, e: [b.while_(e, b.block([]))]),
    'while_body': _in_fn(lambda b, e: [b.while_(b.var('c'), b.block([b.expr_stmt(e)]))]),
    'dowhile_body': _in_fn(lambda b, e: [b.do_while(b.block([b.expr_stmt(e)]), b.var('c'))]),
    'dowhile_condition': _in_fn(lambda b, e: [b.do_while(b.block([]), e)]),
    'for_init': _in_fn(lambda b, e: [b.for_(b.var_stmt(u256(b), 'i', e), None, None, b.block([]))]),
    'for_condition': _in_fn(lambda b, e: [b.for_(None, e, None, b.block([]))]),
    'for_update': _in_fn(lambda b, e: [b.for_(None, None, b.expr_stmt(e), b.block([]))]),
    'for_body': _in_fn(lambda b, e: [b.for_(None, None, None, b.block([b.expr_stmt(e)]))]),
    # a loop that ends in `;` instead of a block (no body at all): its header is still code
    'for_update_without_body': _in_fn(lambda b, e: [b.for_(None, b.var('c'), b.expr_stmt(e), None)]),
    'for_condition_without_body': _in_fn(lambda b, e: [b.for_(None, e, b.expr_stmt(b.un('PostIncrement', b.var('k'))), None)]),
    # an occurrence that FOLLOWS (or sits inside) statements a detector may treat specially: loops without a condition, empty
    # blocks, an early return ... -- a detector that stops scanning at one of them loses the later occurrence
    'for_condition_after_conditionless_for': _in_fn(lambda b, e: [b.for_(None, None, None, b.block([b.break_()])), b.for_(b.var_stmt(u256(b), 'k', b.num(0)), None, b.expr_stmt(b.un('PostIncrement', b.var('k'))), b.block([b.break_()])),
                                                                  b.for_(None, e, None, b.block([]))]),
    'for_condition_inside_conditionless_for': _in_fn(lambda b, e: [b.for_(None, None, None, b.block([b.for_(None, e, None, b.block([])), b.break_()]))]),
    'after_neutral_statements': _in_fn(lambda b, e: [b.for_(None, None, None, b.block([b.break_()])), b.while_(b.var('c'), b.block([b.continue_()])), b.do_while(b.block([]), b.var('c')),
                                                     b.if_(b.var('c'), b.block([]), b.block([])), b.block([]), b.block([], unchecked=True), b.emit(b.call(b.var('Ev'), [])),
                                                     b.try_(b.call(b.member(b.this(), 'g'), []), None, [b.catch_simple(None, b.block([]))]),
                                                     b.var_stmt(u256(b), 'unused'), b.if_(b.var('d'), b.block([b.ret()])), b.expr_stmt(e)]),
    'after_early_return': _in_fn(lambda b, e: [b.ret(), b.expr_stmt(e)]),
    'call_argument': _in_fn(lambda b, e: [b.expr_stmt(b.call(b.var('g'), [b.var('a'), e]))]),
    'named_argument': _in_fn(lambda b, e: [b.expr_stmt(b.named_call(b.var('g'), [('k', e)]))]),
    'array_index': _in_fn(lambda b, e: [b.expr_stmt(b.index(b.var('arr'), e))]),
    'slice_start_only': _in_fn(lambda b, e: [b.expr_stmt(b.slice(b.var('data'), e, None))]),
    'slice_end_only': _in_fn(lambda b, e: [b.expr_stmt(b.slice(b.var('data'), None, e))]),
    'slice_both_bounds': _in_fn(lambda b, e: [b.expr_stmt(b.slice(b.var('data'), b.num(1), e))]),
    'slice_base': _in_fn(lambda b, e: [b.expr_stmt(b.slice(b.index(b.var('arrs'), e), None, b.num(2)))]),
    'array_literal': _in_fn(lambda b, e: [b.expr_stmt(b.array_lit([b.var('a'), e]))]),
    'tuple_component': _in_fn(lambda b, e: [b.expr_stmt(b.list_([b.var('a'), e]))]),
    # destructuring with EMPTY slots: a component behind, between and in front of a hole
    'tuple_component_after_hole': _in_fn(lambda b, e: [b.expr_stmt(b.bin('Assign', b.list_([None, e]), b.call(b.var('g'), [])))]),
    'tuple_component_between_holes': _in_fn(lambda b, e: [b.expr_stmt(b.bin('Assign', b.list_([b.var('a'), None, e, None]), b.call(b.var('g'), [])))]),
    'tuple_component_before_hole': _in_fn(lambda b, e: [b.expr_stmt(b.bin('Assign', b.list_([e, None]), b.call(b.var('g'), [])))]),
    'ternary_condition': _in_fn(lambda b, e: [b.expr_stmt(b.ternary(fit(b, e, 13), b.var('a'), b.var('d')))]),
    'ternary_branch': _in_fn(lambda b, e: [b.expr_stmt(b.ternary(b.var('c'), fit(b, e, 14), b.var('d')))]),
    'power_exponent': _in_fn(lambda b, e: [b.expr_stmt(b.bin('Power', b.var('a'), fit(b, e, 3)))]),
    'power_base': _in_fn(lambda b, e: [b.expr_stmt(b.bin('Power', fit(b, e, 2), b.var('a')))]),
    'prefix_increment_operand': _in_fn(lambda b, e: [b.expr_stmt(b.un('PreIncrement', b.index(b.var('arr'), e)))]),
    'prefix_decrement_operand': _in_fn(lambda b, e: [b.expr_stmt(b.un('PreDecrement', b.index(b.var('arr'), e)))]),
    'postfix_operand': _in_fn(lambda b, e: [b.expr_stmt(b.un('PostIncrement', b.index(b.var('arr'), e)))]),
    'unary_minus_operand': _in_fn(lambda b, e: [b.expr_stmt(b.un('UnaryMinus', fit(b, e, 2)))]),
    'not_operand': _in_fn(lambda b, e: [b.expr_stmt(b.un('Not', fit(b, e, 2)))]),
    'delete_operand': _in_fn(lambda b, e: [b.expr_stmt(b.un('Delete', b.index(b.var('arr'), e)))]),
    'logical_and_operand': _in_fn(lambda b, e: [b.expr_stmt(b.bin('And', b.var('c'), fit(b, e, 11)))]),
    'parenthesised': _in_fn(lambda b, e: [b.expr_stmt(b.paren(e))]),
    'member_base': _in_fn(lambda b, e: [b.expr_stmt(b.member(fit(b, e, 0), 'm'))]),
    'unchecked_block': _in_fn(lambda b, e: [b.block([b.expr_stmt(e)], unchecked=True)]),
    'nested_block': _in_fn(lambda b, e: [b.block([b.block([b.expr_stmt(e)])])]),
    'unchecked_if_body': _in_fn(lambda b, e: [b.block([b.if_(b.var('c'), b.block([b.expr_stmt(e)]), b.block([b.expr_stmt(b.var('d'))]))], unchecked=True)]),
    'unchecked_initialiser': _in_fn(lambda b, e: [b.block([b.var_stmt(u256(b), 'm', e)], unchecked=True)]),
    'unchecked_nested_block': _in_fn(lambda b, e: [b.block([b.block([b.expr_stmt(e)])], unchecked=True)]),
    'unchecked_return': _in_fn(lambda b, e: [b.block([b.ret(e)], unchecked=True)]),
    'unchecked_for_update': _in_fn(lambda b, e: [b.block([b.for_(None, None, b.expr_stmt(e), b.block([]))], unchecked=True)]),
    'unchecked_inside_checked_inside_unchecked': _in_fn(lambda b, e: [b.block([b.block([b.block([b.expr_stmt(e)], unchecked=True)])], unchecked=True)]),
    'checked_block_after_unchecked': _in_fn(lambda b, e: [b.block([b.expr_stmt(b.var('d'))], unchecked=True), b.block([b.expr_stmt(e)])]),
    'try_call_argument': _in_fn(lambda b, e: [b.try_(b.call(b.member(b.this(), 'g'), [e]), None,
                                                     [b.catch_simple(None, b.block([]))])]),
    'try_success_body': _in_fn(lambda b, e: [b.try_(b.call(b.member(b.this(), 'g'), []), ([b.param(u256(b), None, 'r')], b.block([b.expr_stmt(e)])),
                                                    [b.catch_simple(None, b.block([]))])]),
    # without a `returns` clause the parser attaches the success block to the call expression (FunctionCallBlock)
    'try_success_block_without_returns': _in_fn(lambda b, e: [b.try_(b.call_block(b.call(b.member(b.this(), 'g'), []), b.block([b.expr_stmt(e)])), None,
                                                                     [b.catch_simple(None, b.block([]))])]),
    'call_option_value': _in_fn(lambda b, e: [b.expr_stmt(b.call(b.call_block(b.member(b.var('t'), 'call'), b.args_stmt([('value', e)])), [b.string('')]))]),
    'catch_body': _in_fn(lambda b, e: [b.try_(b.call(b.member(b.this(), 'g'), []), None,
                                              [b.catch_simple(None, b.block([b.expr_stmt(e)]))])]),
    'named_catch_body': _in_fn(lambda b, e: [b.try_(b.call(b.member(b.this(), 'g'), []), None,
                                                    [b.catch_named('Error', b.param(b.ty('String'), 'Memory', 'reason'), b.block([b.expr_stmt(e)])),
                                                     b.catch_simple(None, b.block([]))])]),
    'emit_argument': _in_fn(lambda b, e: [b.emit(b.call(b.var('Ev'), [e]))]),
    'revert_argument': _in_fn(lambda b, e: [b.revert('Err', [e])]),
    'revert_named_argument': _in_fn(lambda b, e: [b.revert_named('Err', [('k', e)])]),
    'modifier_argument': lambda b, e: [contract_with(b, [fn_def(b, [], attrs=[b.fattr('visibility', 'public'), b.fattr('modifier', 'm', [e])])])],
    'base_constructor_argument': lambda b, e: [contract_with(b, [fn_def(b, [], kind='Constructor', attrs=[b.fattr('modifier', 'B', [e])])], bases=[('B', None)])],
    'inheritance_argument': lambda b, e: [contract_with(b, [fn_def(b, [])], bases=[('B', [e])])],
    'state_variable_initialiser': lambda b, e: [contract_with(b, [b.state_var(u256(b), 's', [], e)])],
    'file_level_constant': lambda b, e: [b.supart(b.state_var(u256(b), 'K', [b.vattr('constant')], e)), contract_with(b, [])],
    'free_function_body': lambda b, e: [b.supart(fn_def(b, [b.expr_stmt(e)], attrs=[])), contract_with(b, [])],
    'library_function_body': lambda b, e: [contract_with(b, [fn_def(b, [b.expr_stmt(e)], attrs=[b.fattr('visibility', 'internal')])], kind='Library', name='L')],
    'constructor_body': lambda b, e: [contract_with(b, [fn_def(b, [b.expr_stmt(e)], kind='Constructor', attrs=[])])],
    'modifier_body': lambda b, e: [contract_with(b, [fn_def(b, [b.expr_stmt(e), b.expr_stmt(b.var('_'))], kind='Modifier', name='m', attrs=[])])],
    'fallback_body': lambda b, e: [contract_with(b, [fn_def(b, [b.expr_stmt(e)], kind='Fallback', attrs=[b.fattr('visibility', 'external')])])],
    'second_contract': lambda b, e: [contract_with(b, [fn_def(b, [b.expr_stmt(b.var('nothing'))])], name='A'),
                                     contract_with(b, [fn_def(b, [b.expr_stmt(e)])], name='B2')],
    'second_function': lambda b, e: [contract_with(b, [fn_def(b, [b.expr_stmt(b.var('nothing'))], name='g0'), fn_def(b, [b.expr_stmt(e)])])],
    'after_assembly': _in_fn(lambda b, e: [b.assembly(), b.expr_stmt(e)]),
}
for _k, _v in POSITIONS.items():
    if hasattr(_v, 'stmts_of'):
        STMT_POSITIONS[_k] = _v.stmts_of
# positions whose scaffolding changes what a detector must say about the slot expression are handled by the oracle's
# context (unchecked_block, for_condition); all others are neutral.
QUICK_POSITIONS = ['statement', 'slice_start_only', 'slice_end_only', 'initialiser', 'if_condition', 'for_condition', 'call_argument', 'power_exponent',
                   'for_condition_after_conditionless_for', 'for_condition_inside_conditionless_for', 'after_neutral_statements',
                   'prefix_increment_operand', 'unchecked_block', 'unchecked_if_body', 'unchecked_initialiser', 'catch_body', 'try_success_block_without_returns',
                   'call_option_value', 'modifier_argument', 'tuple_component_after_hole', 'for_update_without_body',
                   'state_variable_initialiser', 'free_function_body', 'ternary_branch', 'second_contract']


def build_file(b, position, e, pragma='0.8.16', extra_parts=()):
    parts = []
    if pragma is not None:
        parts.append(b.pragma('solidity', pragma))
    parts += list(extra_parts)
    parts += POSITIONS[position](b, e)
    return b.source_unit(parts)


# ---- expression forms per detector ------------------------------------------------------------------------------------
def addr(b, *args, ty='Address'):
    return b.call(b.ty(ty), list(args))


def forms_for(detector, b):
    """list of (label, expression) — canonical, clearly non-matching and near-miss forms (roles come from the oracle)"""
    v, n = b.var, b.num
    F = []
    if detector == 'address_balance':
        F = [('address(this).balance', b.member(addr(b, b.this()), 'balance')),
             ('address(x).balance', b.member(addr(b, v('x')), 'balance')),
             ('x.balance', b.member(v('x'), 'balance')),
             ('address(x).code', b.member(addr(b, v('x')), 'code')),
             ('address(x)', addr(b, v('x'))),
             ('payable(x).balance', b.member(addr(b, v('x'), ty='Payable'), 'balance')),
             ('f(x).balance', b.member(b.call(v('f'), [v('x')]), 'balance')),
             ('address(x).balance.y', b.member(b.member(addr(b, v('x')), 'balance'), 'y')),
             ('(address(x)).balance', b.member(b.paren(addr(b, v('x'))), 'balance'))]
    elif detector == 'address_zero':
        F = [('x == address(0)', b.bin('Equal', v('x'), addr(b, n(0)))),
             ('address(0) == x', b.bin('Equal', addr(b, n(0)), v('x'))),
             ('x != address(0)', b.bin('NotEqual', v('x'), addr(b, n(0)))),
             ('address(0) != x', b.bin('NotEqual', addr(b, n(0)), v('x'))),
             ('x == address(1)', b.bin('Equal', v('x'), addr(b, n(1)))),
             ('x == y', b.bin('Equal', v('x'), v('y'))),
             ('address(0)', addr(b, n(0))),
             ('x < address(0)', b.bin('Less', v('x'), addr(b, n(0)))),
             ('x == address(0x0)', b.bin('Equal', v('x'), addr(b, b.hexnum('0x0')))),
             ('x == address()', b.bin('Equal', v('x'), addr(b))),
             ('x == payable(0)', b.bin('Equal', v('x'), addr(b, n(0), ty='Payable'))),
             ('x == address(0, 1)', b.bin('Equal', v('x'), addr(b, n(0), n(1)))),
             ('f(x) == address(y)', b.bin('Equal', b.call(v('f'), [v('x')]), addr(b, v('y')))),
             ('(x == address(0)) == y', b.bin('Equal', b.paren(b.bin('Equal', v('x'), addr(b, n(0)))), v('y')))]
    elif detector == 'bool_equals_bool':
        F = [('x == true', b.bin('Equal', v('x'), b.boolean(True))), ('false == x', b.bin('Equal', b.boolean(False), v('x'))),
             ('x != false', b.bin('NotEqual', v('x'), b.boolean(False))), ('true != x', b.bin('NotEqual', b.boolean(True), v('x'))),
             ('x == y', b.bin('Equal', v('x'), v('y'))), ('x != y', b.bin('NotEqual', v('x'), v('y'))),
             ('x && true', b.bin('And', v('x'), b.boolean(True))), ('true', b.boolean(True)),
             ('x < y', b.bin('Less', v('x'), v('y'))),
             ('f(true) == y', b.bin('Equal', b.call(v('f'), [b.boolean(True)]), v('y')))]
    elif detector == 'assign_update_array_value':
        sub = lambda a, i: b.index(v(a), i)
        F = [('a[0] = a[0] + x', b.bin('Assign', sub('a', n(0)), b.bin('Add', sub('a', n(0)), v('x'))))]
        for op in ('Subtract', 'Multiply', 'Divide', 'Modulo', 'ShiftLeft', 'ShiftRight', 'BitwiseAnd', 'BitwiseOr', 'BitwiseXor'):
            F.append(('a[7] = a[7] %s x' % sol.BINOPS[op], b.bin('Assign', sub('a', n(7)), b.bin(op, sub('a', n(7)), v('x')))))
        F += [('a[0] = b[0] + x', b.bin('Assign', sub('a', n(0)), b.bin('Add', sub('bb', n(0)), v('x')))),
              ('a[0] = a[1] + x', b.bin('Assign', sub('a', n(0)), b.bin('Add', sub('a', n(1)), v('x')))),
              ('a[0] += x', b.bin('AssignAdd', sub('a', n(0)), v('x'))),
              ('a[0] = x', b.bin('Assign', sub('a', n(0)), v('x'))),
              ('x = x + y', b.bin('Assign', v('x'), b.bin('Add', v('x'), v('y')))),
              ('a[i] = a[i] + x', b.bin('Assign', sub('a', v('i')), b.bin('Add', sub('a', v('i')), v('x')))),
              ('a[0] = x + a[0]', b.bin('Assign', sub('a', n(0)), b.bin('Add', v('x'), sub('a', n(0))))),
              ('a[0] = a[0] && x', b.bin('Assign', sub('a', n(0)), b.bin('And', sub('a', n(0)), v('x')))),
              ('a[0] = a[0] ** x', b.bin('Assign', sub('a', n(0)), b.bin('Power', sub('a', n(0)), v('x')))),
              ('a[0] = y + x', b.bin('Assign', sub('a', n(0)), b.bin('Add', v('y'), v('x')))),
              ('a[0] = a + x', b.bin('Assign', sub('a', n(0)), b.bin('Add', v('a'), v('x')))),
              ('a[0] = a[0][1] + x', b.bin('Assign', sub('a', n(0)), b.bin('Add', b.index(sub('a', n(0)), n(1)), v('x')))),
              ('a[0] = (a[0] + x)', b.bin('Assign', sub('a', n(0)), b.paren(b.bin('Add', sub('a', n(0)), v('x'))))),
              ('a.b[0] = a.b[0] + x', b.bin('Assign', b.index(b.member(v('a'), 'bb'), n(0)), b.bin('Add', b.index(b.member(v('a'), 'bb'), n(0)), v('x'))))]
    elif detector == 'cache_array_length':
        F = [('arr.length', b.member(v('arr'), 'length')), ('i < arr.length', b.bin('Less', v('i'), b.member(v('arr'), 'length'))),
             ('i < a.length && j < bb.length', b.bin('And', b.bin('Less', v('i'), b.member(v('a'), 'length')), b.bin('Less', v('j'), b.member(v('bb'), 'length')))),
             ('i < f(arr.length)', b.bin('Less', v('i'), b.call(v('f'), [b.member(v('arr'), 'length')]))),
             ('i < arr.size', b.bin('Less', v('i'), b.member(v('arr'), 'size'))),
             ('i < length', b.bin('Less', v('i'), v('length'))),
             ('i < s.arr.length', b.bin('Less', v('i'), b.member(b.member(v('s'), 'arr'), 'length'))),
             ('i < m[k].length', b.bin('Less', v('i'), b.member(b.index(v('m'), v('k')), 'length')))]
    elif detector == 'increment_decrement':
        F = [('i++', b.un('PostIncrement', v('i'))), ('i--', b.un('PostDecrement', v('i'))),
             ('++i', b.un('PreIncrement', v('i'))), ('--i', b.un('PreDecrement', v('i'))),
             ('i += 1', b.bin('AssignAdd', v('i'), n(1))), ('i = i + 1', b.bin('Assign', v('i'), b.bin('Add', v('i'), n(1)))),
             ('a[j++] = 1', b.bin('Assign', b.index(v('a'), b.un('PostIncrement', v('j'))), n(1))),
             ('x = ++i + j--', b.bin('Assign', v('x'), b.bin('Add', b.un('PreIncrement', v('i')), b.un('PostDecrement', v('j'))))),
             ('-i', b.un('UnaryMinus', v('i')))]
    elif detector == 'multiple_require':
        req = lambda *a: b.call(v('require'), list(a))
        F = [('require(a && c)', req(b.bin('And', v('a'), v('c')))),
             ('require(a && c, "m")', req(b.bin('And', v('a'), v('c')), b.string('m'))),
             ('require(a && c && d)', req(b.bin('And', b.bin('And', v('a'), v('c')), v('d')))),
             ('require(a)', req(v('a'))), ('require(a || c)', req(b.bin('Or', v('a'), v('c')))),
             ('assert(a && c)', b.call(v('assert'), [b.bin('And', v('a'), v('c'))])),
             ('x.require(a && c)', b.call(b.member(v('x'), 'require'), [b.bin('And', v('a'), v('c'))])),
             ('require((a && c))', req(b.paren(b.bin('And', v('a'), v('c'))))),
             ('require(f(a && c))', req(b.call(v('f'), [b.bin('And', v('a'), v('c'))]))),
             ('require(a, "x && y")', req(v('a'), b.string('x && y'))),
             ('require(!(a && c))', req(b.un('Not', b.paren(b.bin('And', v('a'), v('c')))))),
             ('require()', req()), ('a && c', b.bin('And', v('a'), v('c')))]
    elif detector == 'optimal_comparison':
        F = [('a >= c', b.bin('MoreEqual', v('a'), v('c'))), ('a <= c', b.bin('LessEqual', v('a'), v('c'))),
             ('a > c', b.bin('More', v('a'), v('c'))), ('a < c', b.bin('Less', v('a'), v('c'))),
             ('a == c', b.bin('Equal', v('a'), v('c'))), ('a >>= c', b.bin('AssignShiftRight', v('a'), v('c'))),
             ('(a >= c) == (d <= e)', b.bin('Equal', b.paren(b.bin('MoreEqual', v('a'), v('c'))), b.paren(b.bin('LessEqual', v('d'), v('e')))))]
    elif detector == 'solidity_keccak256':
        F = [('keccak256(x)', b.call(v('keccak256'), [v('x')])),
             ('keccak256(abi.encodePacked(a, c))', b.call(v('keccak256'), [b.call(b.member(v('abi'), 'encodePacked'), [v('a'), v('c')])])),
             ('sha256(x)', b.call(v('sha256'), [v('x')])), ('x.keccak256(y)', b.call(b.member(v('x'), 'keccak256'), [v('y')])),
             ('keccak256', v('keccak256')), ('keccak(x)', b.call(v('keccak'), [v('x')])),
             ('f(keccak256(x))', b.call(v('f'), [b.call(v('keccak256'), [v('x')])])),
             ('keccak256()', b.call(v('keccak256'), []))]
    elif detector == 'solidity_math':
        F = [('a %s c' % sol.BINOPS[k], b.bin(k, v('a'), v('c'))) for k in
             ('Add', 'Subtract', 'Multiply', 'Divide', 'Modulo', 'Power', 'AssignAdd', 'AssignMultiply', 'ShiftLeft', 'BitwiseAnd')]
        F += [('-a', b.un('UnaryMinus', v('a'))), ('a + c * d', b.bin('Add', v('a'), b.bin('Multiply', v('c'), v('d')))),
              ('(a - c) / d', b.bin('Divide', b.paren(b.bin('Subtract', v('a'), v('c'))), v('d')))]
    elif detector == 'shift_math':
        F = shift_math_forms(b)
    elif detector == 'unsafe_erc20_operation':
        for nm in ('transfer', 'transferFrom', 'approve', 'safeTransfer', 'transferred', 'Transfer', 'approveAll', 'transfe'):
            F.append(('t.%s(a, 1)' % nm, b.call(b.member(v('t'), nm), [v('a'), n(1)])))
        F += [('transfer(a, 1)', b.call(v('transfer'), [v('a'), n(1)])), ('t.transfer', b.member(v('t'), 'transfer')),
              ('IERC20(t).approve(a, 1)', b.call(b.member(b.call(v('IERC20'), [v('t')]), 'approve'), [v('a'), n(1)])),
              ('x.approve.y', b.member(b.member(v('x'), 'approve'), 'y'))]
    elif detector == 'divide_before_multiply':
        F = divide_before_multiply_forms(b)
    elif detector == 'divide_before_multiply:spines':
        # every left spine of up to 3 steps over the operators the chain rule mentions
        F = spine_forms(b, 3)
    return F


KEYWORDS = ['if', 'is', 'do', 'as', 'for', 'new', 'try', 'int', 'uint', 'bool', 'this', 'true', 'false', 'else', 'byte', 'bytes', 'emit',
            'enum', 'type', 'wei', 'gwei', 'days', 'hex', 'var', 'in', 'of', 'let', 'using', 'while', 'break', 'catch', 'error', 'event',
            'fixed', 'ufixed', 'final', 'hours', 'weeks', 'ether', 'throw', 'super', 'after', 'alias', 'apply', 'auto', 'case', 'copyof',
            'default', 'define', 'delete', 'return', 'public', 'string', 'struct', 'pragma', 'import', 'memory', 'payable', 'private',
            'address', 'mapping', 'storage', 'virtual', 'abstract', 'contract', 'external', 'function', 'internal', 'library', 'modifier',
            'override', 'constant', 'continue', 'calldata', 'interface', 'immutable', 'anonymous', 'assembly', 'indexed', 'returns', 'revert',
            'seconds', 'minutes', 'unchecked', 'constructor', 'fallback', 'receive', 'pure', 'view', 'switch', 'leave', 'null', 'typeof',
            'static', 'sizeof', 'sealed', 'relocatable', 'reference', 'promise', 'partial', 'mutable', 'match', 'macro', 'inline', 'implements',
            'unicode', 'years', 'szabo', 'finney', 'supports']


def symbolic_ident(tag, maxlen=10):
    """identifier whose spelling is a Z3 string: [A-Za-z_][A-Za-z0-9_]*, at most maxlen characters, not a keyword"""
    v = z3.String('ident_' + tag)
    first = z3.Union(z3.Range('a', 'z'), z3.Range('A', 'Z'), z3.Re('_'))
    rest = z3.Union(first, z3.Range('0', '9'))
    cons = [z3.InRe(v, z3.Concat(first, z3.Star(rest))), z3.Length(v) <= maxlen]
    cons += [v != z3.StringVal(k) for k in KEYWORDS] + [z3.Not(z3.PrefixOf(z3.StringVal(p), v)) for p in ('uint', 'int', 'bytes', 'fixed', 'ufixed')]
    return Str(v), cons


def symbolic_name_forms(detector, b):
    """forms in which the identifier the detector looks for is a SYMBOLIC string: the solver decides the report for every spelling.
    -> list of (label, expression, constraints)"""
    v, n = b.var, b.num
    out = []
    if detector == 'multiple_require':
        nm, c = symbolic_ident('callee')
        out.append(('<name>(a && c)', b.call(v(nm), [b.bin('And', v('a'), v('c'))]), c))
    elif detector == 'solidity_keccak256':
        nm, c = symbolic_ident('callee', 12)
        out.append(('<name>(x)', b.call(v(nm), [v('x')]), c))
    elif detector == 'unsafe_erc20_operation':
        nm, c = symbolic_ident('member', 14)
        out.append(('t.<name>(a, 1)', b.call(b.member(v('t'), nm), [v('a'), n(1)]), c))
    elif detector == 'cache_array_length':
        nm, c = symbolic_ident('member')
        out.append(('i < arr.<name>', b.bin('Less', v('i'), b.member(v('arr'), nm)), c))
    elif detector == 'address_balance':
        nm, c = symbolic_ident('member')
        out.append(('address(x).<name>', b.member(addr(b, v('x')), nm), c))
    return out


def shift_math_forms(b):
    v, n = b.var, b.num
    sym = lambda tag: b.num(sol.DecStr(z3.BitVec('lit_' + tag, 130), 130))
    F = [('x * <n>', b.bin('Multiply', v('x'), sym('a'))), ('<n> * x', b.bin('Multiply', sym('b'), v('x'))),
         ('x / <n>', b.bin('Divide', v('x'), sym('c'))), ('<n> / x', b.bin('Divide', sym('d'), v('x'))),
         ('<n> * <m>', b.bin('Multiply', sym('e'), sym('f'))),
         ('x * y', b.bin('Multiply', v('x'), v('y'))), ('x / y', b.bin('Divide', v('x'), v('y'))),
         ('x * 1e18', b.bin('Multiply', v('x'), n('1', '18'))), ('x * 2e3', b.bin('Multiply', v('x'), n('2', '3'))),
         ('x / 1e2', b.bin('Divide', v('x'), n('1', '2'))),
         ('x * 2 ether', b.bin('Multiply', v('x'), b.unit(n('2'), 'Ether'))),
         ('x * 4 days', b.bin('Multiply', v('x'), b.unit(n('4'), 'Days'))),
         ('x * 0x10', b.bin('Multiply', v('x'), b.hexnum('0x10'))),
         ('x * (4)', b.bin('Multiply', v('x'), b.paren(n(4)))),
         ('x + 4', b.bin('Add', v('x'), n(4))), ('x % 4', b.bin('Modulo', v('x'), n(4))),
         ('x << 4', b.bin('ShiftLeft', v('x'), n(4))), ('x *= 4', b.bin('AssignMultiply', v('x'), n(4))),
         ('x * 8 * y', b.bin('Multiply', b.bin('Multiply', v('x'), n(8)), v('y'))),
         ('f(4) * y', b.bin('Multiply', b.call(v('f'), [n(4)]), v('y')))]
    return F


def divide_before_multiply_forms(b):
    v, n = b.var, b.num
    m, d = (lambda l, r: b.bin('Multiply', l, r)), (lambda l, r: b.bin('Divide', l, r))
    p = b.paren
    F = [('1 / 2 * 3', m(d(n(1), n(2)), n(3))), ('1 * 2 / 3', d(m(n(1), n(2)), n(3))),
         ('(1 / 2) * 3', m(p(d(n(1), n(2))), n(3))), ('(1 * 2) / 3', d(p(m(n(1), n(2))), n(3))),
         ('(1 / 2 * 3) * 4', m(p(m(d(n(1), n(2)), n(3))), n(4))), ('(1 * 2 / 3) * 4', m(p(d(m(n(1), n(2)), n(3))), n(4))),
         ('((1 / 2)) * 3', m(p(p(d(n(1), n(2)))), n(3))),
         ('1 * (2 / 3)', m(n(1), p(d(n(2), n(3))))), ('a * b', m(v('a'), v('bb'))),
         ('1 / (2 + 3) * 4', m(d(n(1), p(b.bin('Add', n(2), n(3)))), n(4)))]
    for k in ('Add', 'Subtract', 'Modulo', 'BitwiseOr', 'BitwiseAnd', 'BitwiseXor', 'ShiftLeft', 'ShiftRight'):
        inner = b.bin(k, d(n(1), n(2)), n(3)) if sol.LEVEL[k] >= 4 else None
        if inner is not None:
            F.append(('(1 / 2 %s 3) * 4' % sol.BINOPS[k], m(p(inner), n(4))))
    ad = lambda r: b.bin('AssignDivide', v('x'), r)
    F += [('x /= 2 * 3', ad(m(n(2), n(3)))), ('x /= 2 / 3', ad(d(n(2), n(3)))), ('x /= 2 * 3 / 4', ad(d(m(n(2), n(3)), n(4)))),
          ('x /= (2 * 3)', ad(p(m(n(2), n(3))))), ('x /= 3 - 4', ad(b.bin('Subtract', n(3), n(4)))),
          ('x /= 2 * 3 + 4', ad(b.bin('Add', m(n(2), n(3)), n(4)))), ('x /= 4 + 2 * 3', ad(b.bin('Add', n(4), m(n(2), n(3))))),
          ('x /= f(2 * 3)', ad(b.call(v('f'), [m(n(2), n(3))]))), ('x /= y', ad(v('y'))),
          ('x *= 2 / 3', b.bin('AssignMultiply', v('x'), d(n(2), n(3)))),
          ('x /= (2 * 3) % 4 << 1', ad(b.bin('ShiftLeft', b.bin('Modulo', p(m(n(2), n(3))), n(4)), n(1)))),
          ('x /= -(2 * 3)', ad(b.un('UnaryMinus', p(m(n(2), n(3)))))),
          ('x /= (2 * 3) ** 2', ad(b.bin('Power', p(m(n(2), n(3))), n(2))))]
    return F


def spine_forms(b, depth):
    """`<spine> * z` and `x /= <spine>` for every precedence-valid left spine of `depth` steps; a step is an operator whose LEFT
    operand continues the spine (right operands are leaves) or a pair of parentheses"""
    import itertools
    steps = ['Multiply', 'Divide', 'Add', 'Subtract', 'Modulo', 'BitwiseAnd', 'ShiftLeft', 'Parenthesis']
    out = []

    def build(seq):
        e = b.var('leaf')
        for k in reversed(seq):
            if k == 'Parenthesis':
                e = b.paren(e)
            else:
                l_max, _ = sol.operand_levels(k)
                if sol.level(e) > l_max:
                    return None
                e = b.bin(k, e, b.num(2))
        return e

    def text(seq):
        t = 'leaf'
        for k in reversed(seq):
            t = '(%s)' % t if k == 'Parenthesis' else '%s %s 2' % (t, sol.BINOPS[k])
        return t
    for n in range(1, depth + 1):
        for seq in itertools.product(steps, repeat=n):
            if any(a == b_ == 'Parenthesis' for a, b_ in zip(seq, seq[1:])) and n > 2:
                continue
            if not ('Divide' in seq or 'Multiply' in seq):
                continue
            e = build(seq)
            if e is not None and sol.level(e) <= 4:
                out.append(('%s * z' % text(seq), b.bin('Multiply', e, b.var('z'))))
            e2 = build(seq)
            if e2 is not None:
                out.append(('x /= %s' % text(seq), b.bin('AssignDivide', b.var('x'), e2)))
    return out


# ---- running one case ---------------------------------------------------------------------------------------------------
CROSS = [None]


def model_with(s, cond=None):
    """model of the solver's assertions (and cond), or None"""
    s.push()
    if cond is not None and cond is not True:
        s.add(cond)
    r = s.check()
    m = s.model() if r == z3.sat else None
    if CROSS[0] is not None and r in (z3.sat, z3.unsat) and cond is not None and cond is not True:
        CROSS[0].cross_check(s, 'sat' if r == z3.sat else 'unsat')
    s.pop()
    return m


class CaseResult:
    def __init__(self):
        self.paths = 0
        self.loc_dependent = False
        self.flagged = 0
        self.silent = 0
        self.jobs = []


def loc_vars_in(term, names):
    seen, stack = set(), [term]
    while stack:
        t = stack.pop()
        if z3.is_const(t) and t.decl().kind() == z3.Z3_OP_UNINTERPRETED:
            if t.decl().name() in names:
                return True
            continue
        for c in t.children():
            if c.get_id() not in seen:
                seen.add(c.get_id())
                stack.append(c)
    return False


def concretize_dec(v, m):
    """evaluate DecStr leaves (symbolic number literals) under a model"""
    if isinstance(v, Str) and hasattr(v, 'render'):
        return Str(v.render(m))
    if isinstance(v, Adt):
        return Adt(v.ty, v.variant, [concretize_dec(f, m) for f in v.fields])
    if isinstance(v, BoxV):
        return BoxV(concretize_dec(v.inner, m))
    if isinstance(v, VecV):
        return VecV([concretize_dec(f, m) for f in v.items])
    if isinstance(v, Tuple):
        return Tuple([concretize_dec(f, m) for f in v.fields])
    return v


def concrete_file(su, choices, m):
    return concretize_dec(sol.concretize(su, choices, m), m)


def eval_cond(c, m):
    if isinstance(c, bool):
        return c
    return z3.is_true(m.eval(c, model_completion=True))


def native_verdict(chk, detector, su_conc, label, oracle_fn=None, meta=None):
    """run the real detector on the printed file and compare with the (now concrete) oracle. Locations are compared as
    (start, end) pairs for expressions (two nested expressions can begin on the same byte) and by start otherwise.
    -> (text, native result fields, list of problems)"""
    text, starts, ends = sol.print_source(su_conc, with_ends=True)
    path = chk.native.file(text)
    dbg, det = chk.native.run([['debugtree', path], ['detect', detector, path]])
    if dbg[0] != 'OK' or sol.strip_locs(unhex(dbg[1])) != sol.debug_render(su_conc, chk.world.types):
        return text, det, None          # printed text is not the tree: cannot be used as evidence
    problems = []
    if det[0] != 'OK':
        msg = det[1] if len(det) > 1 else str(det)
        problems.append('panic[%s]: %s' % (panic_role(msg), msg))
        return text, det, problems
    got = sorted({(int(x.split(':')[0]), int(x.split(':')[1])) for x in det[1].split(',') if x})
    got_starts = {g[0] for g in got}
    cls = oracle.classify_file(detector, su_conc, oracle_fn, meta)

    def reported(lid):
        if lid in ends and lid in starts:
            return (starts[lid], ends[lid]) in got
        return starts.get(lid) in got_starts
    by_start = {}
    for node, lid, flag, never in cls:
        if lid is None or lid not in starts:
            continue
        by_start.setdefault(starts[lid], []).append((flag, never, node, lid))
    for node, lid, flag, never in cls:
        if flag is True and not reported(lid):
            problems.append('missed[%s]: canonical %s at byte %s is not reported' % (shape(node), node.variant, starts.get(lid)))
    for g in got:
        entries = by_start.get(g[0])
        exact = [x for x in entries or [] if x[3] in ends and ends[x[3]] == g[1]]
        if exact:
            entries = exact
        if not entries:
            problems.append('spurious[unknown-location]: byte %d reported, no construct of the pattern begins there' % g[0])
        elif all(never is True for _, never, _, _ in entries):
            nd = [n for _, _, n, _ in entries if n.ty == 'Expression' and n.variant != 'Parenthesis'] or [entries[0][2]]
            problems.append('spurious[%s]: %s at byte %d reported, clearly not the pattern' % (shape(nd[0]), nd[0].variant, g[0]))
    return text, det, problems


def conc_meta(meta, m):
    if not meta:
        return meta
    out = dict(meta)
    v = meta.get('version')
    if v is not None:
        out['version'] = tuple(x if isinstance(x, int) else m.eval(x, model_completion=True).as_long() for x in v)
    return out


def run_case(chk, engine, detector, su, label, loc_names, oracle_fn=None, confirm=True, role=None, meta=None, base=(), only_panics=False, no_fallback=False):
    """executes the detector's MIR on `su`, decides the oracle on every path, validates each path natively.
    `role`: prefix of the known-finding key (defaults to the detector name)."""
    res = CaseResult()
    CROSS[0] = chk
    fn = engine.func(oracle.MIR_NAME[detector])
    try:
        paths = engine.explore(lambda en: en.call_mir(fn, [su]), max_paths=5000, base_constraints=list(base))
    except Unsupported as u:
        chk.undecide('%s [%s]: %s' % (detector, label, u))
        return res
    res.paths = len(paths)
    role = role or detector
    for r in paths:
        if r.outcome == 'unsupported':
            chk.undecide('%s [%s]: %s' % (detector, label, r.value))
            if not no_fallback:
                fallback_native(chk, detector, su, r, label, role, oracle_fn, meta, base)
            continue
        if any(loc_vars_in(c, loc_names) for c in r.pc):
            # the byte offsets of the nodes are free symbols of the encoding: a path that branches on them is not decided by the solver
            # (the parser relates the offsets of nested nodes); the real code decides it on the printed file of this path
            res.loc_dependent = True
            chk.undecide('%s [%s]: the path branches on byte offsets, which the encoding leaves free; decided by the real code on the printed file' % (detector, label))
            chk.extra_lists.setdefault('offset_dependent_paths', []).append('%s: %s' % (detector, label))
            if not no_fallback:
                fallback_native(chk, detector, su, r, label, role, oracle_fn, meta, base, drop=loc_names)
            continue
        s = z3.Solver()
        s.add(*base)
        s.add(*r.pc)
        if s.check() != z3.sat:
            continue
        cls = oracle.classify_file(detector, sol.concretize(su, r.choices, None), oracle_fn, meta)
        witness = None
        why = None
        if r.outcome == 'panic':
            witness, why = model_with(s), 'panics: ' + r.value.msg
        else:
            ids = []
            fabricated = False
            for x in r.value.items:
                try:
                    ids.append(sol.loc_id(x))
                    if not (x.fields[1].v.decl().name().endswith('.s') and x.fields[2].v.decl().name() == sol.loc_id(x) + '.e'):
                        fabricated = True
                except Exception:
                    fabricated = True
            if fabricated:
                chk.undecide('%s [%s]: reports a location that is not a node\'s own Loc' % (detector, label))
                res.loc_dependent = True
                continue
            R = set(ids)
            (res.flagged, res.silent) = (res.flagged + 1, res.silent) if R else (res.flagged, res.silent + 1)
            by_id = {}
            if only_panics:
                cls = []
                R = set()
            for node, lid, flag, never in cls:
                by_id.setdefault(lid, []).append((flag, never, node))
            # missed canonical nodes
            for node, lid, flag, never in cls:
                if flag is False or lid in R:
                    continue
                chk.queries += 1
                witness = model_with(s, flag)
                if witness is not None:
                    why = 'canonical %s is not reported' % node.variant
                    break
            if witness is None:
                for lid in R:
                    entries = by_id.get(lid)
                    if entries is None:
                        witness, why = model_with(s), 'reports a location where no construct of the pattern begins'
                        break
                    nev = oracle.band(*[nv for _, nv, _ in entries])
                    chk.queries += 1
                    if nev is False:
                        continue
                    witness = model_with(s, nev)
                    if witness is not None:
                        why = '%s is reported although it is clearly not the pattern' % entries[0][2].variant
                        break
        if witness is None:
            chk.ok()
            # translator validation of this path: predicted starts == what the real code returns
            conc = concrete_file(su, r.choices, model_with(s))
            try:
                text, starts, ends = sol.print_source(conc, with_ends=True)
            except sol.PrintError as pe:
                chk.undecide('%s [%s]: cannot print (%s)' % (detector, label, pe))
                continue
            pred = sorted({(starts[i], ends.get(i, -1)) for i in ids})
            res.jobs.append((detector, label, text, pred, conc))
            continue
        # symbolic counterexample -> concrete file -> the real code decides
        conc = concrete_file(su, r.choices, witness)
        text, det, problems = native_verdict(chk, detector, conc, label, oracle_fn, conc_meta(meta, witness))
        if problems is None:
            chk.undecide('%s [%s]: counterexample file does not parse back to the executed tree: %s' % (detector, label, text.strip()[:120]))
            continue
        if not problems:
            chk.broken('%s [%s]: engine says "%s" but the real code satisfies the oracle on\n%s\nreal result: %s' % (detector, label, why, text, det))
        kind = problems[0].split(':')[0]
        chk.violation('%s:%s' % (role, kind),
                      '%s on `%s`: %s' % (detector, label, problems[0]),
                      {'job': 'detect', 'detector': detector, 'source': text, 'observed': det, 'problems': problems})
    return res


def panic_role(msg):
    """stable name of a panic site: the message without numbers and without the source position"""
    m = msg.split(' @ ')[0]
    m = re.sub(r'\d+', 'N', m)
    return re.sub(r'[^A-Za-z]+', '-', m).strip('-')[:70]


def shape(n, depth=2):
    """structural fingerprint of a node: its kind and the kinds of its operands (names of identifiers kept)"""
    n = oracle.unbox(n)
    if not isinstance(n, Adt):
        return '?'
    if n.ty == 'Expression' and n.variant == 'Variable':
        return oracle.ident_name(n.fields[0]) or 'Variable'
    if n.ty == 'Expression' and n.variant == 'NumberLiteral':
        return 'Num' + ('e' if oracle.sname(n.fields[2]) else '')
    if n.ty == 'Expression' and n.variant == 'Type':
        return n.fields[1].variant
    if depth == 0:
        return n.variant
    kids = [c for c in ptgen.direct_subnodes(n)] if n.ty in oracle.NODE_TYS else []
    extra = ''
    if n.ty == 'Expression' and n.variant == 'MemberAccess':
        extra = '.' + (oracle.ident_name(n.fields[2]) or '?')
    return n.variant + extra + ('(%s)' % ','.join(shape(k, depth - 1) for k in kids[:3]) if kids else '')


def label_key(label):
    """role-based part of a known-finding key: the form/position label without symbolic values"""
    return label.split(' @ ')[0].replace(' ', '')[:60]


def fallback_native(chk, detector, su, r, label, role, oracle_fn, meta=None, base=(), drop=None):
    """DESIGN 4.4: a path the engine cannot encode is still tested on the real code (never an alarm by itself).
    `drop`: names of symbols whose constraints are left out (byte offsets: the printed file has its own)"""
    try:
        s = z3.Solver(); s.add(*base); s.add(*[c for c in r.pc if not (drop and loc_vars_in(c, drop))])
        if s.check() != z3.sat:
            return
        mdl = s.model()
        conc = concrete_file(su, r.choices, mdl)
        text, det, problems = native_verdict(chk, detector, conc, label, oracle_fn, conc_meta(meta, mdl))
    except Exception:
        return
    if problems:
        kind = problems[0].split(':')[0]
        chk.violation('%s:%s' % (role, kind), '%s on `%s`: %s' % (detector, label, problems[0]),
                      {'job': 'detect', 'detector': detector, 'source': text, 'observed': det, 'problems': problems})


HEADER = '// © 2022 ünïcödé — 版权所有 𝄞 header\n/* second line: a + b; x++ */\n\n'


def line_level_validation(chk, meta, out):
    """the statement of the detector properties is about reported LINES: every 4th validated case is also pushed through the compiled
    analyze_for_* with a header of multi-byte characters in front; the lines must be the lines on which the detector's own locations
    (as returned for the file without the header) begin"""
    jobs, exp = [], []
    hb = len(HEADER.encode('utf-8'))
    for i, (detector, label, text, pred, conc) in enumerate(meta):
        det = out[2 * i + 1]
        if (i + chk.seed) % 4 or det[0] != 'OK' or out[2 * i][0] != 'OK':
            continue
        starts = sorted({int(x.split(':')[0]) for x in det[1].split(',') if x})
        full = HEADER + text
        raw = full.encode('utf-8')
        want = sorted({1 + raw[:hb + st].count(b'\n') for st in starts})
        if (i + chk.seed) % 8 < 4:
            # every second one of them with CRLF line ends behind 60 more (CRLF) comment lines: whatever a line table gets wrong per line
            # has added up to more than a line's length by then. Same line structure, so the same lines are expected
            want = [w + 60 for w in want]
            full = (HEADER + '// filler line\n' * 60 + text).replace('\n', '\r\n')
        else:
            # the other ones a second time behind leading white space (blank lines and a run of blanks longer than any indentation): offsets
            # and text must stay those of the file as it is on disk, whatever the parser is handed
            lead = '\n\n\n' + ' ' * 40 + '\t\n'
            jobs.append(['analyze', oracle.CATEGORY[detector], detector, chk.native.file(lead + full)])
            exp.append((detector, label + ' behind leading white space', lead + full, [w + 4 for w in want]))
        jobs.append(['analyze', oracle.CATEGORY[detector], detector, chk.native.file(full)])
        exp.append((detector, label, full, want))
    for (detector, label, full, want), r in zip(exp, chk.native.run(jobs)):
        chk.states += 1
        got = [int(x) for x in r[1].split(',') if x] if r[0] == 'OK' else r
        if got != want:
            chk.violation('%s:lines' % detector, '%s [%s] behind a multi-byte header%s: analyze_for_%s reports lines %r, the flagged constructs begin on lines %r' % (
                detector, label, ' with CRLF line ends' if '\r' in full else '', oracle.CATEGORY[detector], got, want), {'job': 'analyze', 'category': oracle.CATEGORY[detector], 'detector': detector, 'source': full, 'expected': want, 'observed': got})


def flush_validation(chk, results):
    """natively validate every path recorded by run_case: round trip through the parser + predicted result"""
    jobs, meta = [], []
    for res in results:
        for detector, label, text, pred, conc in res.jobs:
            p = chk.native.file(text)
            jobs.append(['debugtree', p]); jobs.append(['detect', detector, p])
            meta.append((detector, label, text, pred, conc))
    out = chk.native.run(jobs)
    line_level_validation(chk, meta, out)
    for i, (detector, label, text, pred, conc) in enumerate(meta):
        dbg, det = out[2 * i], out[2 * i + 1]
        if dbg[0] != 'OK' or sol.strip_locs(unhex(dbg[1])) != sol.debug_render(conc, chk.world.types):
            chk.extra_lists.setdefault('not_round_tripped', []).append('%s: %s' % (detector, label))
            continue
        chk.validated += 1
        if det[0] == 'OK':
            pairs = {(int(x.split(':')[0]), int(x.split(':')[1])) for x in det[1].split(',') if x}
            # ends are predicted for expressions only (-1 = compare the start alone)
            got = sorted({(a, b_) if any(p[0] == a and p[1] == b_ for p in pred) or not any(p[0] == a and p[1] == -1 for p in pred) else (a, -1)
                          for a, b_ in pairs})
        else:
            got = det
        if got != pred:
            # the engine iterates hash containers in insertion order; a detector whose result depends on the iteration order shows as a
            # mismatch here. Decide natively: the same job in several processes (each has its own hash seed)
            seen = {tuple(chk.native.run([['detect', detector, chk.native.file(text)]])[0]) for _ in range(10)}
            if len(seen) > 1:
                chk.violation('%s:nondeterministic' % detector, '%s returns different locations for the same file in different processes (%d different results in 10 runs), '
                              'e.g. %r [%s]' % (detector, len(seen), sorted(seen)[:2], label),
                              {'job': 'detect', 'detector': detector, 'source': text, 'observed': sorted(seen), 'repeat': 10})
                continue
            chk.broken('%s [%s]: engine predicts starts %r, the real code returns %r on\n%s' % (detector, label, pred, got, text))
