"""Loads everything a check needs for the current /repo tree: the MIR program (parsed, cached next to the dump), the
type database and an Engine with the library contracts installed."""
import os
import pickle

from . import lib, mirparse, prepare
from .engine import Engine
from .types import TypeDB


class World:
    def __init__(self, build_dir=None):
        self.build = build_dir or prepare.prepare()
        self.runner = os.path.join(self.build, 'runner')
        self.programs = {}
        self.types = TypeDB()
        self.types.load(open(prepare.solang_pt_path()).read())
        self.types.load_tree(os.path.join(prepare.REPO, 'src'))

    def program(self, which='lib'):
        if which not in self.programs:
            mir = os.path.join(self.build, which + '.mir')
            pk = mir + '.pickle'
            if os.path.exists(pk) and os.path.getmtime(pk) >= max(os.path.getmtime(mir),
                                                                  os.path.getmtime(mirparse.__file__)):
                self.programs[which] = pickle.load(open(pk, 'rb'))
            else:
                prog = mirparse.parse_mir(open(mir).read())
                tmp = pk + '.%d' % os.getpid()
                pickle.dump(prog, open(tmp, 'wb'))
                os.replace(tmp, pk)
                self.programs[which] = prog
        return self.programs[which]

    def engine(self, which='lib', **kw):
        e = Engine(self.program(which), self.types, **kw)
        lib.install(e)
        return e
