"""C06 — declaration-level gas and QA detectors flag exactly their documented pattern (DESIGN.md 6/C06, section 8)."""
import itertools

from .. import families as fam, oracle, sol
from ..checklib import main

DETECTORS = ['payable_function', 'private_constant', 'private_vars_leading_underscore', 'private_func_leading_underscore',
             'constructor_order']
KINDS = ['Function', 'Constructor', 'Fallback', 'Receive', 'Modifier']
VIS = [None, 'public', 'external', 'internal', 'private']
CONTRACT_KINDS = ['Contract', 'Abstract', 'Interface', 'Library']
VAR_TYPES = ['uint256', 'bool', 'string', 'bytes', 'address', 'bytes4', 'mapping', 'user', 'array', 'function']
COUNTER = [0]


NAME_SHAPES = ['MAX_SUPPLY', 'OWNER', 'X1', '_MAX_SUPPLY', '__doubled', '_', 'x_', 'a_b_c', 'mixedCase', 'x']


def fresh(prefix):
    COUNTER[0] += 1
    return '%s%d' % (prefix, COUNTER[0])


def make_function(b, kind, vis, payable, body, underscore, modifier=False, name=None, order=0):
    """order: rotation of the attribute list (the grammar accepts function attributes in any order)"""
    attrs = []
    if vis:
        attrs.append(b.fattr('visibility', vis))
    if payable:
        attrs.append(b.fattr('mutability', 'payable'))
    if modifier:
        attrs.append(b.fattr('modifier', 'guard', None))
    if order == 'view_first':
        attrs.insert(0, b.fattr('mutability', 'view'))
    elif order == 'virtual_first':
        attrs.insert(0, b.fattr('virtual'))
    elif order:
        attrs = attrs[order % max(len(attrs), 1):] + attrs[:order % max(len(attrs), 1)]
    nm = None
    if kind in ('Function', 'Modifier') and name != '<unnamed>':
        nm = name or (('_' if underscore else '') + fresh('fn'))
    blk = b.block([b.expr_stmt(b.var('x'))]) if body else None
    return b.function(kind, nm, [], attrs, blk)


def var_type(b, t):
    if t == 'uint256': return b.ty('Uint', 256)
    if t == 'bool': return b.ty('Bool')
    if t == 'string': return b.ty('String')
    if t == 'bytes': return b.ty('DynamicBytes')
    if t == 'address': return b.ty('Address')
    if t == 'bytes4': return b.ty('Bytes', 4)
    if t == 'bytes32': return b.ty('Bytes', 32)
    if t == 'int256': return b.ty('Int', 256)
    if t == 'uint8': return b.ty('Uint', 8)
    if t == 'address_payable': return b.ty('AddressPayable')
    if t == 'mapping': return b.mapping(b.ty('Address'), b.ty('Uint', 256))
    if t == 'user': return b.var('Token')
    if t == 'array': return b.index(b.ty('Uint', 256))
    if t == 'function':
        from ..engine import Adt, VecV
        return Adt('Expression', 'Type', (b.loc(), Adt('Type', 'Function', (VecV(()), VecV(()), sol.NONE))))
    raise ValueError(t)


def make_variable(b, t, vis, mut, underscore, init=False, name=None):
    attrs = []
    if vis:
        attrs.append(b.vattr('visibility', vis))
    if mut:
        attrs.append(b.vattr(mut))
    if t == 'function':
        attrs = []                     # the grammar allows no attributes after a function type
    return b.state_var(var_type(b, t), name or (('_' if underscore else '') + fresh('v')), attrs, b.num(1) if init else None)


def file_of(b, items):
    """items: list of ('contract', kind, [members]) | ('free', fn) | ('filevar', var)"""
    parts = [b.pragma('solidity', '0.8.16')]
    for it in items:
        if it[0] == 'contract':
            parts.append(fam.contract_with(b, it[2], name=fresh('C'), kind=it[1]))
        else:
            parts.append(b.supart(it[1]))
    return b.source_unit(parts)


def cases(chk):
    """generator of (label, builder -> SourceUnit)"""
    out = []
    # single function shapes in each contract kind (+ an unrelated neighbour contract)
    for kind, vis, payable, body, us in itertools.product(KINDS, VIS, (False, True), (True, False), (False, True)):
        for ck in (CONTRACT_KINDS if (vis in ('public', 'external') and kind == 'Function') else ['Contract']):
            out.append(('fn %s %s payable=%s body=%s _=%s in %s' % (kind, vis, payable, body, us, ck),
                        lambda b, a=(kind, vis, payable, body, us, ck): file_of(b, [
                            ('contract', 'Contract', [make_function(b, 'Function', 'internal', False, True, True)]),
                            ('contract', a[5], [make_function(b, *a[:5])])])))
    # attribute order and extra attributes (payable / modifier before the visibility keyword, view, virtual)
    for kind, vis, payable, us, order in itertools.product(('Function', 'Receive'), ('public', 'external', 'internal'), (False, True), (False, True),
                                                           (1, 2, 'view_first', 'virtual_first')):
        out.append(('fn %s %s payable=%s _=%s attribute order %s' % (kind, vis, payable, us, order),
                    lambda b, a=(kind, vis, payable, us, order): file_of(b, [('contract', 'Contract', [
                        make_function(b, a[0], a[1], a[2], True, a[3], modifier=True, order=a[4])])])))
    # the pre-0.6 fallback spelling `function() external payable {}`: kind Function without a name
    for vis, payable, body in itertools.product(('external', 'public', 'internal', None), (False, True), (True, False)):
        out.append(('unnamed legacy fallback %s payable=%s body=%s' % (vis, payable, body),
                    lambda b, a=(vis, payable, body): file_of(b, [('contract', 'Contract', [
                        make_function(b, 'Function', 'public', False, True, False),
                        make_function(b, 'Function', a[0], a[1], a[2], False, name='<unnamed>')])])))
    for vis, us in itertools.product(VIS, (False, True)):
        out.append(('free fn %s _=%s' % (vis, us), lambda b, a=(vis, us): file_of(b, [('free', make_function(b, 'Function', a[0], False, True, a[1])),
                                                                                        ('contract', 'Contract', [])])))
    for t, vis, mut, us in itertools.product(VAR_TYPES, [None, 'public', 'private', 'internal'], [None, 'constant', 'immutable'], (False, True)):
        out.append(('var %s %s %s _=%s' % (t, vis, mut, us),
                    lambda b, a=(t, vis, mut, us): file_of(b, [('contract', 'Contract', [make_variable(b, *a, init=a[2] == 'constant')])])))
    # the verdict on a name depends on its first character only: names in CONSTANT_CASE, with digits, with inner / trailing / doubled
    # underscores, of one character -- for every visibility and mutability
    for shape in NAME_SHAPES:
        for vis, mut in itertools.product([None, 'public', 'private', 'internal'], [None, 'constant', 'immutable']):
            out.append(('var named %s %s %s' % (shape, vis, mut),
                        lambda b, a=(shape, vis, mut): file_of(b, [('contract', 'Contract', [make_variable(b, 'uint256', a[1], a[2], False, init=a[2] == 'constant', name=a[0])])])))
        for vis in VIS:
            out.append(('fn named %s %s' % (shape, vis), lambda b, a=(shape, vis): file_of(b, [('contract', 'Contract', [make_function(b, 'Function', a[1], False, True, False, name=a[0])])])))
    # function names are NOT unique within a file (overloads, the same name in two contracts, an interface and its implementation): each of
    # them is judged on its own
    for v1, v2, where in itertools.product(('internal', 'private', 'public'), ('internal', 'private', 'external'), ('overloads', 'two contracts', 'interface')):
        def same_name(b, a=(v1, v2, where)):
            f1 = make_function(b, 'Function', a[0], False, True, False, name='sync')
            f2 = b.function('Function', 'sync', [b.param(b.ty('Uint', 256), None, 'extra')], [b.fattr('visibility', a[1])], b.block([b.expr_stmt(b.var('extra'))]) if a[2] != 'interface' else None)
            if a[2] == 'overloads':
                return file_of(b, [('contract', 'Contract', [f1, f2])])
            if a[2] == 'two contracts':
                return file_of(b, [('contract', 'Contract', [f1]), ('contract', 'Contract', [f2])])
            return file_of(b, [('contract', 'Interface', [b.function('Function', 'sync', [b.param(b.ty('Uint', 256), None, 'extra')], [b.fattr('visibility', 'external')], None)]), ('contract', 'Contract', [f1])])
        out.append(('fn same name `sync` %s / %s as %s' % (v1, v2, where), same_name))
    for t, mut in itertools.product(['uint256', 'string', 'user'], ['constant']):
        out.append(('file-level %s %s' % (t, mut), lambda b, a=(t, mut): file_of(b, [('filevar', make_variable(b, a[0], None, a[1], False, init=True)),
                                                                                       ('contract', 'Contract', [])])))
    # two and three variables in one / two contracts (name map is file-wide: unique names)
    for (t1, v1, m1), (t2, v2, m2) in itertools.product([('uint256', 'public', 'constant'), ('bool', 'private', None), ('address', None, 'immutable'),
                                                         ('mapping', 'public', None)], repeat=2):
        out.append(('vars [%s %s %s] [%s %s %s]' % (t1, v1, m1, t2, v2, m2),
                    lambda b, a=(t1, v1, m1, t2, v2, m2): file_of(b, [('contract', 'Contract', [make_variable(b, a[0], a[1], a[2], False, init=a[2] == 'constant')]),
                                                                      ('contract', 'Library', [make_variable(b, a[3], a[4], a[5], True, init=a[5] == 'constant')])])))
    # a state variable that the detectors skip (mapping / user-defined type / array) WITH attributes, followed by an elementary one
    # WITHOUT any attribute (same contract, next contract, with a function in between): nothing of the first may reach the second
    for t1, v1, m1 in [('mapping', 'private', None), ('user', 'public', 'constant'), ('mapping', 'internal', None), ('array', 'private', None), ('user', 'private', 'immutable')]:
        for where in ('next', 'after_function', 'next_contract'):
            def build(b, a=(t1, v1, m1), w=where):
                first = make_variable(b, a[0], a[1], a[2], True, init=a[2] == 'constant')
                second = make_variable(b, 'uint256', None, None, False)
                third = make_variable(b, 'address', None, None, True)
                if w == 'next':
                    return file_of(b, [('contract', 'Contract', [first, second, third])])
                if w == 'after_function':
                    return file_of(b, [('contract', 'Contract', [first, make_function(b, 'Function', 'public', True, True, False), second, third])])
                return file_of(b, [('contract', 'Contract', [first]), ('contract', 'Contract', [second, third])])
            out.append(('vars attributed %s %s %s then bare uint256 (%s)' % (t1, v1, m1, where), build))
    # constructor_order: member sequences (F function, M modifier, C constructor, R receive, V variable, K fallback)
    letters = {'F': lambda b: make_function(b, 'Function', 'public', False, True, False),
               'M': lambda b: make_function(b, 'Modifier', None, False, True, False),
               'C': lambda b: make_function(b, 'Constructor', None, False, True, False),
               'R': lambda b: make_function(b, 'Receive', 'external', True, True, False),
               'K': lambda b: make_function(b, 'Fallback', 'external', False, True, False),
               'V': lambda b: make_variable(b, 'uint256', 'public', None, False),
               'I': lambda b: make_function(b, 'Function', 'external', False, False, False),
               # declarations whose underscore contradicts their visibility (U, P: functions; W, X: variables; N: public constant)
               'U': lambda b: make_function(b, 'Function', 'external', False, True, True),
               'P': lambda b: make_function(b, 'Function', 'private', False, True, False),
               'W': lambda b: make_variable(b, 'uint256', 'private', None, False),
               'X': lambda b: make_variable(b, 'uint256', 'public', None, True),
               'N': lambda b: make_variable(b, 'uint256', 'public', 'constant', False, init=True)}
    seqs = [''.join(p) for n in range(1, 4) for p in itertools.product('FMCRV', repeat=n)]
    seqs += ['FFC', 'MMC', 'CFC', 'KC', 'IC', 'VMC', 'CC', 'FCFC', 'MFMC', 'VFVC', 'CMFR']
    for sq in seqs:
        out.append(('members %s' % sq, lambda b, q=sq: file_of(b, [('contract', 'Contract', [letters[c](b) for c in q])])))
    two = ['F|C', 'C|F', 'FC|C', 'C|FC', 'FC|FC', 'F|MC', 'M|FC', 'R|C', 'F|C|C', 'C|C|FC', 'FC|V|FC', '|C', 'F|']
    for t in two:
        for ck in ('Contract', 'Library', 'Interface', 'Abstract'):
            out.append(('contracts %s (first is %s)' % (t, ck),
                        lambda b, q=t, k=ck: file_of(b, [('contract', k if i == 0 else 'Contract', [letters[c](b) for c in part])
                                                         for i, part in enumerate(q.split('|'))])))
    for t in ('f|C', 'f|FC', 'C|f', 'f|f|C', 'FC|f', 'f|UP', 'U|f|P', 'UP|f', 'f|WXN', 'W|f|XN', 'f|PC|f|U', 'f|FUC'):
        out.append(('free function and contracts %s' % t,
                    lambda b, q=t: file_of(b, [('free', make_function(b, 'Function', None, False, True, False)) if part == 'f'
                                               else ('contract', 'Contract', [letters[c](b) for c in part]) for part in q.split('|')])))
    return out


def symbolic_name_cases():
    """declarations whose NAME is a symbolic identifier: the underscore rules are decided for every spelling"""
    out = []
    for vis in ('public', 'private', 'internal', None):
        def build_var(b, vis=vis):
            nm, cons = fam.symbolic_ident('var')
            attrs = [b.vattr('visibility', vis)] if vis else []
            su = file_of(b, [('contract', 'Contract', [b.state_var(b.ty('Uint', 256), nm, attrs)])])
            return su, cons
        out.append(('var <name> %s' % vis, build_var))
    for vis in ('public', 'external', 'private', 'internal'):
        def build_fn(b, vis=vis):
            nm, cons = fam.symbolic_ident('fn')
            fn = b.function('Function', nm, [], [b.fattr('visibility', vis)], b.block([]))
            return file_of(b, [('contract', 'Contract', [fn])]), cons
        out.append(('function <name> %s' % vis, build_fn))
    return out


def job(chk, item):
    e = chk.engine()
    results = []
    all_cases = cases(chk)
    if item and item[0] == 'symbolic':
        for label, build in symbolic_name_cases():
            for d in DETECTORS:
                COUNTER[0] = 0
                b = sol.TreeBuilder()
                su, cons = build(b)
                results.append(fam.run_case(chk, e, d, su, label, {v.decl().name() for v in b.loc_vars}, base=cons))
        fam.flush_validation(chk, results)
        chk.extra_lists.setdefault('per_job', []).append({'cases': len(results), 'paths': sum(r.paths for r in results),
                                                          'paths_with_reports': sum(r.flagged for r in results), 'paths_without': sum(r.silent for r in results)})
        return
    if item and item[0] == 'composed':
        # several members of the family in ONE file (their top-level parts concatenated in the drawn order, one pragma): the verdict on
        # every declaration must be what it is in the member's own file -- nothing carries over between declarations, contracts or items
        from ..engine import Adt, VecV
        for combo in item[1]:
            for d in DETECTORS:
                COUNTER[0] = 0
                b = sol.TreeBuilder()
                parts, labels = [], []
                for k in combo:
                    label, build = all_cases[k]
                    su_k = build(b)
                    ps = list(su_k.fields[0].items)
                    parts += [p_ for p_ in ps if p_.variant != 'PragmaDirective' or not parts]
                    labels.append(label)
                su = b.source_unit(parts)
                results.append(fam.run_case(chk, e, d, su, 'composed: ' + ' || '.join(labels), {v.decl().name() for v in b.loc_vars}))
        fam.flush_validation(chk, results)
        chk.extra_lists.setdefault('per_job', []).append({'cases': len(results), 'paths': sum(r.paths for r in results),
                                                          'paths_with_reports': sum(r.flagged for r in results), 'paths_without': sum(r.silent for r in results)})
        return
    for idx in item:
        label, build = all_cases[idx]
        for d in DETECTORS:
            COUNTER[0] = 0
            b = sol.TreeBuilder()
            su = build(b)
            results.append(fam.run_case(chk, e, d, su, label, {v.decl().name() for v in b.loc_vars}))
    fam.flush_validation(chk, results)
    chk.extra_lists.setdefault('per_job', []).append({'cases': len(results), 'paths': sum(r.paths for r in results),
                                                      'paths_with_reports': sum(r.flagged for r in results),
                                                      'paths_without': sum(r.silent for r in results)})
    if results and results[0].jobs:
        chk.sample({'case': results[0].jobs[0][1], 'file': results[0].jobs[0][2], 'predicted_starts': results[0].jobs[0][3]})


def body(chk):
    n = len(cases(chk))
    idx = list(range(n))
    if chk.quick:
        chk.rng.shuffle(idx)
        core = [i for i, (l, _) in enumerate(cases(chk)) if l.startswith(('members', 'contracts', 'free function', 'unnamed legacy', 'vars attributed')) or 'attribute order' in l
                or (l.startswith('var named') and ('private' in l or 'internal' in l)) or (l.startswith('fn named') and ('private' in l or 'internal' in l))]
        idx = sorted(set(core) | set(idx[:260])) if n > 2500 else sorted(idx)        # the whole family is cheap enough for the quick tier
    chk.bounds = {'files': '%d of %d declaration shapes x 5 detectors' % (len(idx), n),
                  'shapes': 'function kind x visibility x payable x body x underscore x contract kind; variable type x visibility x constant/immutable x underscore; '
                            'member sequences up to length 3 (+ selected longer) over function/modifier/constructor/receive/variable in 1-3 contracts and with free functions',
                  'composed files': '60 (thorough 600) seeded files made of 2-4 members of the family each',
                  'outside': 'more than one function attribute of a kind; override/virtual attributes (not inspected by the detectors)'}
    chk.assumptions = ['as C05; state-variable names unique within the file (the property\'s precondition)']
    chunks = [idx[k:k + 30] for k in range(0, len(idx), 30)] + [['symbolic']]
    ncomp = 60 if chk.quick else 600
    combos = [[chk.rng.randrange(n) for _ in range(chk.rng.choice([2, 3, 4]))] for _ in range(ncomp)]
    # state-variable (and function) names are unique within a file -- the property's precondition: of the members with a FIXED name
    # (`var named X1 ..`) a composed file keeps the first one of each name
    labels_ = [l for l, _ in cases(chk)]
    fixed_name = lambda l: l.split()[2] if l.startswith(('var named', 'fn named')) else None
    for combo in combos:
        seen_names = set()
        for k in list(combo):
            nm = fixed_name(labels_[k])
            if nm is not None:
                if nm in seen_names:
                    combo.remove(k)
                seen_names.add(nm)
    chunks += [['composed', combos[k:k + 15]] for k in range(0, ncomp, 15)]
    chk.parallel(job, chunks)
    rep = sum(j['paths_with_reports'] for j in chk.extra_lists.get('per_job', []))
    sil = sum(j['paths_without'] for j in chk.extra_lists.get('per_job', []))
    if not chk.undecided and not chk.violations and (rep == 0 or sil == 0):
        chk.broken('vacuous family (paths with a report: %d, without: %d)' % (rep, sil))


if __name__ == '__main__':
    main('C06', body)
