"""C03 — directory analysis is the exact union of the per-file results (DESIGN.md 6/C03)."""
import itertools
import os

import z3

from .. import dirlib as dl
from ..checklib import main


def shapes(chk):
    """directory trees: entries E (eligible file), X (ineligible), T (test file), D[..] (sub-directory)"""
    leaf = ['E', 'X']
    subs = [[], ['E'], ['E', 'E'], ['X', 'E'], ['E', 'D1']]
    out = []
    tops = []
    for n in (1, 2, 3):
        for combo in itertools.product(['E', 'X', 'D'], repeat=n):
            tops.append(combo)
    for combo in tops:
        nd = combo.count('D')
        for subsel in itertools.product(range(len(subs)), repeat=nd):
            if chk.quick and nd >= 2 and any(s in (0, 3) for s in subsel):
                continue
            out.append((combo, subsel))
    return out, subs


def build_entries(combo, subsel, subs, same_names=False):
    """same_names: every eligible file has the same base name (files of different directories may share a name)"""
    cnt = [0]

    def fresh(kind):
        cnt[0] += 1
        if kind == 'E':
            return ('file', 'Same.sol' if same_names else 'f%d.sol' % cnt[0], 't%d' % cnt[0])
        if kind == 'X':
            return ('file', 'n%d.txt' % cnt[0], 't%d' % cnt[0])
        if kind == 'T':
            return ('file', 'f%d.t.sol' % cnt[0], 't%d' % cnt[0])
        raise ValueError(kind)
    ents, di = [], 0
    for c in combo:
        if c == 'D':
            sub = []
            for s in subs[subsel[di]]:
                if s == 'D1':
                    cnt[0] += 1
                    sub.append(('dir', 'deep%d' % cnt[0], [fresh('E')]))
                else:
                    sub.append(fresh(s))
            cnt[0] += 1
            ents.append(('dir', 'd%d' % cnt[0], sub))
            di += 1
        else:
            ents.append(fresh(c))
    return ents


def all_files(ents, out=None):
    out = [] if out is None else out
    for e in ents:
        if e[0] == 'dir':
            all_files(e[2], out)
        else:
            out.append(e)
    return out


def job(chk, item):
    cat, todo = item
    e = chk.engine()
    _, subs = shapes(chk)
    pats_all = [p for p, _ in dl.CATS[cat]['patterns']]
    names = dict(dl.CATS[cat]['patterns'])
    for (combo, subsel, npat) in todo:
        same = npat < 0
        npat = abs(npat)
        ents = build_entries(combo, subsel, subs, same)
        tree = dl.Tree(ents)
        patterns = pats_all[:npat]
        files = all_files(ents)
        # F is a free choice (empty / one line) for the first pattern, fixed non-empty for the others
        fres = {(f[2], p): 'nonempty' for f in files for p in patterns[1:]}
        dl.install_stubs(e, cat, tree, fres)
        label = '%s %s%s patterns=%d%s' % (cat, ''.join(combo), list(subsel), npat, ' same file names' if same else '')
        try:
            paths = dl.run_dir(e, cat, tree, patterns)
        except Exception as ex:
            chk.undecide('%s: %s' % (label, ex)); continue
        bad = None
        for r in paths:
            if r.outcome == 'unsupported':
                chk.undecide('%s: %s' % (label, r.value)); bad = 'unsupported'; break
            if r.outcome == 'panic':
                bad = ('panic', r, 'panics: ' + r.value.msg); break
            got = sorted((p, id(nm), l) for p, nm, l in dl.result_triples(r))
            want = []
            recs = {rec['tag']: rec for rec in tree.files()}
            for f in files:
                if not dl.eligible(f[1]):
                    continue
                for p in patterns:
                    mode = fres.get((f[2], p), 'choice')
                    nonempty = mode == 'nonempty' or (mode == 'choice' and r.choices.get('F:%s:%s' % (f[2], p)) == 1)
                    if mode == 'choice' and ('F:%s:%s' % (f[2], p)) not in r.choices:
                        # the file was never analysed for this pattern on this path
                        nonempty = None
                    if nonempty is None:
                        want.append((p, id(recs[f[2]]['name']), 'NOT-ANALYSED %s' % f[1]))
                    elif nonempty:
                        want.append((p, id(recs[f[2]]['name']), 'line_%s_%s' % (f[2], p)))
            want.sort()
            if got != want:
                bad = ('diff', r, 'result differs from the union of the per-file results')
                break
            chk.ok()
        if bad == 'unsupported' or bad is None:
            if bad is None:
                chk.sample({'tree': ents, 'patterns': patterns, 'paths (listing orders x F outcomes)': len(paths)}) if chk.states % 40 == 0 else None
            if bad == 'unsupported':
                native_check(chk, cat, ents, patterns, names, label, None)
            continue
        # counterexample: rebuild it on disk and ask the real code
        kind, r, why = bad
        nonempty_tags = {}
        for f in files:
            nonempty_tags[f[2]] = [names[p] for p in patterns if fres.get((f[2], p)) == 'nonempty' or r.choices.get('F:%s:%s' % (f[2], p)) == 1]
        ents2 = dl.rename_for_order(ents, 'root', r.extra.get('listing', {}), chk.rng, chk.native.dir)
        native_check(chk, cat, ents2, patterns, names, label, nonempty_tags, why)


def native_check(chk, cat, ents, patterns, names, label, nonempty_tags, why=None):
    root = os.path.join(chk.native.dir, 'tree%d' % chk.native.n)
    chk.native.n += 1
    pnames = [names[p] for p in patterns]
    if nonempty_tags is None:
        nonempty_tags = {f[2]: pnames for f in all_files(ents)}
    dl.materialise(ents, root, lambda tag: nonempty_tags.get(tag, []))
    got, want, raw = dl.native_union(chk, cat, root, pnames)
    chk.validated += 1
    if got is not None and sorted(got) == sorted(want):
        if why is not None:
            chk.broken('%s: engine says "%s" but the real analyze_dir equals the union of the per-file results for %r' % (label, why, ents))
        return
    role = 'panic' if got is None else ('dropped' if len(got) < len(want) else 'duplicated' if len(got) > len(want) else 'replaced')
    chk.violation('%s:analyze_dir:%s' % (cat, role),
                  '%s: analyze_dir returned %r, the union of the per-file results is %r (tree %r)' % (label, got if got is not None else raw, want, ents),
                  {'job': 'analyze_dir', 'category': cat, 'tree': ents, 'patterns': pnames, 'expected': want, 'observed': got if got is not None else raw})


def content_family(chk):
    """the compiled analyze_dir on trees in which eligible files without any token (blank with line feeds, empty, comments only)
    stand before / after / between files with findings and sub-directories, in every listing order of the top directory"""
    import itertools
    names = {c: dict(dl.CATS[c]['patterns']) for c in dl.CATS}
    kinds = list(dl.SPECIAL_CONTENTS) if not chk.quick else ['blank', 'comment', 'empty', 'free_only', 'pragma_only']
    trees = []
    for k in kinds:
        trees.append([('file', 'W.sol', 'w', k), ('file', 'A.sol', 'a')])
        trees.append([('file', 'W.sol', 'w', k), ('dir', 'd', [('file', 'B.sol', 'b')]), ('file', 'A.sol', 'a')])
        trees.append([('dir', 'd', [('file', 'W.sol', 'w', k), ('file', 'B.sol', 'b')]), ('file', 'A.sol', 'a')])
    trees.append([('file', 'W1.sol', 'w1', 'blank'), ('file', 'W2.sol', 'w2', 'blank'), ('file', 'A.sol', 'a')])
    # eligible names that generic path helpers treat specially (no stem, two dots, a dot in front, upper-case stem)
    for odd in ('.sol', '..sol', '.hidden.sol', 'a.b.sol', 'UPPER.sol', 'sp ace.sol', 'ünï.sol'):
        trees.append([('file', odd, 'o'), ('dir', 'd', [('file', odd, 'o2'), ('file', 'A.sol', 'a')])])
    for k in ('leading blank lines', 'leading blanks and tabs', 'trailing blank lines'):
        trees.append([('file', 'P.sol', 'p', k), ('dir', 'd', [('file', 'Q.sol', 'q', k)])])
    for cat in dl.CATS:
        pats = [p for p, _ in dl.CATS[cat]['patterns']][:2]
        for ents in trees:
            for perm in itertools.permutations(range(len(ents))):
                listing = {'root': ['root/e%d' % i for i in perm]}
                ents2 = dl.rename_for_order(ents, 'root', listing, chk.rng, chk.native.dir)
                tags = {f[2]: ([] if len(f) > 3 and f[3] in dl.SPECIAL_CONTENTS else [names[cat][p] for p in pats]) for f in all_files(ents2)}
                native_check(chk, cat, ents2, pats, names[cat], '%s content family %r order %r' % (cat, [e_[3] if len(e_) > 3 else e_[0] for e_ in ents], perm), tags)
                chk.ok()
    # directories and files whose NAMES look special to path helpers (kept as they are: whatever order the file system lists them in)
    for cat in dl.CATS:
        pats = [p for p, _ in dl.CATS[cat]['patterns']][:2]
        for dname in ('snapshots.t.sol', '.deps', 'T.SOL', 'a.sol', 'sp ace', 'ünï', 'lib\\v1', '~x', '%41$'):
            for fname in ('In.sol', '.sol', '.Vault.sol'):
                ents = [('dir', dname, [('file', fname, 'in'), ('dir', 'deep', [('file', 'Low.sol', 'low')])]), ('file', 'A.sol', 'a')]
                tags = {f[2]: [names[cat][p] for p in pats] for f in all_files(ents)}
                native_check(chk, cat, ents, pats, names[cat], '%s eligible files below a directory called %r (file %r)' % (cat, dname, fname), tags)
                chk.ok()
    # directories that only GROUP other directories (no file of their own), two and three levels deep
    for cat in dl.CATS:
        pats = [p for p, _ in dl.CATS[cat]['patterns']][:2]
        ents = [('dir', 'v2', [('dir', 'core', [('file', 'Pool.sol', 'p')]), ('dir', 'periphery', [('dir', 'lens', [('file', 'Quoter.sol', 'q')]), ('file', 'notes.txt', 'n')])]),
                ('dir', 'docs', [('dir', 'img', [])]), ('file', 'A.sol', 'a')]
        tags = {f[2]: [names[cat][p] for p in pats] for f in all_files(ents)}
        native_check(chk, cat, ents, pats, names[cat], '%s directories that only hold directories' % cat, tags)
        chk.ok()
    # files that are NOT eligible by their name although they hold Solidity text with findings (another letter case of the suffix, a suffix
    # behind the suffix, no dot, a test contract): nothing of them may appear in the result, in any category
    for cat in dl.CATS:
        pats = [p for p, _ in dl.CATS[cat]['patterns']][:2]
        for bad in ('Legacy.SOL', 'Token.Sol', 'x.sOl', 'x.sol.bak', 'sol', 'xsol', 'X.T.SOL', 'y.t.sol.sol', 'z.T.sol', 'w.sol ', 'v.sol.'):
            ents = [('file', bad, 'x'), ('file', 'A.sol', 'a'), ('dir', 'd', [('file', bad, 'x2'), ('file', 'B.sol', 'b')])]
            tags = {f[2]: [names[cat][p] for p in pats] for f in all_files(ents)}
            native_check(chk, cat, ents, pats, names[cat], '%s a file called %r with findings in its text next to eligible files' % (cat, bad), tags)
            chk.ok()
    # EVERY pattern of a category selected, on files whose text holds other version-like strings behind the pragma (a constant "1.0.0", a comment
    # `v2.9.1`) and that have findings for the version-gated patterns: the directory result is still the union of the per-file results
    from .. import reportlib as rl
    body_ = ('library SafeMath { function add(uint256 a, uint256 b) internal pure returns (uint256) { return a + b; } }\ncontract G%d {\n    using SafeMath for uint256;\n'
             '    string public constant VERSION = "%s";\n    uint256 total;\n    // port of v%s\n    function f(uint256 a) public {\n'
             '        require(a > 1, "a revert string that is longer than thirty-two bytes");\n        total = total.add(a);\n    }\n}\n')
    for cat in dl.CATS:
        every = [n_ for _, n_ in rl.CATS[cat]['table']]
        root = os.path.join(chk.native.dir, 'ver%d' % chk.native.n); chk.native.n += 1
        os.makedirs(os.path.join(root, 'legacy'))
        for k, (rel, pragma, const, note) in enumerate((('Ledger.sol', '^0.8.13', '1.0.0', '4.4.1'), ('legacy/Old.sol', '0.7.6', '0.7.6', '2.9.1'), ('Mid.sol', '>=0.8.4', '0.8.3', '0.8.4'))):
            open(os.path.join(root, rel), 'w').write('pragma solidity %s;\n' % pragma + body_ % (k, const, note))
        got, want, raw = dl.native_union(chk, cat, root, every)
        chk.states += 1
        if got is None or sorted(got) != sorted(want):
            chk.violation('%s:analyze_dir:%s' % (cat, 'panic' if got is None else 'dropped' if len(got) < len(want) else 'replaced'),
                          '%s with every pattern selected on files with version-like strings behind the pragma: analyze_dir returned %r, the union of the per-file results is %r (missing %r)' % (
                              cat, got if got is not None else raw, want, sorted(set(want) - set(got or []))),
                          {'job': 'analyze_dir_files', 'category': cat, 'patterns': every, 'listing_by_creation': False, 'expected': want, 'observed': got,
                           'files': [[rel, 'pragma solidity %s;\n' % pragma + body_ % (k, const, note)] for k, (rel, pragma, const, note) in
                                     enumerate((('Ledger.sol', '^0.8.13', '1.0.0', '4.4.1'), ('legacy/Old.sol', '0.7.6', '0.7.6', '2.9.1'), ('Mid.sol', '>=0.8.4', '0.8.3', '0.8.4')))]})
        else:
            chk.ok()
    chk.sample({'content family': '%d trees x every listing order of the top directory x 3 categories: token-free eligible files (%s) next to files with findings' % (len(trees), ', '.join(kinds))})


def body(chk):
    sh, subs = shapes(chk)
    todo = {c: [] for c in dl.CATS}
    for cat in dl.CATS:
        for (combo, subsel) in sh:
            nfiles = sum(1 for c in combo if c != 'D') + sum(len(subs[s]) for s in subsel)
            for npat in ((1, 2) if nfiles <= 3 else (1,)):
                todo[cat].append((combo, subsel, npat))
            # the same shape with one base name for all eligible files (possible when no directory holds two of them);
            # the per-file line sets are symbolic, so equal (name, lines) pairs of different files are in the family
            if 'D' in combo and combo.count('E') <= 1 and all(subs[s_].count('E') <= 1 for s_ in subsel):
                todo[cat].append((combo, subsel, -1))
    if chk.quick:
        for cat in todo:
            lst = todo[cat]
            chk.rng.shuffle(lst)
            keep = [t for t in lst if t[0].count("D") >= 2][:15] + lst[:40] + [t for t in lst if t[2] < 0][:12]
            todo[cat] = keep
    chk.bounds = {'directory trees': '%d per category: 1..3 entries per directory (eligible file / other file / sub-directory), sub-directories with 0..2 entries, depth <= 3' % len(todo['opt']),
                  'listing order': 'every order of every directory (a decision per read_dir step)', 'patterns': '1..2 selected patterns',
                  'per-file results': 'uninterpreted: empty or one symbolic line per (file, pattern)',
                  'outside': 'wider / deeper trees; duplicate pattern names in the configuration'}
    chk.assumptions = ['fs contracts of DESIGN.md 2.4 (read_dir lists every entry once in arbitrary order; is_dir; file_name; read_to_string)',
                       'HashMap contracts incl. extend = insert-each-replacing-equal-keys', 'per-file analysis is a function of (contents, pattern) — C15']
    items = []
    for cat, lst in todo.items():
        for k in range(0, len(lst), 6):
            items.append((cat, lst[k:k + 6]))
    chk.parallel(job, items)
    content_family(chk)
    # translator validation on real directories: a handful of trees through the compiled analyze_dir
    names = {c: dict(dl.CATS[c]['patterns']) for c in dl.CATS}
    for cat in dl.CATS:
        for (combo, subsel, npat) in todo[cat][:(3 if chk.quick else 12)]:
            ents = build_entries(combo, subsel, subs)
            native_check(chk, cat, ents, [p for p, _ in dl.CATS[cat]['patterns']][:2], names[cat], 'validation', None)


if __name__ == '__main__':
    main('C03', body)
