"""C04 — analysis never aborts on a file the parser accepts (DESIGN.md 6/C04): no path of any of the 30 detectors ends in a
panic on 'hostile' but parseable files, in builds with and without arithmetic overflow checks."""
import z3

from .. import families as fam, oracle, sol, prepare
from ..checklib import main
from ..engine import Adt, Str, VecV
from ..lib import SegStr
from ..native import unhex

ALL = list(oracle.MIR_NAME)


def rich_body(b, lit):
    """statements that exercise every argument list / literal the detectors look into; `lit` builds a number literal"""
    v, n = b.var, b.num
    call = lambda f, *a: b.call(f if not isinstance(f, str) else v(f), list(a))
    return [
        b.expr_stmt(call('require')), b.expr_stmt(call('keccak256')), b.expr_stmt(call('selfdestruct')), b.expr_stmt(call('suicide')),
        b.expr_stmt(call(b.ty('Address'))), b.expr_stmt(call(b.ty('Payable'))), b.expr_stmt(call(b.ty('DynamicBytes'))),
        b.expr_stmt(b.bin('Equal', v('x'), call(b.ty('Address')))), b.expr_stmt(b.bin('NotEqual', call(b.ty('Address'), lit()), v('x'))),
        b.expr_stmt(b.member(call(b.ty('Address')), 'balance')),
        b.expr_stmt(call(b.member(v('x'), 'add'))), b.expr_stmt(call(b.member(v('x'), 'transfer'))),
        b.expr_stmt(call(b.member(v('abi'), 'encode'))),
        b.expr_stmt(b.bin('Multiply', v('y'), lit())), b.expr_stmt(b.bin('Divide', lit(), lit())),
        b.expr_stmt(b.bin('Assign', b.index(v('arr'), lit()), b.bin('Add', b.index(v('arr'), lit()), n(1)))),
        b.expr_stmt(b.bin('Assign', b.index(v('arr')), n(1))),
        b.expr_stmt(b.bin('AssignDivide', v('x'), b.bin('Multiply', lit(), n(3)))),
        b.expr_stmt(call('require', v('c'), b.string(''))), b.expr_stmt(call('require', b.string('only'))),
        b.expr_stmt(call('require', v('c'), Adt('Expression', 'StringLiteral', (VecV([b.strlit('two '), b.strlit('parts')]),)))),
        b.for_(None, None, None, b.block([])), b.for_(None, b.member(v('arr'), 'length'), None, None),
        b.ret(), b.block([], unchecked=True), b.expr_stmt(b.un('PreIncrement', lit())),
        b.try_(call(b.member(b.this(), 'g')), None, [b.catch_named('Error', b.param(b.ty('String'), 'Memory', 'r'), b.block([])),
                                                    b.catch_simple(None, b.block([]))]),
        b.expr_stmt(b.bin('Assign', b.list_([v('x'), None, v('y')]), call('g'))),
        b.expr_stmt(call(b.member(v('msg'), 'sender'))), b.expr_stmt(call('require', b.bin('Equal', b.member(v('msg'), 'sender'), v('o')))),
    ]


def literal_maker(b, kind):
    if kind == 'symbolic':
        c = [0]

        def mk():
            c[0] += 1
            return b.num(sol.DecStr(z3.BitVec('lit%d' % c[0], 262), 262))
        return mk
    if kind == 'big_exponent': return lambda: b.num('1', '40')
    if kind == 'huge_exponent': return lambda: b.num('9', '77')
    if kind == 'zero': return lambda: b.num('0')
    if kind == 'max_u128': return lambda: b.num(str((1 << 128) - 1))
    if kind == 'two_pow_255': return lambda: b.num(str(1 << 255))
    if kind == 'hex': return lambda: b.hexnum('0xffffffffffffffffffffffffffffffffffffffffffffffffffffffffffffffffff')
    if kind == 'rational': return lambda: Adt('Expression', 'RationalNumberLiteral', (b.loc(), Str('1'), Str('5'), Str('')))
    if kind == 'unit': return lambda: b.unit(b.num('2'), 'Ether')
    raise ValueError(kind)


PRAGMAS = ['none', 'experimental_only', 'no_digits', 'double_dot', 'two_components', 'symbolic_big', 'leading_text', 'unicode', 'empty_like']


def pragma_parts(b, kind):
    if kind == 'none': return [], []
    if kind == 'experimental_only': return [b.pragma('experimental', 'ABIEncoderV2'), b.pragma('abicoder', 'v2')], []
    if kind == 'no_digits': return [b.pragma('solidity', 'latest')], []
    if kind == 'double_dot': return [b.pragma('solidity', '0.8..4')], []
    if kind == 'two_components': return [b.pragma('solidity', '^0.8')], []
    if kind == 'leading_text': return [b.pragma('solidity', '>=0.4.22 <0.9.0')], []
    if kind == 'unicode': return [b.pragma('solidity', '0.8.४')], []
    if kind == 'empty_like': return [b.pragma('solidity', '.')], []
    if kind == 'symbolic_big':
        M, m, p = z3.Int('M'), z3.Int('m'), z3.Int('p')
        val = SegStr([('lit', '^'), ('dec', M), ('lit', '.'), ('dec', m), ('lit', '.'), ('dec', p)])
        return [b.pragma('solidity', val)], [M >= 0, m >= 0, p >= 0, M < 2 ** 40, m < 2 ** 40, p < 2 ** 40]
    raise ValueError(kind)


DEEP_KINDS = ('parentheses', 'unary', 'left_deep_add', 'right_deep_power', 'calls', 'members', 'index', 'ternary', 'assign_chain',
              'blocks', 'if_else', 'loops', 'try')
NESTING_BOUND = 64


def tree_depth(v):
    """largest number of Statement / Expression nodes on a path below v"""
    from ..ptgen import direct_subnodes
    own = 1 if v.ty in ('Statement', 'Expression') else 0
    return own + max([tree_depth(c) for c in direct_subnodes(v)] or [0])


def deep_body(b, kind, n):
    v, num = b.var, b.num
    e = b.bin('Add', v('x'), num(1))
    st = None
    for i in range(n):
        if kind == 'parentheses': e = b.paren(e)
        elif kind == 'unary': e = b.un('Not' if i % 2 else 'UnaryMinus', e if sol.level(e) <= 2 else b.paren(e))
        elif kind == 'left_deep_add': e = b.bin('Add', e, v('y'))
        elif kind == 'right_deep_power': e = b.bin('Power', v('y'), e if sol.level(e) <= 3 else b.paren(e))
        elif kind == 'calls': e = b.call(v('f'), [e])
        elif kind == 'members': e = b.member(e if sol.level(e) == 0 else b.paren(e), 'm')
        elif kind == 'index': e = b.index(v('a'), e)
        elif kind == 'ternary': e = b.ternary(v('c'), e if sol.level(e) <= 14 else b.paren(e), v('d'))
        elif kind == 'assign_chain': e = b.bin('Assign', v('z%d' % i), e)
        elif kind == 'blocks': st = b.block([st if st is not None else b.expr_stmt(e)], unchecked=(i % 7 == 3))
        elif kind == 'if_else': st = b.if_(v('c'), b.block([b.expr_stmt(v('q'))]), st if st is not None else b.block([b.expr_stmt(e)]))
        elif kind == 'loops': st = b.for_(None, b.bin('Less', v('i'), b.member(v('arr'), 'length')), None, b.block([st if st is not None else b.expr_stmt(e)]))
        elif kind == 'try': st = b.try_(b.call(b.member(b.this(), 'g'), []), None, [b.catch_simple(None, b.block([st if st is not None else b.expr_stmt(e)]))])
    return b.block([st if st is not None else b.expr_stmt(e)])


def deep_file(b, kind):
    n = NESTING_BOUND
    while tree_depth(deep_body(b, kind, n)) > NESTING_BOUND:
        n -= 1
    body = deep_body(b, kind, n)
    assert tree_depth(body) == NESTING_BOUND or kind in ('loops', 'try', 'if_else', 'members', 'unary', 'right_deep_power', 'ternary'), (kind, n, tree_depth(body))
    f = b.function('Function', 'f', [], [b.fattr('visibility', 'public')], body)
    return b.source_unit([b.pragma('solidity', '0.8.16'), fam.contract_with(b, [b.state_var(b.ty('Uint', 256), 'x'), f])]), []


def hostile_files():
    """(label, builder -> (SourceUnit, base constraints))"""
    out = []
    for pk in PRAGMAS:
        for lk in (['symbolic', 'big_exponent'] if pk in ('none', 'symbolic_big', 'double_dot') else ['zero']):
            def build(b, pk=pk, lk=lk):
                pr, base = pragma_parts(b, pk)
                body = rich_body(b, literal_maker(b, lk))
                c = fam.contract_with(b, [b.using('SafeMath', b.ty('Uint', 256)), b.state_var(b.ty('Uint', 256), 'x'), fam.fn_def(b, body)])
                return b.source_unit(pr + [c]), base
            out.append(('pragma=%s literals=%s' % (pk, lk), build))
    for lk in ('huge_exponent', 'max_u128', 'two_pow_255', 'hex', 'rational', 'unit'):
        def build(b, lk=lk):
            body = rich_body(b, literal_maker(b, lk))
            return b.source_unit([b.pragma('solidity', '0.8.16'), fam.contract_with(b, [fam.fn_def(b, body)])]), []
        out.append(('literals=%s' % lk, build))

    def items(b):
        fn = lambda **kw: fam.fn_def(b, [b.expr_stmt(b.bin('Assign', b.var('x'), b.num(1)))], **kw)
        parts = [b.pragma('solidity', '^0.8.0'),
                 b.supart(fn(attrs=[], name='freeOne')), b.supart(b.function('Function', 'freeNoBody', [], [], None)),
                 b.supart(b.struct('S', [(b.ty('Uint', 8), 'a')])), b.supart(b.struct('Empty', [])),
                 b.supart(b.enum('E', ['A'])), b.supart(b.event('Ev', [(b.ty('Uint', 256), 'v')])), b.supart(b.error('Er', [])),
                 b.supart(b.typedef('T', b.ty('Uint', 256))), b.supart(b.using('L', None)),
                 b.supart(b.state_var(b.ty('Uint', 256), 'K', [b.vattr('constant')], b.num(1))),
                 b.supart(b.loc()),
                 fam.contract_with(b, [], name='EmptyC'), fam.contract_with(b, [b.function('Function', 'i', [b.param(b.ty('String'), 'Memory', None)], [b.fattr('visibility', 'external')], None)], kind='Interface', name='I'),
                 fam.contract_with(b, [fn(attrs=[b.fattr('visibility', 'internal')], name='l')], kind='Library', name='L'),
                 fam.contract_with(b, [b.function('Constructor', None, [b.param(b.index(b.ty('Uint', 256)), 'Memory', 'p')], [], b.block([])),
                                       b.function('Fallback', None, [], [b.fattr('visibility', 'external')], b.block([])),
                                       b.function('Receive', None, [], [b.fattr('visibility', 'external'), b.fattr('mutability', 'payable')], b.block([])),
                                       b.function('Modifier', 'm', [], [], b.block([b.expr_stmt(b.var('_'))])),
                                       b.function('Function', None, [], [b.fattr('visibility', 'external'), b.fattr('mutability', 'payable')], b.block([])),
                                       b.function('Function', None, [b.param(b.ty('DynamicBytes'), 'Memory', None)], [b.fattr('visibility', 'public')],
                                                  b.block([b.expr_stmt(b.call(b.var('selfdestruct'), [b.var('o')]))])),
                                       b.function('Function', 'noattrs', [], [], b.block([b.expr_stmt(b.call(b.var('selfdestruct'), [b.var('o')]))])),
                                       b.state_var(b.mapping(b.ty('Address'), b.ty('Uint', 256)), 'mp'), b.state_var(b.var('T'), 'ut'),
                                       b.state_var(b.index(b.ty('Uint', 8)), 'arr'), b.struct('Inner', []), b.loc()], kind='Abstract', name='A')]
        return b.source_unit(parts), []
    out.append(('every kind of top-level item and member', items))

    def bodyless(b):
        """declarations WITHOUT a body (interface, abstract contract, file level) with everything a detector reads from a function header:
        named / unnamed parameters of every data location, return parameters, modifier invocations with arguments, every visibility"""
        u = lambda: b.ty('Uint', 256)
        hdr = lambda name, params, attrs, returns=(): b.function('Function', name, params, attrs, None, returns)
        iface = [hdr('setName', [b.param(b.ty('String'), 'Memory', 'name_'), b.param(b.ty('DynamicBytes'), 'Calldata', 'data')], [b.fattr('visibility', 'external')]),
                 hdr('sum', [b.param(b.index(u()), 'Memory', 'ids'), b.param(u(), None, 'k')], [b.fattr('visibility', 'external')], [b.param(b.index(u()), 'Memory', 'out')]),
                 hdr('plain', [], [b.fattr('visibility', 'external'), b.fattr('mutability', 'payable')]),
                 hdr('_under', [b.param(b.ty('String'), 'Memory', None)], [b.fattr('visibility', 'external'), b.fattr('mutability', 'view')], [b.param(b.ty('String'), 'Memory', None)])]
        abstract = [b.state_var(u(), 'x'), b.state_var(b.ty('Address'), 'o'),
                    hdr('_hook', [b.param(b.ty('DynamicBytes'), 'Memory', 'payload')], [b.fattr('visibility', 'internal'), b.fattr('virtual')]),
                    hdr('guarded', [b.param(u(), None, 'v')], [b.fattr('visibility', 'public'), b.fattr('modifier', 'atLeast', [b.bin('Assign', b.var('x'), b.var('v'))]), b.fattr('virtual')]),
                    hdr('kill', [], [b.fattr('visibility', 'external'), b.fattr('virtual')]),
                    b.function('Modifier', 'later', [b.param(b.ty('String'), 'Memory', 'why')], [b.fattr('virtual')], None),
                    fam.fn_def(b, [b.expr_stmt(b.call(b.var('selfdestruct'), [b.var('o')]))], name='after')]
        parts = [b.pragma('solidity', '^0.8.4'), b.supart(hdr('freeDecl', [b.param(b.ty('String'), 'Memory', 'text')], [])),
                 fam.contract_with(b, iface, kind='Interface', name='IApi'), fam.contract_with(b, abstract, kind='Abstract', name='Base'),
                 fam.contract_with(b, [fam.fn_def(b, [b.expr_stmt(b.var('note'))], name='run', params=[b.param(b.ty('String'), 'Memory', 'note')])], name='Impl')]
        return b.source_unit(parts), []
    out.append(('declarations without a body', bodyless))

    def receivers(b):
        """the members the detectors look for (`transfer`, `add`, `balance`, `length`, ...) called / read on receivers of EVERY expression shape,
        directly and through one more member access: whatever a detector does with the receiver, it must cope with all of them"""
        v = b.var
        call = lambda f, *a: b.call(f if not isinstance(f, str) else v(f), list(a))
        bases = [lambda: v('t'), lambda: b.index(v('pools'), v('id')), lambda: call('poolOf', v('id')), lambda: b.this(),
                 lambda: b.paren(b.ternary(v('c'), v('t'), v('u'))), lambda: call(b.ty('Address'), v('t')), lambda: call(b.ty('Payable'), b.member(v('msg'), 'sender')),
                 lambda: b.call(b.un('New', v('Token')), []), lambda: b.member(v('msg'), 'sender'), lambda: b.index(b.member(v('s'), 'list'), b.num(0)),
                 lambda: b.paren(b.bin('Add', v('a'), v('d'))), lambda: b.string('text'), lambda: b.num(7)]
        stmts = []
        for mk in bases:
            for mem, args in (('transfer', 2), ('transferFrom', 3), ('approve', 2), ('add', 1), ('div', 1), ('push', 1), ('call', 1)):
                stmts.append(b.expr_stmt(call(b.member(mk(), mem), *[v('x%d' % i) for i in range(args)])))
                stmts.append(b.expr_stmt(call(b.member(b.member(mk(), 'token'), mem), *[v('x%d' % i) for i in range(args)])))
            for mem in ('balance', 'length', 'selector'):
                stmts.append(b.expr_stmt(b.member(mk(), mem)))
                stmts.append(b.for_(None, b.bin('Less', v('i'), b.member(b.member(mk(), 'items'), mem)), None, b.block([])))
        c = fam.contract_with(b, [b.using('SafeMath', b.ty('Uint', 256)), b.state_var(b.ty('Uint', 256), 'x'), fam.fn_def(b, stmts)])
        return b.source_unit([b.pragma('solidity', '^0.8.4'), c]), []
    out.append(('receivers of every expression shape', receivers))

    def tighter_as_declared(b):
        """member lists whose DECLARED order needs fewer slots than the ascending order (8, 248, 128, 128: 2 slots against 3) and lists where
        sorting saves nothing: any arithmetic on the two slot counts must cope with either sign"""
        u = lambda n_: b.ty('Uint', n_)
        lists = [[8, 248, 128, 128], [16, 240, 128, 128, 8], [128, 128, 8, 248], [256], [8, 8], [248, 8, 248, 8], [96, 160, 96, 160, 8, 248]]
        members = []
        for k, sizes in enumerate(lists):
            members.append(b.struct('S%d' % k, [(u(sz), 'm%d' % i) for i, sz in enumerate(sizes)]))
        contracts = [fam.contract_with(b, [b.state_var(u(sz), 'v%d_%d' % (k, i)) for i, sz in enumerate(sizes)], name='C%d' % k) for k, sizes in enumerate(lists)]
        return b.source_unit([b.pragma('solidity', '0.8.16'), fam.contract_with(b, members, name='Structs')] + contracts + [b.supart(b.struct('F', [(u(sz), 'm%d' % i) for i, sz in enumerate(lists[0])]))]), []
    out.append(('member lists that pack tighter as declared than sorted', tighter_as_declared))

    def type_shapes(b):
        """state variables, struct fields, parameters and locals whose TYPE is written in every form the grammar has: elementary, user
        name, qualified name `A.B`, arrays (fixed / dynamic / nested), mappings (nested, user-typed keys), function types"""
        from ..engine import Adt, VecV
        q = lambda: b.member(b.var('Counters'), 'Counter')
        qq = lambda: b.member(b.member(b.var('Lib'), 'Inner'), 'Side')
        fnty = lambda: Adt('Expression', 'Type', (b.loc(), Adt('Type', 'Function', (VecV(()), VecV(()), sol.NONE))))
        tys = [lambda: b.ty('Uint', 256), lambda: b.ty('Bytes', 7), lambda: b.ty('AddressPayable'), lambda: b.var('Token'), q, qq,
               lambda: b.index(q()), lambda: b.index(b.index(b.ty('Uint', 8)), b.num(3)), lambda: b.mapping(b.ty('Address'), q()),
               lambda: b.mapping(b.var('Token'), b.mapping(b.ty('Uint', 8), b.index(b.ty('Bool')))), fnty, lambda: b.ty('String'), lambda: b.ty('DynamicBytes')]
        members = [b.state_var(t(), 'sv%d' % i, [b.vattr('visibility', 'private')] if i % 3 == 0 else []) for i, t in enumerate(tys)]
        members.append(b.struct('Shapes', [(t(), 'f%d' % i) for i, t in enumerate(tys) if i != 10]))
        params = [b.param(t(), 'Memory' if i in (6, 7, 11, 12) else None, 'p%d' % i) for i, t in enumerate(tys) if i not in (8, 9, 10)]
        body = [b.var_stmt(t(), 'l%d' % i, None, 'Memory' if i in (6, 7, 11, 12) else ('Storage' if i in (8, 9) else None)) for i, t in enumerate(tys) if i != 10]
        members.append(b.function('Function', 'shapes', params, [b.fattr('visibility', 'public')], b.block(body)))
        return b.source_unit([b.pragma('solidity', '0.8.16'), fam.contract_with(b, members)]), []
    out.append(('every form of a type in declarations', type_shapes))
    out.append(('empty file', lambda b: (b.source_unit([]), [])))
    out.append(('only a stray semicolon', lambda b: (b.source_unit([b.supart(b.loc())]), [])))
    # nesting depth 64 (the property's bound) in every recursive construct. Nesting depth = the largest number of Statement and
    # Expression nodes on one root-to-leaf path of the parse tree (= recursion depth of the walker below the function);
    # for each construct the largest number of nested occurrences whose tree stays within depth 64 is used
    for kind in DEEP_KINDS:
        out.append(('nesting depth 64: %s' % kind, lambda b, kind=kind: deep_file(b, kind)))
    # definition counts for state variables and struct members too (sums / indices over them must not overflow a narrow integer)
    for nvar in (255, 256, 257, 300):
        def build_vars(b, n=nvar):
            vs = [b.state_var(b.ty('Uint', 256) if i % 2 == 0 else b.ty('Bytes', 32), 'v%d' % i) for i in range(n)]
            st = b.struct('Big', [(b.ty('Uint', 256), 'm%d' % i) for i in range(n)])
            return b.source_unit([b.pragma('solidity', '0.8.16'), fam.contract_with(b, vs + [st])]), []
        out.append(('%d state variables and struct members of 256 bits' % nvar, build_vars))
    for nfun in (0, 1, 2, 255, 256, 257):
        def build(b, nfun=nfun):
            members = [fam.fn_def(b, [], name='f%d' % i) for i in range(nfun)] + [b.function('Constructor', None, [], [], b.block([]))]
            return b.source_unit([b.pragma('solidity', '0.8.16'), fam.contract_with(b, members)]), []
        out.append(('%d functions before the constructor' % nfun, build))
    return out


def job(chk, item):
    idx, detectors, overflow = item
    label, build = hostile_files()[idx]
    import sys
    sys.setrecursionlimit(20000)
    e = chk.engine(overflow_checks=overflow)
    e.max_depth = 2000
    results = []
    for d in detectors:
        b = sol.TreeBuilder()
        su, base = build(b)
        res = fam.run_case(chk, e, d, su, '%s [%s]' % (label, 'checked' if overflow else 'wrapping'),
                           {v.decl().name() for v in b.loc_vars}, oracle_fn=lambda n, ctx: oracle.FREE, base=base,
                           role=d, only_panics=True, no_fallback=not overflow)
        results.append(res)
    # native validation: in the wrapping build only when the engine saw a difference is the second runner needed; the
    # checked runner validates every path
    if overflow:
        fam.flush_validation(chk, results)
    chk.extra_lists.setdefault('per_job', []).append({'file': label, 'overflow_checks': overflow, 'paths': sum(r.paths for r in results)})
    if results and results[0].jobs and idx < 3:
        chk.sample({'hostile file': label, 'source': results[0].jobs[0][2][:600]})


def body(chk):
    files = hostile_files()
    chk.bounds = {'hostile files': len(files), 'detectors': 30, 'overflow modes': ['checked (dev/test profile)', 'wrapping (release profile)'],
                  'number literals': 'symbolic naturals < 2^262 (decimal), exponents up to e77, hex, rational, unit',
                  'version components': 'symbolic naturals < 2^40; malformed values (`0.8..4`, no digits, two components, non-ASCII digit)',
                  'definition counts': [0, 1, 2, 255, 256, 257], 'nesting': 'depth 64 in 13 recursive constructs (parentheses, unary, binary left/right deep, calls, members, index, ternary, assignment chains, blocks, if/else, loops, try/catch)',
                  'outside': 'nesting deeper than the families; the parser itself; stack exhaustion on deeply nested input (the property bounds nesting at 64)'}
    chk.assumptions = ['every Loc is Loc::File, StringLiteral/HexLiteral vectors are non-empty (parser guarantees)',
                       'oracle: any result is acceptable, only termination without panic is required (C05-C09 decide the results)']
    items = []
    for i in range(len(files)):
        for ov in (True, False):
            heavy = 'functions before' in files[i][0] or 'state variables and struct members' in files[i][0]
            dets = ALL if not heavy else (['constructor_order', 'payable_function', 'private_func_leading_underscore', 'unprotected_selfdestruct', 'memory_to_calldata'] if 'functions before' in files[i][0]
                                         else ['pack_storage_variables', 'pack_struct_variables', 'constant_variables', 'immutable_variables', 'private_constant', 'private_vars_leading_underscore', 'sstore'])
            for k in range(0, len(dets), 10):
                items.append((i, dets[k:k + 10], ov))
    chk.parallel(job, items)
    # the step from locations to line numbers is part of analyze_for_*: it must be total too (every text of up to 4 characters with
    # symbolic byte widths, every offset at which a token can start)
    from . import c02
    for T in ((2, 3) if chk.quick else (1, 2, 3, 4, 5)):
        c02.check_line_number(chk, T, only_panics=True)
    end_to_end(chk)


NON_ASCII = {
    'non-ASCII identifiers at the start of flagged constructs': '''pragma solidity ^0.8.16;
contract Zähler {
    uint256 étape;
    uint256 private größe;
    address[] 名前;
    function ärger(uint256 übung) internal returns (uint256) {
        étape = étape + 1;
        übung++;
        for (uint256 ï = 0; ï < 名前.length; ï++) { étape += 1; }
        require(übung > 0, "größer als null: la valeur doit être strictement positive");
        return übung * 2 / 4 * 8;
    }
    function öffnen() public { selfdestruct(payable(msg.sender)); }
    constructor() { étape = 1; }
}
''',
    'multi-byte text in comments and strings before every construct': '''// ÄÖÜ — ünïcödé ✓ 日本語 𝄞
pragma solidity 0.8.3;
/* çomment € */ contract C { /// 𝄞𝄞
    string s = unicode"日本語 € 𝄞"; uint128 a; uint256 b; uint128 c;
    /* € */ function f(uint256 x, string memory t) public { /* 𝄞 */ x = x + 1; /* é */ require(x > 1, unicode"€€€€€€€€€€€€€€€€€€€€€€€€€€€€€€€€€"); b = x; }
}
''',
}


def end_to_end(chk):
    """the compiled analyze_for_* (parser + detector + line numbers) on every hostile file and on files with multi-byte characters
    wherever the lexer accepts them: no job may end in a panic"""
    texts = dict(NON_ASCII)
    for label, build in hostile_files():
        try:
            b = sol.TreeBuilder()
            su, base = build(b)
            s = z3.Solver(); s.add(*base)
            if s.check() != z3.sat:
                continue
            su = sol.concretize(su, {}, s.model())
            texts[label] = sol.print_source(su)[0]
        except Exception:
            continue                      # members that cannot be printed are covered by the per-path validation above
    from .. import reportlib as rl
    jobs, meta = [], []
    for label, text in texts.items():
        path = chk.native.file(text)
        for cat in ('opt', 'vul', 'qa'):
            for _, name in rl.CATS[cat]['table']:
                jobs.append(['analyze', cat, name, path]); meta.append((label, cat, name, text))
    for (label, cat, name, text), res in zip(meta, chk.native.run(jobs)):
        chk.states += 1
        if res[0] in ('OK', 'PARSE_ERROR'):
            chk.ok(); continue
        chk.violation('%s:panic:end-to-end' % name, 'analyze_for_%s(%s) aborts on `%s`: %r' % (cat, name, label, res[1:]),
                      {'job': 'analyze', 'category': cat, 'detector': name, 'source': text, 'observed': res})
    chk.extra['end_to_end_files'] = sorted(texts)
    chk.sample({'end to end': '%d files x 30 detectors through the compiled analyze_for_*' % len(texts)})


if __name__ == '__main__':
    main('C04', body)
