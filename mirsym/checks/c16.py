"""C16 — only Solidity sources are analysed; test files and other files are inert (DESIGN.md 6/C16)."""
import os

import z3

from .. import dirlib as dl
from ..checklib import main
from ..engine import Str
from ..lib import NameStr, NAME_ALPHABET


def name_conditions(nm):
    """(ends with .sol, lower-case form ends with .t.sol, lower-case form contains .t.sol) as Z3 terms"""
    lo = nm.lower()
    b = lambda x: z3.BoolVal(x) if isinstance(x, bool) else x
    return b(nm.ends_with('.sol')), b(lo.ends_with('.t.sol')), b(lo.contains('.t.sol'))


def job(chk, item):
    cat, cases = item
    e = chk.engine()
    pats = [p for p, _ in dl.CATS[cat]['patterns']][:1]
    names = dict(dl.CATS[cat]['patterns'])
    for (length, depth, binary) in cases:
        nm, cons = NameStr.fresh('n', length)
        ent = ('file', nm, 'sym', 'binary') if binary else ('file', nm, 'sym')
        ents = [('file', 'fixed.sol', 'fix'), ent]
        for d in range(depth):
            ents = [('dir', 'sub%d' % d, ents), ('file', 'top%d.sol' % d, 'top%d' % d)]
        tree = dl.Tree(ents)
        fres = {(f['tag'], pats[0]): 'nonempty' for f in tree.files()}
        dl.install_stubs(e, cat, tree, fres)
        old = e.explore

        def explore(run, **kw):
            kw['base_constraints'] = cons
            return old(run, **kw)
        e.explore = explore
        try:
            paths = dl.run_dir(e, cat, tree, pats, listing_symbolic=False)
        finally:
            e.explore = old
        sol, tsol_end, tsol_any = name_conditions(nm)
        rec = [f for f in tree.files() if f['tag'] == 'sym'][0]
        label = '%s name of %d characters at depth %d%s' % (cat, length, depth, ' (binary content)' if binary else '')
        for r in paths:
            if r.outcome == 'unsupported':
                chk.undecide('%s: %s' % (label, r.value))
                native_name_family(chk, cat, pats, names)
                continue
            s = z3.Solver(); s.add(*cons); s.add(*r.pc)
            if s.check() != z3.sat:
                continue
            read = rec['path'] in r.extra.get('reads', [])
            analysed = ('sym', pats[0]) in r.extra.get('calls', [])
            contributed = r.outcome == 'return' and any(nmv is rec['name'] for _, nmv, _ in dl.result_triples(r))
            others_ok = r.outcome == 'return' and sum(1 for _, nmv, _ in dl.result_triples(r) if nmv is not rec['name']) == 1 + depth
            bad = []
            # must be inert: not a .sol name, or a test file
            inert = z3.Or(z3.Not(sol), tsol_end)
            must = z3.And(sol, z3.Not(tsol_any))
            if read or analysed or contributed or r.outcome == 'panic' or not others_ok:
                bad.append((inert, 'a file that must be inert is %s' % ('read' if read else 'analysed' if analysed else 'able to disturb the run')))
            if not (analysed and contributed) and not binary:
                bad.append((must, 'an eligible file is not analysed'))
            viol = None
            for cond, why in bad:
                chk.queries += 1
                s.push(); s.add(cond)
                if s.check() == z3.sat:
                    viol = (s.model(), why)
                s.pop()
                if viol:
                    break
            if viol is None:
                chk.ok()
                validate_path(chk, cat, ents, nm, s, r, contributed, pats, names, label)
                continue
            confirm(chk, cat, ents, nm, viol, pats, names, label, binary)
        chk.sample({'family': label, 'paths': len(paths), 'alphabet': NAME_ALPHABET}) if length in (5, 7) and depth == 0 else None


def validate_path(chk, cat, ents, nm, s, r, contributed, pats, names, label):
    """translator validation: one concrete name of this path, a real directory, the real analyze_dir -- it must do what the engine's path does"""
    if s.check() != z3.sat:
        return
    text = nm.render(s.model())
    if '/' in text or text in ('.', '..') or not text.strip() or text in ('fixed.sol',) or text.startswith('top') or text.startswith('sub'):
        return
    conc = rename(ents, nm, text)
    root = os.path.join(chk.native.dir, 'tree%d' % chk.native.n)
    chk.native.n += 1
    pn = [names[p] for p in pats]
    dl.materialise(conc, root, lambda tag: pn)
    res = chk.native.run([['analyze_dir', cat, root, ','.join(pn)]])[0]
    chk.validated += 1
    if r.outcome == 'panic':
        if res[0] == 'OK':
            chk.broken('%s: the engine predicts a panic for the name %r, the real analyze_dir returns normally' % (label, text))
        return
    if res[0] != 'OK':
        chk.broken('%s: the engine predicts a normal return for the name %r, the real analyze_dir: %r' % (label, text, res))
    listed = any(dl.unhex(item.split('|')[1]) == text for item in (res[1].split(';') if res[1] else []))
    if listed != contributed:
        chk.broken('%s: name %r: engine says the file %s to the result, the real analyze_dir says it %s' % (
            label, text, 'contributes' if contributed else 'does not contribute', 'does' if listed else 'does not'))


_FAMILY_DONE = set()
FILE_NAMES = ['a.sol', 'A.SOL', 'b.Sol', 'a.t.sol', 'A.T.Sol', 'x.T.SOL', '.sol', '.a.sol', '..sol', 'a.b.sol', '.t.ſol.sol', 'ſ.sol', 'sol', 'a.txt', '日a.md', 'メモb.txt',
              'a.sol ', ' a.sol', 'a.solx', 'a.sol.txt', 't.sol', 'at.sol', 'a.tt.sol',
              # near misses of the test-file marker: one other character where the marker has its second dot, nothing there, the marker cut short
              'Vault.t_sol.sol', 'Pool.tmsol.sol', 'a.t-sol.sol', 'b.tsol.sol', 'c.t.so.sol', 'd.t.sol', 'e.txsol', 'f_t.sol', 'g.t..sol']
DIR_NAMES = ['d', 'x.t.sol', '.hidden', 'T.SOL', 'a.sol', 'sp ace', 'ünï', '.t.ſol', 'lib\\v1', 'a:b', 'q?*[x]', '-dash', '~tilde', '$var', '%41']


def native_name_family(chk, cat, pats, names):
    """DESIGN 4.4: when the name test cannot be encoded, the compiled analyze_dir is still held against the eligibility rule on a family
    of concrete file and directory names (once per category)"""
    if cat in _FAMILY_DONE:
        return
    _FAMILY_DONE.add(cat)
    pn = [names[p] for p in pats]
    for dname in DIR_NAMES:
        root = os.path.join(chk.native.dir, 'fam%d' % chk.native.n)
        chk.native.n += 1
        ents = [('dir', dname, [('file', fn_, 't%d' % i) + (('binary',) if not dl.eligible(fn_) and i % 2 else ()) for i, fn_ in enumerate(FILE_NAMES)]), ('file', 'fixed.sol', 'fix')]
        dl.materialise(ents, root, lambda tag: pn)
        got, want, raw = dl.native_union(chk, cat, root, pn)
        chk.states += 1
        # names that contain `.t.sol` without ending in it are left to either reading (see DESIGN C16)
        unclear = {f for f in FILE_NAMES if dl.eligible(f) is False and f.endswith('.sol') and not f.lower().endswith('.t.sol')}
        strip = lambda lst: sorted(x for x in (lst or []) if x[1] not in unclear)
        if got is None or strip(got) != strip(want):
            missing = sorted({x[1] for x in strip(want)} - {x[1] for x in strip(got or [])})
            extra = sorted({x[1] for x in strip(got or [])} - {x[1] for x in strip(want)})
            chk.violation('%s:eligibility:name-family' % cat, '%s: files below the directory %r: not analysed although eligible %r, analysed although not eligible %r%s' % (
                cat, dname, missing, extra, '' if got is not None else ' (%r)' % (raw,)), {'job': 'analyze_dir', 'category': cat, 'tree': ents, 'patterns': pn, 'expected': want, 'observed': got if got is not None else raw})
        else:
            chk.ok()


def dir_job(chk, item):
    """the NAME of a directory never matters: an eligible file below a directory whose name is symbolic is analysed exactly like
    anywhere else (eligibility is a property of the file's own name)"""
    cat, lengths = item
    e = chk.engine()
    pats = [p for p, _ in dl.CATS[cat]['patterns']][:1]
    names = dict(dl.CATS[cat]['patterns'])
    for length in lengths:
        nm, cons = NameStr.fresh('d', length)
        ents = [('dir', nm, [('file', 'inner.sol', 'in'), ('dir', 'deeper', [('file', 'low.sol', 'low')])]), ('file', 'fixed.sol', 'fix')]
        tree = dl.Tree(ents)
        fres = {(f['tag'], pats[0]): 'nonempty' for f in tree.files()}
        dl.install_stubs(e, cat, tree, fres)
        old = e.explore

        def explore(run, **kw):
            kw['base_constraints'] = cons
            return old(run, **kw)
        e.explore = explore
        try:
            paths = dl.run_dir(e, cat, tree, pats, listing_symbolic=False)
        finally:
            e.explore = old
        label = '%s directory name of %d characters' % (cat, length)
        for r in paths:
            if r.outcome == 'unsupported':
                chk.undecide('%s: %s' % (label, r.value)); continue
            s = z3.Solver(); s.add(*cons); s.add(*r.pc)
            if s.check() != z3.sat:
                continue
            got = sorted(t for t, p_ in r.extra.get('calls', [])) if r.outcome == 'return' else None
            ok_ = r.outcome == 'return' and got == ['fix', 'in', 'low'] and len(dl.result_triples(r)) == 3
            text = nm.render(s.model())
            if ok_:
                chk.ok(); continue
            if '/' in text or text in ('.', '..') or not text.strip():
                chk.ok(); continue
            # confirm on a real directory of that name
            conc = [('dir', text, ents[0][2]), ents[1]]
            root = os.path.join(chk.native.dir, 'tree%d' % chk.native.n)
            chk.native.n += 1
            pn = [names[p] for p in pats]
            dl.materialise(conc, root, lambda tag: pn)
            gotn, want, raw = dl.native_union(chk, cat, root, pn)
            chk.validated += 1
            if gotn is not None and sorted(gotn) == sorted(want):
                chk.broken('%s: engine says the files below the directory %r are not all analysed (%r), the real analyze_dir analyses them' % (label, text, got))
            chk.violation('%s:eligibility:directory-name-matters' % cat, '%s %r: analyze_dir returned %r, the union over the eligible files below it is %r' % (label, text, gotn if gotn is not None else raw, want),
                          {'job': 'analyze_dir', 'category': cat, 'tree': conc, 'patterns': pn, 'expected': want, 'observed': gotn if gotn is not None else raw})
        chk.sample({'directory names': label, 'paths': len(paths)}) if length == 6 else None


def rename(ents, nm, text):
    out = []
    for e_ in ents:
        if e_[0] == 'dir':
            out.append(('dir', e_[1], rename(e_[2], nm, text)))
        elif e_[1] is nm:
            out.append(('file', text) + tuple(e_[2:]))
        else:
            out.append(e_)
    return out


def confirm(chk, cat, ents, nm, viol, pats, names, label, binary):
    model, why = viol
    text = nm.render(model)
    if '/' in text or text in ('.', '..') or not text.strip():
        chk.ok(); return                      # not a usable file name on this file system
    conc = rename(ents, nm, text)
    root = os.path.join(chk.native.dir, 'tree%d' % chk.native.n)
    chk.native.n += 1
    pn = [names[p] for p in pats]
    dl.materialise(conc, root, lambda tag: pn)
    # reference: the same tree without the file (inert files) / with it (eligible files)
    got, want, raw = dl.native_union(chk, cat, root, pn)
    inert = not text.endswith('.sol') or text.lower().endswith('.t.sol')
    unclear = (not inert) and '.t.sol' in text.lower()
    chk.validated += 1
    if unclear:
        chk.ok(); return
    if inert:
        want = [w for w in want if w[1] != text]
    okk = got is not None and sorted(got) == sorted(want)
    if okk and inert and not binary and 'read' in why:
        # the file is read although it must be inert: observable only if its bytes can make the read fail
        def as_binary(es):
            return [('dir', x[1], as_binary(x[2])) if x[0] == 'dir' else (x + ('binary',) if x[1] == text else x) for x in es]
        root2 = os.path.join(chk.native.dir, 'tree%d' % chk.native.n)
        chk.native.n += 1
        conc2 = as_binary(conc)
        dl.materialise(conc2, root2, lambda tag: pn)
        got2, want2, raw2 = dl.native_union(chk, cat, root2, pn)
        want2 = [w_ for w_ in want2 if w_[1] != text]
        if got2 is not None and sorted(got2) == sorted(want2):
            chk.ok()
            return
        got, want, raw, conc, okk = got2, want2, raw2, conc2, False
    if okk:
        chk.broken('%s: engine says "%s" for the name %r but the real analyze_dir behaves as required' % (label, why, text))
    chk.violation('%s:eligibility:%s' % (cat, 'inert-file-not-inert' if inert else 'eligible-file-skipped'),
                  '%s: file name %r: %s; analyze_dir returned %r, expected %r' % (label, text, why, got if got is not None else raw, want),
                  {'job': 'analyze_dir', 'category': cat, 'tree': conc, 'patterns': pn, 'expected': want, 'observed': got if got is not None else raw})


def body(chk):
    lengths = [4, 5, 6, 7, 8, 10] if chk.quick else [1, 2, 3, 4, 5, 6, 7, 8, 9, 10, 11]
    cases = []
    for L in lengths:
        cases.append((L, 0, False))
        cases.append((L, 0, True))
    cases += [(6, 1, False), (7, 2, True), (5, 1, True)]
    chk.bounds = {'file name': 'symbolic, %s characters over the alphabet %r (Z3 decides suffix / containment / case folding for every name)' % (lengths, NAME_ALPHABET),
                  'content': 'valid text or bytes that are not UTF-8', 'depth': '0..2 sub-directories', 'categories': 3,
                  'directory name': 'symbolic as well (same alphabet, %s characters quick): files below it are analysed whatever it is called' % '5..7',
                  'outside': 'longer names, other alphabets; names that contain `.t.sol` without ending in it are left unconstrained (see DESIGN.md C16)'}
    chk.assumptions = ['fs contracts; read_to_string of non-UTF-8 bytes returns Err', 'to_lowercase modelled per character on the alphabet']
    items = []
    for cat in dl.CATS:
        for k in range(0, len(cases), 3):
            items.append((cat, cases[k:k + 3]))
    chk.parallel(job, items)
    dlens = [5, 6, 7] if chk.quick else [1, 2, 3, 4, 5, 6, 7, 8, 9]
    chk.parallel(dir_job, [(cat, [L]) for cat in dl.CATS for L in dlens])


if __name__ == '__main__':
    main('C16', body)
