"""C13 — the report is a deterministic function of the set of findings (DESIGN.md 6/C13): for the same set of findings, every
insertion order of patterns, every discovery order of files and every iteration order of the HashMap (the per-process hash
seed is a universally quantified choice in the model) must give the same text."""
import itertools

import z3

from .. import reportlib as rl
from ..checklib import main
from ..lib import CatStr
from ..native import unhex


def orders(shape, limit):
    """same findings, different insertion orders of patterns and of the file entries of each pattern: lists of index maps"""
    pats = list(range(len(shape)))
    out = []
    for pp in itertools.permutations(pats):
        file_perms = [list(itertools.permutations(range(len(shape[i][1])))) for i in pp]
        for fp in itertools.product(*file_perms):
            out.append((pp, fp))
            if len(out) >= limit:
                return out
    return out


def parts_of(v):
    if isinstance(v, CatStr):
        return list(v.parts)
    return [v.v] if v.concrete else [v]


def differ_query(s, a, b):
    """is there a value of the symbols (within the solver's assertions) for which the two texts differ?"""
    pa, pb = parts_of(a), parts_of(b)
    def same(x, y):
        return (isinstance(x, str) and isinstance(y, str) and x == y) or \
               (not isinstance(x, str) and not isinstance(y, str) and x.z().eq(y.z()))
    while pa and pb and same(pa[0], pb[0]):
        pa, pb = pa[1:], pb[1:]
    while pa and pb and same(pa[-1], pb[-1]):
        pa, pb = pa[:-1], pb[:-1]
    if not pa and not pb:
        return None
    za = CatStr(pa).z() if pa else z3.StringVal('')
    zb = CatStr(pb).z() if pb else z3.StringVal('')
    s.push()
    s.add(za != zb)
    r = s.check()
    m = s.model() if r == z3.sat else None
    s.pop()
    return m if r == z3.sat else ('unknown' if r == z3.unknown else None)


def job(chk, item):
    cat, shapes = item
    e = chk.engine()
    for shape in shapes:
        base_f = rl.Findings(cat, shape)
        runs = []
        for (pp, fp) in orders(shape, 6 if chk.quick else 24):
            f = rl.Findings.__new__(rl.Findings)
            f.cat, f.base = cat, base_f.base
            f.items = [(base_f.items[i][0], [base_f.items[i][1][j] for j in fp[k]]) for k, i in enumerate(pp)]
            for sym in (False, True):
                try:
                    paths = rl.run_report(e, cat, f, symbolic_order=sym)
                except Exception as ex:
                    chk.undecide('%s %r: %s' % (cat, shape, ex)); paths = []
                for r in paths:
                    runs.append((f, sym, r))
        if any(r.outcome == 'unsupported' for _, _, r in runs):
            chk.undecide('%s %r: %s' % (cat, shape, [r.value for _, _, r in runs if r.outcome == 'unsupported'][0]))
            native_orders(chk, cat, base_f)
            continue
        ref = None
        for f, sym, r in runs:
            if r.outcome != 'return':
                continue
            if ref is None:
                ref = (f, r)
        # compare every path with every path of the first ordering whose path condition is compatible
        firsts = [(f, r) for f, sym, r in runs if f is runs[0][0] and not sym and r.outcome == 'return']
        for f, sym, r in runs:
            if r.outcome != 'return':
                continue
            for f0, r0 in firsts:
                if r is r0:
                    continue
                s = z3.Solver(); s.add(*base_f.base); s.add(*r.pc); s.add(*r0.pc)
                chk.queries += 1
                if s.check() != z3.sat:
                    continue
                if rl.flat(r.value) == rl.flat(r0.value):
                    chk.ok(); continue
                m = differ_query(s, r.value, r0.value)
                chk.queries += 1
                if m is None:
                    chk.ok(); continue
                if m == 'unknown':
                    chk.undecide('%s %r: solver unknown on text difference' % (cat, shape)); continue
                confirm(chk, cat, base_f, f0, f, m, sym)
        # translator validation: the text the engine computes on each path of the first ordering is the text the real generator prints
        vjobs, vmeta = [], []
        for f0, r0 in firsts:
            sv = z3.Solver(); sv.add(*base_f.base); sv.add(*r0.pc)
            if sv.check() != z3.sat:
                continue
            m = sv.model()
            vjobs.append(['report', cat, f0.spec(m)])
            vmeta.append((r0.value.render(m) if hasattr(r0.value, 'render') else r0.value.v, f0.concretize(m)))
        for (pred, conc), nat in zip(vmeta, chk.native.run(vjobs) if vjobs else []):
            chk.validated += 1
            if nat[0] != 'OK' or unhex(nat[1]) != pred:
                chk.broken('%s report for %r: the engine predicts a different text than the real generator\npredicted: %r\nreal: %r' % (
                    cat, conc, pred[:300], unhex(nat[1])[:300] if nat[0] == 'OK' else nat))
        chk.sample({'category': cat, 'shape': shape, 'orderings x iteration modes': len({(id(f), sym) for f, sym, _ in runs}), 'paths': len(runs)})


def job_full(chk, shapes):
    """the whole pipeline generate_report (what the binary calls): the text written to solstat_report.md may not depend on the
    insertion / discovery order either"""
    e = chk.engine()
    f = e.func('generate_report')
    for shape in shapes:
        base_f = rl.Findings('opt', shape)
        empty_v, empty_q = rl.Findings('vul', []), rl.Findings('qa', [])
        runs = []
        for (pp, fp) in orders(shape, 6 if chk.quick else 24):
            ff = rl.Findings.__new__(rl.Findings)
            ff.cat, ff.base = 'opt', base_f.base
            ff.items = [(base_f.items[i][0], [base_f.items[i][1][j] for j in fp[k]]) for k, i in enumerate(pp)]
            try:
                paths = e.explore(lambda en: en.call_mir(f, [empty_v.value(), ff.value(), empty_q.value()]), base_constraints=base_f.base, max_paths=20000)
            except Exception as ex:
                chk.undecide('generate_report %r: %s' % (shape, ex)); paths = []
            for r in paths:
                runs.append((ff, r))
        if any(r.outcome == 'unsupported' for _, r in runs):
            chk.undecide('generate_report %r: %s' % (shape, [r.value for _, r in runs if r.outcome == 'unsupported'][0]))
            native_full_orders(chk, base_f)
            continue
        texts = lambda r: r.extra.get('writes', [(None, None)])[0][1]
        firsts = [(ff, r) for ff, r in runs if ff is runs[0][0] and r.outcome == 'return']
        for ff, r in runs:
            if r.outcome != 'return':
                continue
            for f0, r0 in firsts:
                if r is r0:
                    continue
                s = z3.Solver(); s.add(*base_f.base); s.add(*r.pc); s.add(*r0.pc)
                chk.queries += 1
                if s.check() != z3.sat:
                    continue
                if rl.flat(texts(r)) == rl.flat(texts(r0)):
                    chk.ok(); continue
                m = differ_query(s, texts(r), texts(r0))
                if m is None:
                    chk.ok(); continue
                if m == 'unknown':
                    chk.undecide('generate_report %r: solver unknown' % (shape,)); continue
                specs = [f0.spec(m), ff.spec(m)]
                seen = native_full(chk, specs)
                if len(seen) <= 1:
                    chk.broken('generate_report: engine found two different reports for %r, the real generator writes the same file' % (base_f.concretize(m),))
                chk.violation('full:report-order', 'generate_report writes %d different files for the SAME findings %r given in different orders (%r)' % (len(seen), base_f.concretize(m), specs),
                              {'job': 'fullreport', 'findings_orders': specs})
        chk.sample({'generate_report': shape, 'orders': len({id(ff) for ff, _ in runs})})


def native_full(chk, specs):
    import os
    seen = set()
    for rep in range(4):
        for sp in specs:
            d = os.path.join(chk.native.dir, 'full%d' % chk.native.n)
            chk.native.n += 1
            os.makedirs(d)
            r = chk.native.run([['fullreport', '', sp, '', d]])[0]
            seen.add(unhex(r[1]) if r[0] == 'OK' else 'PANIC ' + str(r[1:]))
    return seen


def native_full_orders(chk, base_f):
    names = [nm.rank for _, es in base_f.items for nm, _ in es]
    lines = [ls for _, es in base_f.items for _, ls in es]
    extras = [[], [names[0] == n for n in names[1:]]]
    if len(names) > 2:
        extras.append([names[0] == names[1], names[0] != names[2]] + [a == b for a, b in zip(lines[0], lines[1])])
    for extra in extras:
        s = z3.Solver(); s.add(*base_f.base); s.add(*extra)
        if s.check() != z3.sat:
            continue
        m = s.model()
        specs = []
        for (pp, fp) in orders(base_f.shape, 12):
            ff = rl.Findings.__new__(rl.Findings)
            ff.cat = 'opt'
            ff.items = [(base_f.items[i][0], [base_f.items[i][1][j] for j in fp[k]]) for k, i in enumerate(pp)]
            specs.append(ff.spec(m))
        seen = native_full(chk, specs)
        chk.states += len(specs)
        if len(seen) > 1:
            chk.violation('full:report-order', 'generate_report writes %d different files for the same findings %r given in different orders' % (len(seen), base_f.concretize(m)),
                          {'job': 'fullreport', 'findings_orders': specs})
            return


def native_texts(chk, cat, specs, repeat):
    jobs = []
    for sp in specs:
        jobs.append(['report', cat, sp])
    texts = set()
    for _ in range(repeat):                      # every run of the runner is a new process = a new hash seed
        for r in chk.native.run(jobs):
            texts.add(unhex(r[1]) if r[0] == 'OK' else 'PANIC ' + str(r[1:]))
    return texts


def confirm(chk, cat, base_f, f0, f1, m, sym):
    specs = [f0.spec(m), f1.spec(m)]
    texts = native_texts(chk, cat, specs, 12)
    conc = base_f.concretize(m)
    if len(texts) <= 1:
        chk.broken('%s: engine found two different reports for the findings %r but the real generator always prints the same text' % (cat, conc))
    role = 'hash-iteration-order' if sym and specs[0] == specs[1] else 'insertion-or-discovery-order' if not sym else 'order'
    chk.violation('%s:report-order:%s' % (cat, role),
                  '%s report of the SAME findings %r rendered %d different texts (insertion orders %r)' % (cat, conc, len(texts), specs),
                  {'job': 'report', 'category': cat, 'findings_orders': specs, 'distinct_texts': sorted(texts)[:2]})


def native_orders(chk, cat, base_f):
    """fallback: sample models, all insertion orders, several processes"""
    names = [nm.rank for _, es in base_f.items for nm, _ in es]
    for extra in ([], [names[0] == n for n in names[1:]]):
        s = z3.Solver(); s.add(*base_f.base); s.add(*extra)
        if s.check() != z3.sat:
            continue
        m = s.model()
        specs = []
        shape = base_f.shape
        for (pp, fp) in orders(shape, 12):
            f = rl.Findings.__new__(rl.Findings)
            f.cat = cat
            f.items = [(base_f.items[i][0], [base_f.items[i][1][j] for j in fp[k]]) for k, i in enumerate(pp)]
            specs.append(f.spec(m))
        texts = native_texts(chk, cat, specs, 6)
        chk.states += len(specs)
        if len(texts) > 1:
            chk.violation('%s:report-order:native' % cat, '%s report of the same findings %r rendered %d different texts' % (cat, base_f.concretize(m), len(texts)),
                          {'job': 'report', 'category': cat, 'findings_orders': specs, 'distinct_texts': sorted(texts)[:2]})


def whole_runs(chk):
    """the compiled binary, the same directory several times (every process has its own hash seed, and the directory is listed in the
    order the file system happens to give): every run must leave byte-identical reports"""
    import os
    import subprocess
    from . import c15
    from .. import dirlib as dl, sol
    root = os.path.join(chk.native.dir, 'runs%d' % chk.native.n); chk.native.n += 1
    os.makedirs(os.path.join(root, 'proj', 'sub', 'deep'))
    probe, _ = sol.print_source(c15.probe_file(sol.TreeBuilder()), wrap_params=True)
    files = {'Probe.sol': probe, 'sub/Probe.sol': '\n' + probe, 'sub/deep/Other.sol': dl.file_text(['solidity_math', 'sstore', 'divide_before_multiply', 'constructor_order'], 3),
             'Many.sol': 'pragma solidity ^0.8.16;\ncontract M {\n%s}\n' % ''.join(
                 '    function f%d(\n        uint256[] memory a%d,\n        string memory b%d,\n        bytes memory c%d\n    ) external { a%d; }\n' % ((i,) * 5) for i in range(6))}
    # two contracts of ONE file that declare state variables of the same names on different lines (each contract has its own): whichever
    # declaration a detector's name table keeps must not depend on the process
    files['Twins.sol'] = ('pragma solidity 0.8.16;\ncontract Vault {\n    uint256 fee;\n    address owner;\n    uint256 private cap;\n}\n'
                          'contract Router {\n    address unused;\n    uint256 private cap;\n    uint256 fee;\n\n    address owner;\n}\n'
                          'contract Third {\n\n\n    address owner;\n    uint256 fee;\n    uint256 private cap;\n}\n')
    # the probe with one token per line: nested constructs begin on lines of their own, so whatever a detector does with the ORDER of its
    # hash containers shows in the reported lines
    spread, in_str = [], False
    for ln in probe.split('\n'):
        if ln.startswith('pragma'):
            spread.append(ln); continue
        out_ln = []
        for ch in ln:
            if ch == '"':
                in_str = not in_str
            out_ln.append('\n' if ch == ' ' and not in_str and out_ln and out_ln[-1] not in ' \n' else ch)
        spread.append(''.join(out_ln))
    files['Spread.sol'] = '\n'.join(spread)
    # entries that are not analysed are part of the directory content too: wherever the listing puts them, the report is the same
    files.update({'Probe.t.sol': probe, 'README.md': '# readme\n', 'sub/abi.json': '{}\n', 'sub/Setup.t.sol': dl.file_text(['sstore', 'floating_pragma'], 1),
                  'sub/deep/.gitkeep': ''})
    # ... and a symbolic link to a contract of the same tree (two names, one file): both names are entries of the directory content
    files['sub/AliasOfMany.sol'] = ('symlink', '../Many.sol')
    for rel, text in files.items():
        if isinstance(text, tuple):
            os.symlink(text[1], os.path.join(root, 'proj', rel))
        else:
            open(os.path.join(root, 'proj', rel), 'w').write(text)
    binary = os.path.join(chk.world.build, 'solstat')
    n = 12 if chk.quick else 40
    seen = {}
    for i in range(n):
        cwd = os.path.join(root, 'cwd%d' % (i % 2))
        os.makedirs(cwd, exist_ok=True)
        if i in (2, 3, 5):
            # what an earlier run over a bigger project may have left behind: the same findings must still give the same bytes
            open(os.path.join(cwd, 'solstat_report.md'), 'w').write(('# Gas Optimizations - (Total Optimizations 99999)\n' + '- Old.sol:%d\n' % i) * 40000)
        p = subprocess.run([binary, '--path', os.path.join(root, 'proj')], cwd=cwd, stdout=subprocess.PIPE, stderr=subprocess.PIPE)
        rp = os.path.join(cwd, 'solstat_report.md')
        text = open(rp, 'rb').read() if p.returncode == 0 and os.path.exists(rp) else ('exit %d' % p.returncode).encode()
        seen.setdefault(text, []).append(i)
        chk.states += 1
    chk.validated += 1
    if len(seen) > 1:
        a, b_ = list(seen)[:2]
        k = next((i for i in range(min(len(a), len(b_))) if a[i] != b_[i]), min(len(a), len(b_)))
        chk.violation('run:report-differs-between-runs', '%d runs of the binary over the same directory wrote %d different reports; first difference at byte %d: %r / %r' % (
            n, len(seen), k, a[max(0, k - 40):k + 30], b_[max(0, k - 40):k + 30]), {'job': 'solstat', 'files': files, 'runs': n})
    else:
        chk.ok()
    creation_histories(chk, files, binary)
    configuration_orders(chk, root, binary)
    chk.sample({'whole runs': '%d runs of the compiled binary over a directory of %d files (probe with one parameter per line, nested directories): identical reports' % (n, len(files))})


def configuration_orders(chk, root, binary):
    """the same patterns configured in different orders (a name listed twice, next to itself or apart, in one or another letter case):
    the reports over the same directory must be byte-identical"""
    import os
    import subprocess
    lists = {'optimizations': ['sstore', 'solidity_math', 'increment_decrement', 'sstore'], 'vulnerabilities': ['floating_pragma', 'divide_before_multiply', 'floating_pragma'],
             'qa': ['constructor_order', 'private_vars_leading_underscore', 'Constructor_Order']}
    orders = []
    for k in range(5 if chk.quick else 12):
        cfg = {}
        for key, names in lists.items():
            o = list(names)
            if k == 1:
                o = sorted(o, key=str.lower)          # the repeated names next to each other
            elif k == 2:
                o = o[::-1]
            elif k > 2:
                chk.rng.shuffle(o)
            cfg[key] = o
        orders.append(cfg)
    seen = {}
    for i, cfg in enumerate(orders):
        cwd = os.path.join(root, 'cfg%d' % i)
        os.makedirs(cwd)
        open(os.path.join(cwd, 'c.toml'), 'w').write('path = "%s"\n' % os.path.join(root, 'proj') + ''.join('%s = [%s]\n' % (k_, ', '.join('"%s"' % n_ for n_ in v_)) for k_, v_ in cfg.items()))
        p = subprocess.run([binary, '--toml', 'c.toml'], cwd=cwd, stdout=subprocess.PIPE, stderr=subprocess.PIPE)
        rp = os.path.join(cwd, 'solstat_report.md')
        text = open(rp, 'rb').read() if p.returncode == 0 and os.path.exists(rp) else ('exit %d: ' % p.returncode).encode() + p.stderr[-200:]
        seen.setdefault(text, []).append(cfg)
        chk.states += 1
    chk.validated += 1
    if len(seen) > 1:
        a, b_ = list(seen)[:2]
        k = next((i for i in range(min(len(a), len(b_))) if a[i] != b_[i]), min(len(a), len(b_)))
        chk.violation('run:report-depends-on-configuration-order', 'the same patterns configured in different orders give %d different reports; first difference at byte %d: %r / %r; configurations %r and %r' % (
            len(seen), k, a[max(0, k - 40):k + 30], b_[max(0, k - 40):k + 30], seen[a][0], seen[b_][0]), {'job': 'solstat', 'configurations': [seen[a][0], seen[b_][0]]})
    else:
        chk.ok()


def creation_histories(chk, files, binary):
    """the same directory content (same names, same bytes) created in different orders on a file system that lists entries by creation
    history (tmpfs: newest first): the file system then hands the entries to solstat in different orders; the reports must be identical"""
    import itertools
    import os
    import shutil
    import subprocess
    import tempfile
    base = None
    try:
        if os.path.isdir('/dev/shm') and os.access('/dev/shm', os.W_OK):
            base = tempfile.mkdtemp(prefix='solstat-verif-c13-', dir='/dev/shm')
            for n in ('p', 'q', 'r'):
                open(os.path.join(base, n), 'w').close()
            if os.listdir(base) == sorted(os.listdir(base)) and os.listdir(base) != ['r', 'q', 'p']:
                pass
            listed = os.listdir(base)
            for n in ('p', 'q', 'r'):
                os.remove(os.path.join(base, n))
            if listed not in (['r', 'q', 'p'], ['p', 'q', 'r']):
                shutil.rmtree(base); base = None
    except OSError:
        base = None
    if base is None:
        chk.extra['creation_histories'] = 'skipped: no file system at hand whose listing order follows the creation history'
        return
    try:
        rels = sorted(files)
        orders = [rels, rels[::-1]]
        rng = chk.rng
        for _ in range(4 if chk.quick else 16):
            o = list(rels); rng.shuffle(o); orders.append(o)
        seen, listings = {}, set()
        for i, order in enumerate(orders):
            root = os.path.join(base, 'h%d' % i)
            proj = os.path.join(root, 'proj')
            os.makedirs(proj)
            # directories first or last, alternating: the position of a sub-directory among the files changes too
            for rel in order:
                d = os.path.dirname(rel)
                if d:
                    os.makedirs(os.path.join(proj, d), exist_ok=True)
                if isinstance(files[rel], tuple):
                    os.symlink(files[rel][1], os.path.join(proj, rel))
                else:
                    open(os.path.join(proj, rel), 'w').write(files[rel])
            listings.add(tuple(os.listdir(proj)) + tuple(os.listdir(os.path.join(proj, 'sub'))))
            cwd = os.path.join(root, 'cwd')
            os.makedirs(cwd)
            p = subprocess.run([binary, '--path', '../proj'], cwd=cwd, stdout=subprocess.PIPE, stderr=subprocess.PIPE)
            rp = os.path.join(cwd, 'solstat_report.md')
            text = open(rp, 'rb').read() if p.returncode == 0 and os.path.exists(rp) else ('exit %d' % p.returncode).encode()
            seen.setdefault(text, []).append(order)
            chk.states += 1
        chk.validated += 1
        chk.extra['creation_histories'] = '%d creation orders of the same content, %d different listing orders seen by the binary' % (len(orders), len(listings))
        if len(seen) > 1:
            a, b_ = list(seen)[:2]
            k = next((i for i in range(min(len(a), len(b_))) if a[i] != b_[i]), min(len(a), len(b_)))
            chk.violation('run:report-depends-on-discovery-order', 'the same directory content created in different orders (so that the file system lists it in different '
                          'orders) gives %d different reports; first difference at byte %d: %r / %r; creation orders %r and %r' % (
                              len(seen), k, a[max(0, k - 40):k + 30], b_[max(0, k - 40):k + 30], seen[a][0], seen[b_][0]),
                          {'job': 'solstat', 'files': files, 'creation_orders': [seen[a][0], seen[b_][0]]})
        else:
            chk.ok()
    finally:
        shutil.rmtree(base, ignore_errors=True)


def body(chk):
    sh = {'vul': [], 'opt': [], 'qa': []}
    vt, ot, qt = [v for v, _ in rl.VUL], [v for v, _ in rl.OPT], [v for v, _ in rl.QA]
    for a, b in itertools.combinations(vt, 2):
        sh['vul'].append([(a, [1]), (b, [1])])
    sh['vul'] += [[(vt[0], [1, 1])], [(vt[1], [2, 1])], [(v, [1]) for v in vt[:3]], [(vt[3], [1, 1]), (vt[0], [1])]]
    pairs = list(itertools.combinations(ot, 2))
    chk.rng.shuffle(pairs)
    for a, b in pairs[:(10 if chk.quick else 60)]:
        sh['opt'].append([(a, [1]), (b, [1])])
    sh['opt'] += [[(ot[3], [1, 1])], [(ot[7], [1, 2])], [(ot[0], [1]), (ot[5], [1]), (ot[20], [1])], [(ot[2], [1, 1]), (ot[9], [1])]]
    for a, b in itertools.combinations(qt, 2):
        sh['qa'].append([(a, [1]), (b, [1])])
    sh['qa'] += [[(qt[0], [1, 1])], [(v, [1]) for v in qt]]
    if not chk.quick:
        sh['opt'].append([(ot[1], [1, 1, 1])])
        sh['vul'].append([(v, [1]) for v in vt])
    chk.bounds = {'findings sets': '%d sets: pairs and triples of patterns, 1-3 files per pattern with symbolic (possibly equal) names and lines' % sum(len(v) for v in sh.values()),
                  'orders': 'all insertion orders of patterns x all discovery orders of files (up to %d per set) x HashMap iteration order fixed / arbitrary' % (6 if chk.quick else 24),
                  'whole runs': 'the compiled binary 8 (thorough 40) times over one directory of 4 files; the same content created in different orders on tmpfs; the same patterns configured in 5 (12) different orders with repeated names',
                  'outside': 'more than 3 patterns per map with arbitrary iteration order (n! orders); detectors under arbitrary container iteration order are decided in C15'}
    chk.assumptions = ['HashMap contract: iteration order is unspecified (every permutation is a path)', 'slice::sort / sort_by contracts: stable sorted permutation',
                       'native confirmation runs the real generator in several processes (different hash seeds)']
    items = []
    for cat, lst in sh.items():
        for k in range(0, len(lst), 2):
            items.append((cat, lst[k:k + 2]))
    chk.parallel(job, items)
    full_shapes = [[(ot[3], [1, 1, 1])], [(ot[7], [1, 1]), (ot[2], [1])]]
    if not chk.quick:
        full_shapes.append([(ot[5], [2, 1, 1])])
    chk.parallel(job_full, [[s_] for s_ in full_shapes])
    whole_runs(chk)


if __name__ == '__main__':
    main('C13', body)
