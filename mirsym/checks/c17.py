"""C17 — findings are invariant under re-layout and commenting of the source (DESIGN.md 6/C17, reduced strength).
Analyzer side, decided symbolically: every detector is executed on its families with ALL byte offsets free symbols and with
string-literal contents unobservable except for their length; the set of flagged nodes may not depend on either (position
parametricity), every reported Loc is a node's own. Together with C02 (lines follow offsets) this gives layout invariance
for layouts that parse to the same tree. The parser is outside the solver's reach, so the end-to-end statement is checked
differentially on the real code: each printed family file is re-laid-out token-preservingly (random white space, CRLF, line and
block comments containing code-like text and multi-byte characters) and the real detectors must flag the same tokens."""
import random

import z3

from .. import families as fam, oracle, sol
from ..checklib import main
from ..native import unhex
from . import c06, c07, c08, c09, c15, c19

GAPS = [' ', '  ', '\n', '\r\n', '\t', ' \n\n   ', ' /* a + b; x++; require(a && b); */ ', ' // selfdestruct(msg.sender); a >= b\n',
        ' /* 注释：乘法 a * 2，地址 address(0) */ ', '\n// コメント: keccak256(x) ≥ ≤ é€\n', ' /** doc * 4 / 2 */ ',
        # a carriage return alone is white space, and it ends a line comment just as a line feed does (it does not begin a new line)
        '\r', ' // x++; selfdestruct(a); b >= c\r', ' /// doc: a / b * c\r  ']


SAFE_PUNCT = '.(),;[]{}'


def relayout(text, rng, p_gap=0.35):
    """token-preserving re-layout: every white-space run outside string literals and pragma values is replaced by a random gap;
    -> (new text, map old byte offset -> new byte offset for non-space bytes)"""
    out = []
    mapping = {}
    i, n = 0, len(text)
    old_b, new_b = 0, 0
    in_str = None
    in_pragma = False
    while i < n:
        ch = text[i]
        if in_str:
            out.append(ch); mapping[old_b] = new_b
            w = len(ch.encode()); old_b += w; new_b += w
            if ch == '\\' and i + 1 < n:
                i += 1
                out.append(text[i]); w = len(text[i].encode()); old_b += w; new_b += w
            elif ch == in_str:
                in_str = None
            i += 1
            continue
        if text.startswith('pragma', i) and (i == 0 or not text[i - 1].isalnum()):
            in_pragma = True
        if in_pragma:
            out.append(ch); mapping[old_b] = new_b
            w = len(ch.encode()); old_b += w; new_b += w
            if ch == ';':
                in_pragma = False
            i += 1
            continue
        if ch in ' \t\r\n':
            j = i
            while j < n and text[j] in ' \t\r\n':
                j += 1
            gap = rng.choice(GAPS)
            out.append(gap)
            old_b += len(text[i:j].encode()); new_b += len(gap.encode())
            i = j
            continue
        if ch in '"\'':
            in_str = ch
        # a gap where the printed text has none: between a name and the punctuation next to it (`t.transfer(` -> `t . transfer (`).
        # Never next to a digit (number literals contain dots) and never inside multi-character operators (not in the safe set)
        prev = text[i - 1] if i else ' '
        if ((ch in SAFE_PUNCT and (prev.isalpha() or prev in '_$' or prev in SAFE_PUNCT)) or ((ch.isalpha() or ch in '_$') and prev in SAFE_PUNCT)) \
                and prev not in ' \t\r\n' and rng.random() < p_gap:
            gap = rng.choice(GAPS)
            out.append(gap)
            new_b += len(gap.encode())
        out.append(ch); mapping[old_b] = new_b
        w = len(ch.encode()); old_b += w; new_b += w
        i += 1
    return ''.join(out), mapping


def compact(text):
    """token-preserving re-layout with NO optional white space: a run of white space outside string literals and pragma lines is
    dropped, unless both neighbours are word characters (then one blank remains); -> (new text, map old -> new byte offset)"""
    out, mapping = [], {}
    i, n = 0, len(text)
    old_b = new_b = 0
    in_str, in_pragma = None, False
    word = lambda c: c.isalnum() or c in '_$' or ord(c) > 127
    while i < n:
        ch = text[i]
        if in_str:
            out.append(ch); mapping[old_b] = new_b
            w = len(ch.encode()); old_b += w; new_b += w
            if ch == '\\' and i + 1 < n:
                i += 1
                out.append(text[i]); w = len(text[i].encode()); old_b += w; new_b += w
            elif ch == in_str:
                in_str = None
            i += 1
            continue
        if text.startswith('pragma', i) and (i == 0 or not text[i - 1].isalnum()):
            in_pragma = True
        if in_pragma:
            out.append(ch); mapping[old_b] = new_b
            w = len(ch.encode()); old_b += w; new_b += w
            if ch == ';':
                in_pragma = False
            i += 1
            continue
        if ch in ' \t\r\n':
            j = i
            while j < n and text[j] in ' \t\r\n':
                j += 1
            prev = out[-1][-1] if out else ' '
            nxt = text[j] if j < n else ' '
            # keep one blank between two word characters, between operator characters that could fuse (`a + +b`, `a - -b`, `/ /`)
            gap = ' ' if (word(prev) and word(nxt)) or (prev in '+-/*<>=!&|' and nxt in '+-/*<>=!&|') else ''
            out.append(gap)
            old_b += len(text[i:j].encode()); new_b += len(gap)
            i = j
            continue
        if ch in '"\'':
            in_str = ch
        out.append(ch); mapping[old_b] = new_b
        w = len(ch.encode()); old_b += w; new_b += w
        i += 1
    return ''.join(out), mapping


def family_files(chk):
    """(label, builder -> SourceUnit) drawn from the families of the other checks"""
    out = []
    for d in list(oracle.EXPRESSION_DETECTORS) + ['unsafe_erc20_operation', 'divide_before_multiply']:
        forms = fam.forms_for(d, sol.TreeBuilder())
        for i in range(len(forms)):
            pos = list(fam.POSITIONS)[(i * 7 + len(d)) % len(fam.POSITIONS)]
            out.append(('%s form %d @ %s' % (d, i, pos), lambda b, d=d, i=i, pos=pos: fam.build_file(b, pos, concrete_form(fam.forms_for(d, b)[i][1], b))))
    out.append(('probe file', lambda b: c15.probe_file(b)))
    kinds = list(c19.items(sol.TreeBuilder(), 'A'))
    for k1, k2 in zip(kinds, kinds[1:] + kinds[:1]):
        out.append(('items %s + %s' % (k1, k2), lambda b, k1=k1, k2=k2: c19.compose(b, 'first', c19.items(b, 'A')[k1](), c19.items(b, 'B')[k2]())[0]))
    c06cases = c06.cases(chk)
    for idx in range(0, len(c06cases), max(1, len(c06cases) // 40)):
        out.append(('declaration: ' + c06cases[idx][0], lambda b, f=c06cases[idx][1]: (c06.COUNTER.__setitem__(0, 0), f(b))[1]))
    c08cases = c08.all_cases(chk)
    for idx in range(0, len(c08cases), max(1, len(c08cases) // 40)):
        out.append(('write: ' + c08cases[idx][0], c08cases[idx][1]))
    for comb in list(c07.KILLS)[:4]:
        out.append(('selfdestruct: ' + comb, lambda b, k=comb: c07.selfdestruct_file(b, 'Function', 'public', None, k, 'log(x)', 'kill_in_if')))
    # adjacent string literals (the compiler concatenates them) just below the 32-byte threshold, version below 0.8.4
    from ..engine import Adt as _Adt, VecV as _VecV
    out.append(('adjacent string literals', lambda b: fam.build_file(b, 'if_body', b.call(b.var('require'), [
        b.var('c'), _Adt('Expression', 'StringLiteral', (_VecV([b.strlit('fourteen bytes'), b.strlit('and 14 more...')]),))]), pragma='0.8.0')))
    out.append(('adjacent string literals, long first part', lambda b: fam.build_file(b, 'statement', b.call(b.var('require'), [
        b.var('c'), _Adt('Expression', 'StringLiteral', (_VecV([b.strlit('a first part that is longer than 32 bytes'), b.strlit('x')]),))]), pragma='0.7.6')))
    # code-like text inside string literals
    out.append(('code-like string literals', lambda b: fam.build_file(b, 'statement', b.call(b.var('require'), [
        b.var('c'), b.string('a + b; x++; keccak256(y) >= address(0).balance; selfdestruct(msg.sender)')]))))
    return out


def concrete_form(expr, b):
    """replace symbolic number literals of the shift_math forms by a concrete power of two"""
    from ..engine import Adt, BoxV, Str, VecV, Tuple
    def rec(v):
        if isinstance(v, sol.DecStr):
            return Str('64')
        if isinstance(v, Adt):
            return Adt(v.ty, v.variant, [rec(f) for f in v.fields])
        if isinstance(v, BoxV):
            return BoxV(rec(v.inner))
        if isinstance(v, VecV):
            return VecV([rec(f) for f in v.items])
        if isinstance(v, Tuple):
            return Tuple([rec(f) for f in v.fields])
        return v
    return rec(expr)


def symbolic_strings(su):
    """every string literal's content becomes unobservable except for its byte length (kept equal to the original)"""
    from ..engine import Adt, BoxV, Str, VecV, Tuple
    cnt = [0]
    def rec(v, in_lit=False):
        if isinstance(v, Adt):
            if v.ty == 'StringLiteral':
                s = v.fields[2]
                if not s.concrete:
                    return v
                return Adt('StringLiteral', None, (v.fields[0], v.fields[1], _Sized(len(s.v.encode()), s.v)))
            if v.ty == 'SourceUnitPart' and v.variant == 'PragmaDirective':
                return v
            return Adt(v.ty, v.variant, [rec(f) for f in v.fields])
        if isinstance(v, BoxV):
            return BoxV(rec(v.inner))
        if isinstance(v, VecV):
            return VecV([rec(f) for f in v.items])
        if isinstance(v, Tuple):
            return Tuple([rec(f) for f in v.fields])
        return v
    return rec(su)


class _Sized(sol.SizedStr):
    __slots__ = ('text',)

    def __init__(self, n, text):
        sol.SizedStr.__init__(self, z3.BitVecVal(n, 64))
        self.text = text

    def render(self, model):
        return self.text


def job(chk, idxs):
    e = chk.engine()
    files = family_files(chk)
    rng = random.Random(chk.seed * 7919 + idxs[0])
    dets = list(oracle.MIR_NAME)
    for i in idxs:
        label, build = files[i]
        b = sol.TreeBuilder()
        su = build(b)
        su_sym = symbolic_strings(su)
        names = {v.decl().name() for v in b.loc_vars}
        conc = fam.concrete_file(su, {}, z3.Solver().model() if False else _empty_model())
        text, starts = sol.print_source(conc)
        layouts = []
        for variant, p_gap in (('random gaps', 0.35), ('a gap at every token boundary', 1.0), ('no optional white space', None)):
            new_text, mp = relayout(text, rng, p_gap) if p_gap is not None else compact(text)
            p_old, p_new = chk.native.file(text), chk.native.file(new_text)
            nat = chk.native.run([['debugtree', p_old], ['debugtree', p_new]])
            same_tree = nat[0][0] == 'OK' and nat[1][0] == 'OK' and sol.strip_locs(unhex(nat[0][1])) == sol.strip_locs(unhex(nat[1][1]))
            if not same_tree:
                chk.extra_lists.setdefault('relayout_not_token_preserving', []).append('%s (%s)' % (label, variant))
            else:
                layouts.append((variant, new_text, mp, p_old, p_new))
        for d in dets:
            fn = e.func(oracle.MIR_NAME[d])
            try:
                paths = e.explore(lambda en: en.call_mir(fn, [su_sym]), max_paths=2000)
            except Exception as ex:
                chk.undecide('%s [%s]: %s' % (d, label, ex)); paths = []
            dep = None
            for r in paths:
                if r.outcome == 'unsupported':
                    chk.undecide('%s [%s]: %s' % (d, label, r.value)); dep = 'unsupported'; break
                if any(fam.loc_vars_in(c, names) for c in r.pc):
                    dep = 'a branch depends on byte offsets'
                if r.outcome == 'return':
                    for x in r.value.items:
                        try:
                            lid = sol.loc_id(x)
                            okk = x.fields[1].v.decl().name() == lid + '.s' and x.fields[2].v.decl().name() == lid + '.e'
                        except Exception:
                            okk = False
                        if not okk:
                            dep = 'a reported location is computed, not a node\'s own'
            if dep is None:
                chk.ok()
            # the real code, both layouts: the same tokens must be flagged and the lines must move with them
            for variant, new_text, mp, p_old, p_new in layouts:
                rr = chk.native.run([['detect', d, p_old], ['detect', d, p_new], ['analyze', oracle.CATEGORY[d], d, p_new]])
                chk.validated += 1
                if rr[0][0] == 'OK' and rr[1][0] == 'OK':
                    old = sorted({int(x.split(':')[0]) for x in rr[0][1].split(',') if x})
                    new = sorted({int(x.split(':')[0]) for x in rr[1][1].split(',') if x})
                    moved = sorted(mp.get(o, -1) for o in old)
                    lines = sorted({1 + new_text.encode()[:o].count(b'\n') for o in new})
                    got_lines = [int(x) for x in rr[2][1].split(',') if x] if rr[2][0] == 'OK' else rr[2]
                    if moved != new:
                        chk.violation('%s:relayout:different-tokens-flagged' % d, '%s flags tokens at %r in the original layout (re-laid-out: %r) but at %r after re-layout of `%s`' % (d, old, moved, new, label),
                                      {'job': 'detect', 'detector': d, 'source': text, 'relayout': new_text})
                    elif got_lines != lines:
                        chk.violation('%s:relayout:lines-do-not-follow-tokens' % d, '%s: flagged tokens start on lines %r of the re-laid-out file, reported lines %r (`%s`)' % (d, lines, got_lines, label),
                                      {'job': 'analyze', 'detector': d, 'relayout': new_text, 'expected': lines, 'observed': got_lines})
                    elif dep not in (None, 'unsupported'):
                        chk.undecide('%s [%s]: %s, but this re-layout does not change the flagged tokens' % (d, label, dep))
                elif rr[0][0] != rr[1][0]:
                    chk.violation('%s:relayout:panic-in-one-layout' % d, '%s: %r vs %r' % (d, rr[0][:2], rr[1][:2]), {'source': text, 'relayout': new_text})
            # a re-layout of the SAME byte length (every second line feed a blank), analysed right after the original in one process
            if i % 3 == 0:
                tw = c15.twin(text)
                if tw != text:
                    p_a, p_b = chk.native.file(text), chk.native.file(tw)
                    rr = chk.native.run([['analyze', oracle.CATEGORY[d], d, p_a], ['detect', d, p_b], ['analyze', oracle.CATEGORY[d], d, p_b]])
                    chk.states += 1
                    if rr[1][0] == 'OK' and rr[2][0] == 'OK':
                        raw = tw.encode()
                        want = sorted({1 + raw[:int(x.split(':')[0])].count(b'\n') for x in rr[1][1].split(',') if x})
                        got = [int(x) for x in rr[2][1].split(',') if x]
                        if got != want:
                            chk.violation('%s:relayout:lines-do-not-follow-tokens' % d, '%s: an equal-length re-layout analysed right after the original: flagged tokens start on lines %r, reported lines %r (`%s`)' % (d, want, got, label),
                                          {'job': 'analyze sequence', 'detector': d, 'source': text, 'other_source': tw, 'expected': want, 'observed': got})
        # the same through the directory analysis (what the binary does): the original and a re-layout that also has blank lines in FRONT of the
        # first token, as two files of one directory; per detector the lines reported for each file are the lines of analyze_for_* on its bytes
        if i % 4 == chk.seed % 4 and layouts:
            import os, shutil, tempfile
            from .. import reportlib as rl
            from ..native import unhex as _unhex
            root = tempfile.mkdtemp(prefix='c17dir-', dir=chk.native.dir)
            try:
                moved = '\n\n\r\n \t\n' + layouts[0][1]
                for nm, t in (('Orig.sol', text), ('Moved.sol', moved)):
                    with open(os.path.join(root, nm), 'w', newline='') as fh:
                        fh.write(t)
                p_m = chk.native.file(moved)
                for cat in ('opt', 'vul', 'qa'):
                    table = rl.CATS[cat]['table']
                    cdets = [n_ for _, n_ in table if n_ in oracle.MIR_NAME]
                    res_ = chk.native.run([['analyze_dir', cat, root, ','.join(cdets)]] + [['analyze', cat, d_, p_m] for d_ in cdets])
                    chk.validated += 1
                    if res_[0][0] != 'OK':
                        continue
                    name_of = dict(table)
                    got_by = {}
                    for item in (res_[0][1].split(';') if res_[0][1] else []):
                        pat, hx, ls = item.split('|')
                        got_by[(_unhex(hx), name_of.get(pat, pat))] = [int(x) for x in ls.split(',') if x]
                    for d_, r_ in zip(cdets, res_[1:]):
                        if r_[0] != 'OK':
                            continue
                        want = [int(x) for x in r_[1].split(',') if x]
                        got = got_by.get(('Moved.sol', d_), [])
                        if got != want:
                            chk.violation('%s:relayout:directory-lines-do-not-follow-tokens' % d_, '%s through analyze_dir: a re-layout with blank lines in front of the first token is reported on lines %r, '
                                          'its flagged tokens begin on lines %r (`%s`)' % (d_, got, want, label),
                                          {'job': 'analyze_dir_layout', 'category': cat, 'file_name': 'Moved.sol', 'detector': d_, 'source': moved, 'expected': want, 'observed': got})
                        else:
                            chk.ok()
            finally:
                shutil.rmtree(root, ignore_errors=True)
        if i % 25 == 0:
            chk.sample({'file': label, 'relayout (first 300 chars)': layouts[-1][1][:300] if layouts else None})


def _empty_model():
    s = z3.Solver()
    s.check()
    return s.model()


def body(chk):
    files = family_files(chk)
    idx = list(range(len(files)))
    if chk.quick:
        core = [i for i, (l, _) in enumerate(files) if 'string literal' in l or l == 'probe file']
        chk.rng.shuffle(idx)
        idx = sorted(set(idx[:70]) | set(core))
    chk.bounds = {'files': '%d of %d family files (C05-C09, C15, C19 families) x 30 detectors' % (len(idx), len(files)),
                  'symbolic': 'all byte offsets free; string literal contents unobservable except their length',
                  're-layouts': 'two seeded token-preserving re-layouts per file: random gaps in white space and at 35 % of the boundaries between names and punctuation, a gap at EVERY such boundary, and a layout without any optional white space (gaps: spaces, tabs, LF, CRLF, blank lines, line / block / doc comments with code-like and multi-byte text)',
                  'outside': 'the parser (token-preserving re-layout parses to the same tree: checked on every file through the real parser, not proved); comments inside pragma values'}
    chk.assumptions = ['parser contract: token-preserving re-layout yields the same tree up to Locs (validated per file with the real parser)', 'as C05']
    chk.parallel(job, [idx[k:k + 5] for k in range(0, len(idx), 5)])
    bad = chk.extra_lists.get('relayout_not_token_preserving', [])
    if len(bad) > len(idx) // 4:
        chk.broken('the re-layout generator is not token preserving on %d files: %r' % (len(bad), bad[:3]))


if __name__ == '__main__':
    main('C17', body)
