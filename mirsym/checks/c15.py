"""C15 — each (file, pattern) verdict is independent of everything else in the run (DESIGN.md 6/C15, reduced strength:
sequential calls only; concurrent calls from several threads are outside what the engines model)."""
import itertools
import os
import re

import z3

from .. import dirlib as dl, families as fam, oracle, sol
from ..checklib import main
from ..engine import Int, Str, Tuple, VecV, Unsupported
from ..lib import ok
from ..native import hexs

PROBE_DETECTORS = {'opt': ['solidity_math', 'constant_variables', 'immutable_variables', 'sstore', 'increment_decrement', 'memory_to_calldata',
                           'private_constant', 'string_errors', 'pack_storage_variables', 'cache_array_length'],
                   'vul': ['unsafe_erc20_operation', 'unprotected_selfdestruct', 'floating_pragma', 'divide_before_multiply'],
                   'qa': ['constructor_order', 'private_vars_leading_underscore', 'private_func_leading_underscore']}
ENTRY = {'opt': ('analyze_for_optimization', 'Optimization'), 'vul': ('analyze_for_vulnerability', 'Vulnerability'), 'qa': ('analyze_for_qa', 'QualityAssurance')}


def probe_file(b):
    """a file with several findings for many detectors (several state variables: container iteration orders matter)"""
    v, n = b.var, b.num
    u = lambda: b.ty('Uint', 256)
    body1 = [b.expr_stmt(b.bin('Assign', v('alpha'), b.bin('Add', v('alpha'), n(1)))), b.expr_stmt(b.un('PostIncrement', v('beta'))),
             b.expr_stmt(b.call(b.member(b.call(v('IERC20'), [v('t')]), 'transfer'), [v('t'), n(1)])),
             b.expr_stmt(b.call(v('require'), [b.bin('MoreEqual', v('q'), n(1)), b.string('a message')])),
             b.for_(b.var_stmt(u(), 'i', n(0)), b.bin('Less', v('i'), b.member(v('arr'), 'length')), b.expr_stmt(b.un('PreIncrement', v('i'))), b.block([])),
             b.expr_stmt(b.bin('Multiply', b.bin('Divide', v('q'), n(2)), n(3))),
             b.block([b.expr_stmt(b.un('PreIncrement', v('q'))), b.expr_stmt(b.un('PreDecrement', v('beta')))], unchecked=True),
             b.expr_stmt(b.un('PreIncrement', v('q'))),
             # second occurrences of the multi-token vulnerability patterns (a finding after one that spans several lines in some layouts)
             b.expr_stmt(b.bin('Multiply', b.bin('Divide', v('q'), n(4)), n(5))),
             b.expr_stmt(b.call(b.member(b.call(v('IERC20'), [v('t')]), 'approve'), [v('t'), n(2)])),
             # arithmetic nested twice in the RIGHT operand (in some layouts every operation begins on a line of its own)
             b.expr_stmt(b.bin('Assign', v('alpha'), b.bin('Add', v('q'), b.bin('Multiply', v('beta'), b.paren(b.bin('Subtract', v('q'), n(7))))))),
             # three constructs that BEGIN at the same byte, behind a first token of one byte: ((q + beta) + alpha) + q
             b.expr_stmt(b.bin('Add', b.bin('Add', b.bin('Add', v('q'), v('beta')), v('alpha')), v('q'))),
             # a revert string written as three adjacent parts (they stand on different lines in some layouts)
             b.expr_stmt(b.call(v('require'), [b.bin('Less', v('q'), n(9)), b.strings(['first part, ', 'second part ', 'and a third part of the message'])]))]
    parts = [b.state_var(u(), 'alpha'), b.state_var(u(), 'beta'), b.state_var(b.ty('Uint', 8), 'gamma', [b.vattr('visibility', 'private')]),
             b.state_var(u(), 'delta', [b.vattr('constant'), b.vattr('visibility', 'public')], n(5)), b.state_var(b.ty('Address'), 'owner'),
             b.state_var(b.ty('Address'), 'factory', [b.vattr('immutable')]), b.state_var(b.ty('Bool'), 'flagA', [b.vattr('visibility', 'private')]),
             b.state_var(b.ty('Uint', 64), '_pub', [b.vattr('visibility', 'public')]), b.state_var(b.ty('Uint', 32), 'hidden', [b.vattr('visibility', 'internal')]),
             b.function('Function', 'work', [b.param(b.index(u()), 'Memory', 'arr'), b.param(u(), None, 'q'), b.param(b.ty('Address'), None, 't')],
                        [b.fattr('visibility', 'public')], b.block(body1)),
             b.function('Function', 'helper', [], [b.fattr('visibility', 'internal')], b.block([b.expr_stmt(b.call(v('selfdestruct'), [v('owner')]))])),
             b.function('Function', 'many', [b.param(b.index(u()), 'Memory', 'first'), b.param(b.ty('String'), 'Memory', 'second'), b.param(b.ty('DynamicBytes'), 'Memory', 'third'),
                                             b.param(b.index(u()), 'Memory', 'fourth')],
                        [b.fattr('visibility', 'external')], b.block([b.expr_stmt(b.bin('Assign', v('fourth'), v('first')))])),
             b.function('Function', 'kill', [], [b.fattr('visibility', 'external')], b.block([b.expr_stmt(b.call(v('selfdestruct'), [b.call(b.ty('Payable'), [v('owner')])]))])),
             b.function('Constructor', None, [], [], b.block([b.expr_stmt(b.bin('Assign', v('owner'), b.member(v('msg'), 'sender')))]))]
    return b.source_unit([b.pragma('solidity', '^0.8.16'), fam.contract_with(b, parts)])


def purity(chk, cat, dets=None):
    """analyze_for_*: same lines for every file number and every iteration order of the hash containers"""
    e = chk.engine()
    fn_name, enum = ENTRY[cat]
    fn = e.func(fn_name)
    name_to_variant = {}
    from .. import reportlib as rl
    for v, n in rl.CATS[cat]['table']:
        name_to_variant[n] = v
    file_no = Int(z3.BitVec('file_no', 64), 'usize')
    b = sol.TreeBuilder(file_no=file_no, symbolic_locs=False)
    # concrete offsets: the tree is printed first, then rebuilt with the real start offsets so that get_line_number
    # (executed from MIR with the regex contract) sees the real text
    b0 = sol.TreeBuilder()
    su0 = probe_file(b0)
    text, starts = sol.print_source(su0, wrap_params=True)      # one parameter per line: findings on different parameters are different lines
    su = relocate(su0, starts, file_no)
    from ..engine import Adt

    def stub_parse(en, args, fr, callee):
        if not en.load(args[0]).concrete or en.load(args[0]).v != text:
            raise Unsupported('parse called with another text')
        en.extra['file_no_seen'] = en.force(args[1])
        return ok(Tuple((su, VecV(()))))
    e.stubs['parse'] = stub_parse
    for d in (dets or PROBE_DETECTORS[cat]):
        pat = Adt(enum, name_to_variant[d])
        e.flags['symbolic_order'] = True
        e.flags['perm_full'], e.flags['perm_budget'] = 4, 7       # every order up to 4 elements; at most 7 order decisions per path
        try:
            paths = e.explore(lambda en: en.call_mir(fn, [Str(text), file_no, pat]), max_paths=5000)
        except Unsupported as u:
            chk.undecide('%s(%s): %s' % (fn_name, d, u)); continue
        finally:
            e.flags['symbolic_order'] = False
        results = set()
        bad = False
        for r in paths:
            if r.outcome == 'unsupported':
                chk.undecide('%s(%s): %s' % (fn_name, d, r.value)); bad = True; break
            if r.outcome == 'panic':
                results.add(('panic', r.value.msg)); continue
            vals = tuple(x.v if x.concrete else 'symbolic' for x in r.value.items)
            results.add(vals)
            if any(fam.loc_vars_in(c, {'file_no'}) for c in r.pc) or 'symbolic' in vals:
                results.add(('depends on the file number',))
        if bad:
            # DESIGN 4.4: what the engine cannot encode is still tested on the compiled code: several file numbers, several processes
            seen = set()
            for k in (0, 1, 7, 4096):
                seen.add(tuple(chk.native.run([['analyze', cat, d, chk.native.file(text), str(k)]])[0]))
            chk.states += 4
            if len(seen) > 1:
                chk.violation('%s:purity:%s' % (cat, d), '%s(%s) returns different line sets for different file numbers / in different processes: %r' % (fn_name, d, sorted(seen)),
                              {'job': 'analyze', 'detector': d, 'source': text, 'observed': sorted(seen), 'file_numbers': [0, 1, 7, 4096]})
            continue
        nat = chk.native.run([['analyze', cat, d, chk.native.file(text), '0'], ['analyze', cat, d, chk.native.file(text), '7']])
        chk.validated += 1
        native_lines = [tuple(int(x) for x in r_[1].split(',') if x) if r_[0] == 'OK' else ('panic',) for r_ in nat]
        if len(results) == 1 and native_lines[0] == native_lines[1] == list(results)[0]:
            chk.ok()
        elif len(results) == 1:
            chk.broken('%s(%s): engine predicts %r, the real code returns %r' % (fn_name, d, results, native_lines))
        else:
            # different container iteration orders / file numbers give different results: confirm in several processes
            seen = set()
            for _ in range(10):
                r_ = chk.native.run([['analyze', cat, d, chk.native.file(text), str(_)]])[0]
                seen.add(tuple(r_))
            if len(seen) <= 1:
                chk.undecide('%s(%s): engine sees %d different results over iteration orders, 10 processes agree' % (fn_name, d, len(results)))
            else:
                chk.violation('%s:purity:%s' % (cat, d), '%s(%s) returns different line sets in different processes / for different file numbers: %r' % (fn_name, d, sorted(seen)),
                              {'job': 'analyze', 'detector': d, 'source': text, 'observed': sorted(seen)})
        chk.sample({'purity': '%s(%s)' % (fn_name, d), 'paths (iteration orders)': len(paths), 'lines': sorted(results, key=repr)[:1]}) if d in ('constant_variables', 'constructor_order', 'floating_pragma') else None


def relocate(v, starts, file_no):
    """same tree with concrete Loc offsets taken from the printed text (end = start + 1: the detectors only use starts)"""
    from ..engine import Adt, BoxV
    if isinstance(v, Adt):
        if v.ty == 'Loc':
            s = starts.get(sol.loc_id(v), 0)
            return Adt('Loc', 'File', (file_no, Int(s, 'usize'), Int(s + 1, 'usize')))
        return Adt(v.ty, v.variant, [relocate(f, starts, file_no) for f in v.fields])
    if isinstance(v, BoxV):
        return BoxV(relocate(v.inner, starts, file_no))
    if isinstance(v, VecV):
        return VecV([relocate(f, starts, file_no) for f in v.items])
    if isinstance(v, Tuple):
        return Tuple([relocate(f, starts, file_no) for f in v.fields])
    return v


def global_state_scan(chk):
    """syntactic: does the crate's MIR mention process-global or thread-local mutable state?"""
    mir = open(os.path.join(chk.world.build, 'lib.mir')).read()
    hits = sorted(set(re.findall(r'thread_local|LocalKey|OnceLock|OnceCell|LazyLock|lazy_static|static mut |Mutex<|RwLock<|AtomicU?\w*|RefCell<', mir)))
    statics = re.findall(r'^static (?:mut )?[^:]+:', mir, re.M)
    chk.extra['global_state_scan'] = {'mentions': hits, 'static_items': statics[:10]}
    return hits or statics


def twin(text):
    """same byte length, different line structure: every second line feed becomes a space and vice versa"""
    out, flip = [], False
    for ch in text:
        if ch == '\n':
            flip = not flip
            out.append(' ' if flip else '\n')
        else:
            out.append(ch)
    t = ''.join(out)
    return t if t != text else text


_STRESS = {}


def stress_predecessors(chk):
    """files that push the analysis to its limits before the probe is analysed in the same process: whatever they leave behind in
    process-wide state (counters, caches, guards not released on an early exit or a panic) must not reach the next verdict"""
    if _STRESS:
        return _STRESS

    def nest(n, open_, close, core='x + 1'):
        return 'pragma solidity 0.8.16;\ncontract D {\n    uint256 x;\n    function f() public {\n        %s%s%s;\n    }\n}\n' % (open_ * n, core, close * n)

    def blocks(n, w):
        return 'pragma solidity 0.8.16;\ncontract D {\n    uint256 x;\n    function f() public {\n        %s%s%s\n    }\n}\n' % ('{ ' * n, 'x = x + 1; ' * w, ' }' * n)
    def staircase(n, k):
        """n nested calls, every level has k further arguments: whatever level an analysis stops at, it stops in front of k + 1 siblings"""
        e_ = 'x + 1'
        for i in range(n):
            e_ = 'g(%s%s)' % ('y, ' * k, e_)
        return 'pragma solidity 0.8.16;\ncontract D {\n    uint256 x;\n    function f() public {\n        %s;\n    }\n}\n' % e_
    _STRESS['calls nested 600 deep with 24 arguments at every level'] = chk.native.file(staircase(600, 24))
    _STRESS['600 statements inside blocks nested 600 deep'] = chk.native.file(blocks(600, 600))
    _STRESS['an expression nested 1200 deep'] = chk.native.file(nest(1200, '(', ')'))
    _STRESS['a file the parser rejects'] = chk.native.file('pragma solidity 0.8.16;\ncontract D { function f( public { x = ; } }\n')
    if not chk.quick:
        _STRESS['an expression nested 3000 deep'] = chk.native.file(nest(3000, '(', ')'))
        _STRESS['a call with 700 arguments nested 550 deep'] = chk.native.file(nest(550, 'g(', ')', ', '.join(['x + 1'] * 700)))
        _STRESS['a file with 2000 functions'] = chk.native.file('pragma solidity 0.8.16;\ncontract D {\n%s}\n' % ''.join(
            '    function f%d(uint256 a) public returns (uint256) { return a + %d; }\n' % (i, i) for i in range(2000)))
    return _STRESS


def scalar_statics(program):
    """statics of the crate that hold one atomic integer / flag: (name, value type)"""
    out = []
    for name, fl in program.items():
        f = fl[0]
        if getattr(f, 'kind', '') == 'static':
            m = re.match(r'^(?:std::sync::atomic::)?Atomic(?:<(\w+)>|(Usize|Isize|Bool|U8|U16|U32|U64|I8|I16|I32|I64))$', f.ret.strip())
            if m:
                out.append((name, (m.group(1) or m.group(2).lower())))
    return out


def state_dependence(chk, cat):
    """only when the crate has process-wide state: analyze_for_* on the probe from an ARBITRARY value of every scalar static (whatever
    earlier or concurrent calls may have left there). A verdict that depends on that value is a candidate; it is reported only after
    a native call history that changes the verdict has been found (repeated stress predecessors), otherwise it stays undecided."""
    e = chk.engine()
    statics = scalar_statics(e.program)
    if not statics:
        return
    fn_name, enum = ENTRY[cat]
    fn = e.func(fn_name)
    from .. import reportlib as rl
    from ..engine import Adt
    name_to_variant = {n: v for v, n in rl.CATS[cat]['table']}
    b0 = sol.TreeBuilder()
    su0 = probe_file(b0)
    text, starts = sol.print_source(su0, wrap_params=True)
    su = relocate(su0, starts, Int(0, 'usize'))
    e.stubs['parse'] = lambda en, args, fr, callee: ok(Tuple((su, VecV(()))))
    gvars = {}
    for name, ty in statics:
        if ty == 'bool':
            gvars[name] = z3.Bool('g_' + name)
            e.global_presets[name] = lambda en, v=gvars[name]: Adt('Atomic', None, (v,))
        else:
            from ..mirparse import INT_TYPES
            w = INT_TYPES[ty][0]
            gvars[name] = z3.BitVec('g_' + name, w)
            e.global_presets[name] = lambda en, v=gvars[name], t=ty: Adt('Atomic', None, (Int(v, t),))
    confirmed = None
    for d in PROBE_DETECTORS[cat]:
        pat = Adt(enum, name_to_variant[d])
        try:
            paths = e.explore(lambda en: en.call_mir(fn, [Str(text), Int(0, 'usize'), pat]), max_paths=5000)
        except Unsupported as u:
            chk.undecide('%s(%s) from an arbitrary process state: %s' % (fn_name, d, u)); continue
        if any(r.outcome == 'unsupported' for r in paths):
            chk.undecide('%s(%s) from an arbitrary process state: %s' % (fn_name, d, [r.value for r in paths if r.outcome == 'unsupported'][0])); continue
        results = {}
        for r in paths:
            key = ('panic', r.value.msg) if r.outcome == 'panic' else tuple(sorted(x.v for x in r.value.items if x.concrete))
            results.setdefault(key, r)
        if len(results) <= 1:
            chk.ok(); continue
        # which value of the statics gives a verdict other than the one of a fresh process?
        fresh = [k for k, r in results.items() if z3.Solver().check(*r.pc, *[(v == 0 if not z3.is_bool(v) else z3.Not(v)) for v in gvars.values()]) == z3.sat]
        witness = None
        for k, r in results.items():
            if k in fresh:
                continue
            sv = z3.Solver(); sv.add(*r.pc)
            if sv.check() == z3.sat:
                witness = (k, {n: str(sv.model().eval(v, model_completion=True)) for n, v in gvars.items()})
                break
        if confirmed:
            chk.undecide('%s(%s): the verdict depends on process-wide state as well (same statics as %s, not replayed again)' % (fn_name, d, confirmed))
            continue
        history = native_history_search(chk, cat, d, text)
        if history is None:
            chk.undecide('%s(%s): the verdict depends on process-wide state (%s gives %r instead of %r); no call history that reaches such a state was found' % (
                fn_name, d, witness[1] if witness else '?', witness[0] if witness else '?', fresh[:1]))
        else:
            rounds, alone, got = history
            confirmed = d
            chk.violation('%s:state:%s' % (cat, d), '%s(%s) on the same file returns %r in a fresh process and %r after %d rounds of stress predecessors in the same process '
                          '(symbolically: the verdict depends on the statics %r, e.g. %s)' % (fn_name, d, alone, got, rounds, sorted(gvars), witness[1] if witness else '?'),
                          {'job': 'analyze history', 'detector': d, 'category': cat, 'source': text, 'rounds': rounds, 'predecessors': sorted(stress_predecessors(chk)), 'alone': alone, 'after': got})
    chk.sample({'state dependence': 'arbitrary initial value of the statics %r, %d detectors of %s' % (sorted(gvars), len(PROBE_DETECTORS[cat]), cat)})


def state_sequences(chk, cat):
    """only when the crate has process-wide state: two calls on ONE path, the state the first leaves behind is what the second finds.
    First call: an equal-length re-layout of the probe under the same file number; second call: the probe. The second result must be
    the result of the probe in a fresh process."""
    e = chk.engine()
    fn_name, enum = ENTRY[cat]
    fn = e.func(fn_name)
    from .. import reportlib as rl
    from ..engine import Adt
    name_to_variant = {n: v for v, n in rl.CATS[cat]['table']}
    su0 = probe_file(sol.TreeBuilder())
    text, starts = sol.print_source(su0, wrap_params=True)
    other = twin(text)                      # same bytes except line feeds <-> blanks: every offset is the same, the lines are not
    su = relocate(su0, starts, Int(0, 'usize'))
    e.stubs['parse'] = lambda en, args, fr, callee: ok(Tuple((su, VecV(()))))
    for d in PROBE_DETECTORS[cat]:
        pat = Adt(enum, name_to_variant[d])
        lines = lambda r: ('panic', r.value.msg) if r.outcome == 'panic' else tuple(sorted(x.v if x.concrete else str(x.v) for x in r.value.items))
        try:
            alone = e.explore(lambda en: en.call_mir(fn, [Str(text), Int(0, 'usize'), pat]), max_paths=2000)

            def both(en):
                en.call_mir(fn, [Str(other), Int(0, 'usize'), pat])
                return en.call_mir(fn, [Str(text), Int(0, 'usize'), pat])
            seq = e.explore(both, max_paths=2000)
        except Unsupported as u:
            chk.undecide('%s(%s) after an equal-length file (one path): %s' % (fn_name, d, u)); continue
        if any(r.outcome == 'unsupported' for r in alone + seq):
            chk.undecide('%s(%s) after an equal-length file (one path): %s' % (fn_name, d, [r.value for r in alone + seq if r.outcome == 'unsupported'][0])); continue
        a, b_ = {lines(r) for r in alone}, {lines(r) for r in seq}
        if a == b_:
            chk.ok(); continue
        p_main, p_twin = chk.native.file(text), chk.native.file(other)
        nat = chk.native.run([['analyze', cat, d, p_main]])[0], chk.native.run([['analyze', cat, d, p_twin], ['analyze', cat, d, p_main]])[1]
        chk.validated += 1
        if nat[0] == nat[1]:
            chk.undecide('%s(%s): on one symbolic path the verdict after an equal-length file is %r instead of %r; the compiled code does not show it' % (fn_name, d, sorted(b_), sorted(a)))
        else:
            chk.violation('%s:sequence:after-an-equal-length-file' % cat, '%s on the same file returns %r when analysed after an equal-length file, %r when analysed alone '
                          '(decided on one symbolic path through both calls: %r vs %r)' % (d, nat[1], nat[0], sorted(b_), sorted(a)),
                          {'job': 'analyze sequence', 'detector': d, 'sequence': 'after an equal-length file', 'source': text, 'other_source': other, 'alone': nat[0], 'in_sequence': nat[1]})
    chk.sample({'state sequences': 'two calls on one path (equal-length re-layout first), %d detectors of %s' % (len(PROBE_DETECTORS[cat]), cat)})


def native_threads(chk):
    """only when the crate has process-wide state: the compiled code called from 8 threads at once on two different files (each thread
    repeats its call and compares with the result obtained before the threads started). A best-effort search of interleavings, not
    an exhaustive one: a mismatch is a real failing run (reported), silence proves nothing about threads (the claim stays sequential)."""
    b1 = sol.TreeBuilder()
    t1, _ = sol.print_source(probe_file(b1), wrap_params=True)
    t2 = dl.file_text(['solidity_math', 'sstore', 'optimal_comparison', 'constructor_order', 'private_func_leading_underscore', 'unsafe_erc20_operation', 'divide_before_multiply'], 5)
    pa, pb = chk.native.file(t1), chk.native.file(t2)
    iters = 300 if chk.quick else 3000
    for cat in PROBE_DETECTORS:
        for d in PROBE_DETECTORS[cat][:4]:
            r = chk.native.run([['threads', cat, d, pa, pb, '8', str(iters)]])[0]
            chk.states += 1
            if r[0] == 'OK':
                chk.ok(); continue
            chk.violation('%s:threads:%s' % (cat, d), '%s called concurrently from 8 threads on two files: a call on file %s returned lines %r, the same call made alone returns %r (iteration %s)' % (
                d, r[1] if len(r) > 1 else '?', r[3] if len(r) > 3 else r, r[4] if len(r) > 4 else '?', r[2] if len(r) > 2 else '?'),
                {'job': 'threads', 'category': cat, 'detector': d, 'file_a': t1, 'file_b': t2, 'threads': 8, 'iterations': iters, 'observed': r})
            break
    chk.sample({'threads': '8 threads x %d calls on two files, %d detectors (only because the crate has process-wide state)' % (iters, sum(len(v[:4]) for v in PROBE_DETECTORS.values()))})


def native_history_search(chk, cat, d, text, max_rounds=60):
    """the compiled code, one process: [all stress predecessors, then the probe] repeated; -> (rounds, verdict alone, verdict then) at the
    first round after which the probe's verdict differs from its verdict in a fresh process, None if it never does"""
    p_main = chk.native.file(text)
    alone = chk.native.run([['analyze', cat, d, p_main]])[0]
    pres = list(stress_predecessors(chk).values())
    jobs = []
    for _ in range(max_rounds):
        jobs += [['bigstack', 'analyze', cat, d, p] for p in pres] + [['analyze', cat, d, p_main]]
    res = chk.native.run(jobs)
    chk.validated += 1
    per = len(pres) + 1
    for k in range(max_rounds):
        r = res[k * per + per - 1]
        if r != alone:
            return k + 1, alone, r
    return None


def native_sequences(chk):
    """the real code, one process per job list: a verdict must not depend on what was analysed before in the same process"""
    b = sol.TreeBuilder()
    text, _ = sol.print_source(probe_file(b))
    texts = [text, dl.file_text(['solidity_math', 'sstore', 'optimal_comparison'], 1), dl.file_text(['constructor_order', 'private_func_leading_underscore'], 2)]
    nviol = 0
    for cat in PROBE_DETECTORS:
        dets = PROBE_DETECTORS[cat]
        for t in texts:
            p_main, p_twin = chk.native.file(t), chk.native.file(twin(t))
            alone = chk.native.run([['analyze', cat, d, p_main] for d in dets])
            sequences = {
                'after an equal-length file': [['analyze', cat, d, p_twin] for d in dets] + [['analyze', cat, d, p_main] for d in dets],
                'interleaved with an equal-length file': sum([[['analyze', cat, d, p_twin], ['analyze', cat, d, p_main]] for d in dets], []),
                'patterns in reverse order, repeated': [['analyze', cat, d, p_main] for d in reversed(dets)] * 2,
                'other category first': [['analyze', c2, d2, p_twin] for c2 in PROBE_DETECTORS if c2 != cat for d2 in PROBE_DETECTORS[c2][:2]] + [['analyze', cat, d, p_main] for d in dets],
            }
            for what, pre in (stress_predecessors(chk).items() if t is texts[0] else ()):
                sequences['after %s' % what] = [['bigstack', 'analyze_raw', cat, d, pre] for d in dets] + [['analyze', cat, d, p_main] for d in dets]
            for what, jobs in sequences.items():
                res = chk.native.run(jobs)
                chk.states += len(jobs)
                for j, r in zip(jobs, res):
                    if j[0] == 'bigstack' or j[3] != p_main:
                        continue
                    want = alone[dets.index(j[2])]
                    if r != want:
                        chk.violation('%s:sequence:%s' % (cat, re.sub(r'[^a-z]+', '-', what)),
                                      '%s on the same file returns %r when analysed %s, %r when analysed alone' % (j[2], r, what, want),
                                      {'job': 'analyze sequence', 'detector': j[2], 'sequence': what, 'source': t, 'alone': want, 'in_sequence': r,
                                       'other_source': open(jobs[0][4]).read() if jobs[0][0] == 'bigstack' else twin(t), 'raw': jobs[0][0] == 'bigstack'})
                        nviol += 1
                    else:
                        chk.ok()
    # directory level: a file's findings do not depend on its siblings (equal-length twin next to it, several listing positions)
    for cat in dl.CATS:
        names = [n for _, n in dl.CATS[cat]['patterns']]
        root = os.path.join(chk.native.dir, 'seq%d' % chk.native.n); chk.native.n += 1
        os.makedirs(os.path.join(root, 'sub'))
        t = dl.file_text(names, 1)
        tw = twin(t)
        os.makedirs(os.path.join(root, 'other'))
        shifted = '\n\n' + t                         # same findings two lines further down: same base name, other line set
        for nm, content in (('Main.sol', t), ('Aaa.sol', tw), ('Zzz.sol', tw), ('sub/Mid.sol', tw), ('sub/Main2.sol', t),
                            ('sub/Main.sol', shifted), ('other/Main.sol', t)):
            open(os.path.join(root, nm), 'w').write(content)
        got, want, raw = dl.native_union(chk, cat, root, names)
        fwd = chk.native.run([['analyze_dir', cat, root, ','.join(names)], ['analyze_dir', cat, root, ','.join(reversed(names))]])
        chk.states += 3
        if got is None or sorted(got) != sorted(want):
            chk.violation('%s:siblings' % cat, 'analyze_dir on a directory with equal-length siblings returned %r, per-file union %r' % (got if got is not None else raw, want),
                          {'job': 'analyze_dir', 'category': cat, 'expected': want, 'observed': got})
        elif fwd[0] != fwd[1]:
            chk.violation('%s:pattern-order' % cat, 'analyze_dir depends on the order of the configured patterns', {'observed': fwd})
        else:
            chk.ok()
        # every pattern of the category selected at once, on a directory whose files lie on BOTH sides of the version gates (0.7.6 / 0.8.13, both
        # using SafeMath and revert strings): what one file makes of a pattern says nothing about the next file
        from .. import reportlib as rl
        every = [n_ for _, n_ in rl.CATS[cat]['table']]
        gate = 'pragma solidity %s;\nlibrary SafeMath { function add(uint256 a, uint256 b) internal pure returns (uint256) { return a + b; } }\ncontract G%d {\n    using SafeMath for uint256;\n' \
               '    uint256 total;\n    function f(uint256 a) public {\n        require(a > 1, "a revert string that is longer than thirty-two bytes");\n        total = total.add(a);\n    }\n}\n'
        for vers in (('0.7.6', '0.8.13'), ('0.8.13', '0.7.6', '0.8.3')):
            mroot = os.path.join(chk.native.dir, 'gate%d' % chk.native.n); chk.native.n += 1
            os.makedirs(mroot)
            for k, ver in enumerate(vers):
                open(os.path.join(mroot, 'V%d.sol' % k), 'w').write(gate % (ver, k))
            for sel in (every, every[::-1]):
                got, want, raw = dl.native_union(chk, cat, mroot, sel)
                chk.states += 1
                if got is None or sorted(got) != sorted(want):
                    chk.violation('%s:co-selected-patterns' % cat, 'analyze_dir with every %s pattern selected on files of the versions %r: returned %r, per-file union %r (missing %r)' % (
                        cat, vers, got if got is not None else raw, want, sorted(set(want) - set(got or []))),
                                  {'job': 'analyze_dir_files', 'category': cat, 'patterns': sel, 'files': [['V%d.sol' % k, gate % (ver, k)] for k, ver in enumerate(vers)], 'listing_by_creation': False, 'expected': want, 'observed': got})
                else:
                    chk.ok()
        # siblings that are not analysed (documentation, build output, test contracts, empty directories), at both ends of the listing: on a
        # file system that lists by creation history (tmpfs: newest first) the same tree is created contracts-first and contracts-last
        import shutil, tempfile
        shm = '/dev/shm' if os.path.isdir('/dev/shm') and os.access('/dev/shm', os.W_OK) else chk.native.dir
        # ... and a contract 45 directories down (its verdict is the one it has when analysed on its own, wherever the run starts)
        contracts = [('Main.sol', t), ('Aaa.sol', tw), ('sub/Mid.sol', tw), ('sub/Main.sol', shifted), ('/'.join(['n%d' % (k % 7) for k in range(45)]) + '/Deep.sol', shifted)]
        others = [('README.md', '# readme\n'), ('.gitkeep', ''), ('notes', 'no extension\n'), ('Main.t.sol', t), ('sub/abi.json', '{}\n'), ('sub/Mid.t.sol', tw)]
        for what, order in (('created before the contracts', others + contracts), ('created after the contracts', contracts + others),
                            ('created between the contracts', contracts[:1] + others[:3] + contracts[1:3] + others[3:] + contracts[3:])):
            base = tempfile.mkdtemp(prefix='solstat-verif-c15-', dir=shm)
            try:
                os.makedirs(os.path.join(base, 'sub'))
                os.makedirs(os.path.join(base, 'empty'))
                for nm, content in order:
                    os.makedirs(os.path.dirname(os.path.join(base, nm)), exist_ok=True)
                    open(os.path.join(base, nm), 'w').write(content)
                got, want, raw = dl.native_union(chk, cat, base, names)
                chk.states += 1
                if got is None or sorted(got) != sorted(want):
                    missing = sorted(set(want) - set(got or []))
                    chk.violation('%s:siblings:not-analysed-entries' % cat, 'analyze_dir on a directory whose other entries (%s) are %s: returned %r, the per-file union is %r (missing %r)' % (
                        ', '.join(n for n, _ in others), what, got if got is not None else raw, want, missing),
                                  {'job': 'analyze_dir_files', 'category': cat, 'patterns': names, 'files': order, 'listing_by_creation': shm == '/dev/shm', 'expected': want, 'observed': got})
                else:
                    chk.ok()
            finally:
                shutil.rmtree(base, ignore_errors=True)
    chk.sample({'native sequences': 'equal-length twin before / interleaved, reversed+repeated patterns, other category first, siblings in a directory; threads are outside the claim'})


def dir_model(chk, cat):
    """analyze_dir model: the triples of one file are the same whatever the siblings, the listing order and the order of patterns"""
    e = chk.engine()
    pats = [p for p, _ in dl.CATS[cat]['patterns']]
    base_ents = [('file', 'Main.sol', 'main')]
    variants = [base_ents, [('file', 'A.sol', 'a')] + base_ents, base_ents + [('dir', 'd', [('file', 'B.sol', 'b')])],
                [('dir', 'd', base_ents), ('file', 'C.sol', 'c')],
                base_ents + [('dir', 'd', [('file', 'Main.sol', 'same1')])],                      # same base name below
                [('file', 'README.md', 'x1')] + base_ents + [('file', 'Main.t.sol', 'x2')],     # entries that are not analysed
                base_ents + [('file', 'notes', 'x3'), ('dir', 'empty', [])],
                [('dir', 'core', base_ents), ('dir', 'periphery', [('file', 'Main.sol', 'same2')])]]   # same base name beside
    seen = set()
    for ents in variants:
        for order in itertools.permutations(pats[:2]):
            tree = dl.Tree(ents)
            fres = {(f['tag'], p): 'nonempty' for f in tree.files() for p in pats}
            dl.install_stubs(e, cat, tree, fres)
            for r in dl.run_dir(e, cat, tree, list(order)):
                if r.outcome != 'return':
                    chk.undecide('analyze_dir model: %s' % (r.value,)); continue
                rec = [f for f in tree.files() if f['tag'] == 'main'][0]
                mine = tuple(sorted((p, l) for p, nm, l in dl.result_triples(r) if nm is rec['name']))
                seen.add(mine)
                chk.ok()
    # ... and whichever OTHER patterns are selected with it: every pattern of the category at once (table order and reversed) on two files and
    # a sub-directory whose per-file results are all non-empty: each file must come back with a line for every pattern
    from .. import reportlib as rl
    allpats = [v for v, _ in rl.CATS[cat]['table']]
    for ents in ([('file', 'A.sol', 'a')] + base_ents, base_ents + [('file', 'Z.sol', 'z'), ('dir', 'd', [('file', 'B.sol', 'b')])]):
        for order in (allpats, allpats[::-1]):
            tree = dl.Tree(ents)
            fres = {(f['tag'], p): 'nonempty' for f in tree.files() for p in allpats}
            dl.install_stubs(e, cat, tree, fres)
            for r in dl.run_dir(e, cat, tree, list(order)):
                if r.outcome != 'return':
                    chk.undecide('analyze_dir model, all patterns: %s' % (r.value,)); continue
                got = {}
                for p_, nm, l in dl.result_triples(r):
                    got.setdefault(id(nm), set()).add(p_)
                lacking = {f['tag']: sorted(set(allpats) - got.get(id(f['name']), set())) for f in tree.files() if set(allpats) - got.get(id(f['name']), set())}
                if lacking:
                    chk.violation('%s:dir-model:co-selected-patterns' % cat, 'in the analyze_dir model with every %s pattern selected (%s order) some (file, pattern) pairs that have findings are '
                                  'missing from the result: %r' % (cat, 'table' if order is allpats else 'reversed', lacking), {})
                else:
                    chk.ok()
    if len(seen) > 1:
        chk.violation('%s:dir-model:interference' % cat, 'in the analyze_dir model the findings of one file differ with siblings / listing order / pattern order: %r' % sorted(seen), {})


def binary_coselection(chk):
    """whole runs of the compiled binary: the lines the report lists for (file, pattern) are those of analyze_for_* on the file alone, whichever
    other patterns are selected with it (none, one of another category, several) and whichever other files lie in the directory"""
    import subprocess
    snip = {'sstore': ('opt', 'uint256 st; function w() public { st = 1; }'), 'divide_before_multiply': ('vul', 'function d(uint256 a) public { a / 2 * 3; }'),
            'private_vars_leading_underscore': ('qa', 'uint256 private pv;'), 'constructor_order': ('qa', 'function e() public {} constructor() {}')}
    order = list(snip)
    text = 'pragma solidity 0.8.16;\ncontract Sel {\n' + ''.join('    %s\n' % snip[k][1] for k in order) + '}\n'
    quiet = 'pragma solidity 0.8.16;\ncontract Quiet {\n    function _q() private {}\n    function r() internal {}\n}\n'      # a QA finding only (private_func_leading_underscore)
    key = {'opt': 'optimizations', 'vul': 'vulnerabilities', 'qa': 'qa'}
    p0 = chk.native.file(text)
    alone = {}
    for k in order:
        r = chk.native.run([['analyze', snip[k][0], k, p0]])[0]
        alone[k] = sorted(int(x) for x in r[1].split(',') if x) if r[0] == 'OK' else None
    binary = os.path.join(chk.world.build, 'solstat')
    selections = [['private_vars_leading_underscore'], ['constructor_order', 'private_vars_leading_underscore'], ['private_vars_leading_underscore', 'sstore'],
                  ['private_vars_leading_underscore', 'divide_before_multiply'], ['sstore'], ['divide_before_multiply'], order, order[::-1]]
    for sel in selections:
        for with_sibling in (False, True):
            d = os.path.join(chk.native.dir, 'cosel%d' % chk.native.n)
            chk.native.n += 1
            os.makedirs(os.path.join(d, 'proj'))
            open(os.path.join(d, 'proj', 'Sel.sol'), 'w').write(text)
            if with_sibling:
                open(os.path.join(d, 'proj', 'Quiet.sol'), 'w').write(quiet)
            cfg = 'path = "proj"\n' + ''.join('%s = [%s]\n' % (key[c], ', '.join('"%s"' % k for k in sel if snip[k][0] == c)) for c in ('opt', 'vul', 'qa'))
            open(os.path.join(d, 'cfg.toml'), 'w').write(cfg)
            p = subprocess.run([binary, '--toml', 'cfg.toml'], cwd=d, stdout=subprocess.PIPE, stderr=subprocess.PIPE, text=True)
            chk.validated += 1
            rp = os.path.join(d, 'solstat_report.md')
            rep = open(rp).read() if os.path.exists(rp) else ''
            listed = sorted({int(m.group(1)) for m in re.finditer(r'^- Sel\.sol:(\d+)$', rep, re.M)})
            want = sorted({l for k in sel for l in (alone[k] or [])})
            if p.returncode != 0 or listed != want:
                chk.violation('binary:co-selected-patterns', 'solstat with the patterns %r selected%s: exit status %d, the report lists the lines %r of Sel.sol, analysed alone the selected patterns give %r' % (
                    sel, ' and a sibling file' if with_sibling else '', p.returncode, listed, want), {'job': 'solstat', 'config': cfg, 'source': text, 'observed': rep[:300]})
            else:
                chk.ok()
    chk.sample({'binary co-selection': '%d pattern selections x with / without a sibling file through the compiled binary' % len(selections)})


def body(chk):
    chk.bounds = {'purity': 'analyze_for_* executed from MIR on a probe file with symbolic file number and ARBITRARY iteration order of every HashSet/HashMap (all orders of up to 4 elements; larger collections: next element = first or last of the rest; at most 7 order decisions per path, then as given); %d detectors' % sum(len(v) for v in PROBE_DETECTORS.values()),
                  'directory model': 'one file with / without siblings and sub-directories, every listing order, both orders of two patterns',
                  'native sequences': '3 files x 17 detectors x 4 call sequences in one process (an equal-length file analysed just before / interleaved, reversed and repeated patterns, other category first) + stress predecessors analysed first on a 2 GiB stack (600 statements inside blocks nested 600 deep, an expression nested 1200 deep, an unparsable file; thorough: nested 3000 deep, 700 call arguments nested 550 deep, 2000 functions); directory with equal-length siblings',
                  'outside': 'concurrent calls from several threads (neither engine models threads); state inside the regex crate'}
    chk.assumptions = ['parser stubbed by the executed tree (its result is a function of the text)', 'regex contract', 'global-state scan of the MIR is syntactic']
    items = [('purity', cat, d) for cat in PROBE_DETECTORS for d in PROBE_DETECTORS[cat]] + [('dir', cat, None) for cat in PROBE_DETECTORS]
    chk.parallel(lambda c, it: purity(c, it[1], [it[2]]) if it[0] == 'purity' else dir_model(c, it[1]), items)
    state = global_state_scan(chk)
    if state:
        for cat in PROBE_DETECTORS:
            state_dependence(chk, cat)
            state_sequences(chk, cat)
        native_threads(chk)
    if state:
        chk.undecide('the crate mentions global / thread-local state (%r): the symbolic claim does not cover it, native call sequences decide' % (state[:4] if isinstance(state, list) else state,))
    native_sequences(chk)
    binary_coselection(chk)


if __name__ == '__main__':
    main('C15', body)
