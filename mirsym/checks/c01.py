"""C01 — a pattern is found wherever it is nested: one inductive step of the real walker per parse-tree variant."""
import re

import z3

from .. import sol, ptgen
from ..checklib import main
from ..engine import Adt, BoxV, Choice, Int, Opaque, Str, Tuple, ValRef, VecV, Unsupported
from ..native import unhex

ROOTS = [('Expression', 'Expression'), ('Statement', 'Statement'), ('ContractPart', 'ContractPart'),
         ('SourceUnitPart', 'SourceUnitPart')]


def possible(v, choices):
    """possible child sequences of v over all completions of the choices the path left open:
    list of (tuple of child names, {choice: alt}) with at most 2 different sequences (2 = the walker cannot be right)"""
    if isinstance(v, Choice):
        k = choices.get(v.sel)
        if k is not None:
            return possible(v.alts[k], choices)
        out = []
        for i, a in enumerate(v.alts):
            for seq, w in possible(a, choices):
                if all(seq != s for s, _ in out):
                    out.append((seq, dict(w, **{v.sel: i})))
                if len(out) >= 2:
                    return out
        return out
    if isinstance(v, Opaque):
        return [((v.name,) if v.ty in ptgen.NODE_TYPES else (), {})]
    if isinstance(v, BoxV):
        return possible(v.inner, choices)
    if isinstance(v, Adt) and v.ty == 'Statement' and v.variant == 'Assembly':
        return [((), {})]
    if isinstance(v, (Adt, Tuple, VecV)):
        parts = [possible(f, choices) for f in (v.items if isinstance(v, VecV) else v.fields)]
        base_seq, base_w = (), {}
        for p in parts:
            base_seq += p[0][0]
            base_w.update(p[0][1])
        out = [(base_seq, base_w)]
        for i, p in enumerate(parts):
            if len(p) > 1:
                seq, w = (), {}
                for j, q in enumerate(parts):
                    pick = p[1] if j == i else q[0]
                    seq += pick[0]
                    w.update(pick[1])
                out.append((seq, w))
                break
        return out
    return [((), {})]


LEAF_OVERRIDES = {
    ('Expression', 'NumberLiteral'): lambda g: (g.b.loc(), Str('1'), Str('')),
    ('Expression', 'RationalNumberLiteral'): lambda g: (g.b.loc(), Str('1'), Str('5'), Str('')),
    ('Expression', 'HexNumberLiteral'): lambda g: (g.b.loc(), Str('0x12')),
    ('Expression', 'AddressLiteral'): lambda g: (g.b.loc(), Str('5FbDB2315678afecb367f032d93F642f64180aa3')),
    ('Expression', 'BoolLiteral'): lambda g: (g.b.loc(), True),
}


def make_node(g, ty, vname):
    if (ty, vname) in LEAF_OVERRIDES:
        return Adt(ty, vname, LEAF_OVERRIDES[(ty, vname)](g))
    return g.variant(ty, vname)


def instantiate(v, choices, picks, g, ctx=None, types=None):
    """concrete tree: choices as taken by the path / the witness / first alternative; opaque children become small
    concrete snippets (distinct identifiers) chosen by syntactic context so that the real parser accepts the result"""
    if isinstance(v, Choice):
        k = choices.get(v.sel, picks.get(v.sel, 0))
        return instantiate(v.alts[k], choices, picks, g, ctx, types)
    if isinstance(v, Opaque) and v.name in getattr(g, 'unfolded', {}):
        return instantiate(g.unfolded[v.name], choices, picks, g, ctx, types)
    if isinstance(v, Opaque):
        b = g.b
        if v.ty == 'Expression':
            if ctx == 'call':
                return b.call(b.var('o_' + v.name), [])
            return b.var('o_' + v.name)
        if v.ty == 'Statement':
            kind = None
            if types is not None and ('kind:' + v.name) in choices:
                kind = types.enums['Statement'][choices['kind:' + v.name]][0]
            if ctx == 'simple':
                return b.expr_stmt(b.var('o_' + v.name))          # the header of a `for` takes simple statements only
            if kind == 'Args':
                return b.args_stmt([('value', b.var('o_' + v.name))])
            if kind == 'Block':
                return b.block([b.expr_stmt(b.var('o_' + v.name))])
            if kind == 'Return':
                return b.ret(b.var('o_' + v.name))
            if kind == 'If':
                return b.if_(b.var('o_' + v.name), b.block([]))
            if ctx == 'simple':
                return b.expr_stmt(b.var('o_' + v.name))
            if getattr(g, 'rich', False):
                # a child with many kinds of nodes below it, so that a child the walker skips shows for most target sets
                return b.block([b.var_stmt(b.ty('Uint', 256), 'o_' + v.name, b.bin('Add', b.var('p_' + v.name), b.num(1))),
                                b.expr_stmt(b.bin('Assign', b.var('o_' + v.name), b.call(b.var('q_' + v.name), [b.var('o_' + v.name)]))),
                                b.ret(b.var('o_' + v.name))])
            return b.block([b.expr_stmt(b.var('o_' + v.name))])
        if v.ty == 'ContractPart':
            return b.cpart(b.state_var(b.ty('Uint', 256), 'o_' + v.name))
        if v.ty == 'SourceUnitPart':
            return b.supart(b.state_var(b.ty('Uint', 256), 'o_' + v.name))
        if v.ty == 'YulBlock':
            return Adt('YulBlock', None, (b.loc(), VecV(())))
        raise Unsupported('instantiate ' + v.ty)
    if isinstance(v, BoxV):
        return BoxV(instantiate(v.inner, choices, picks, g, ctx, types))
    if isinstance(v, Adt):
        fctx = [None] * len(v.fields)
        if v.ty == 'Statement' and v.variant == 'For':
            fctx = [None, 'simple', None, 'simple', None]
        elif v.ty == 'Option':
            fctx = [ctx] * len(v.fields)                              # the context of an optional child is the context of the child
        elif v.ty == 'Statement' and v.variant in ('Try', 'Emit'):
            fctx = [None, 'call'] + [None] * (len(v.fields) - 2)
        elif v.ty == 'Expression' and v.variant == 'New':
            fctx = [None, 'call']
        elif v.variant is None and types is not None and v.ty in types.structs and types.structs[v.ty][0]:
            fctx = ['type' if n == 'ty' else None for n in types.structs[v.ty][0]]
        if v.ty == 'FunctionDefinition':
            # kind and name are irrelevant to the traversal: prefer `function name(..)`, which is valid at file level too
            picks = dict(picks)
            for f, want in ((v.fields[1], 'Function'), (v.fields[2], 'Some')):
                if isinstance(f, Choice) and f.sel not in choices:
                    for i, a in enumerate(f.alts):
                        if isinstance(a, Adt) and a.variant == want:
                            picks[f.sel] = i
        return Adt(v.ty, v.variant, [instantiate(f, choices, picks, g, c, types) for f, c in zip(v.fields, fctx)])
    if isinstance(v, VecV):
        return VecV([instantiate(f, choices, picks, g, ctx, types) for f in v.items])
    if isinstance(v, Tuple):
        return Tuple([instantiate(f, choices, picks, g, ctx, types) for f in v.fields])
    return v


def wrap_in_file(g, ty, node):
    """smallest file in which `node` (a concrete node of type ty) can stand"""
    b = g.b
    if ty == 'SourceUnitPart':
        return b.source_unit([node])
    if ty == 'ContractPart':
        return b.source_unit([b.supart(b.contract('Contract', 'C', [node]))])
    if ty == 'Expression':
        inner_stmt = node.fields[2].inner if node.variant == 'FunctionCallBlock' else None
        if inner_stmt is not None and getattr(inner_stmt, 'variant', None) == 'Block':
            node = b.try_(node, None, [b.catch_simple(None, b.block([]))])     # `try f() { .. } catch {}`
        else:
            node = b.expr_stmt(node)
    fn = b.function('Function', 'f', [], [b.fattr('visibility', 'public')], b.block([node]))
    return b.source_unit([b.supart(b.contract('Contract', 'C', [b.cpart(fn)]))])


def native_walk_compare(chk, su, all_kinds):
    """prints `su`, checks the round trip through the real parser, runs the real walker for all kinds and compares with the
    reference traversal. -> ('unprintable', why) | ('same', text) | ('diff', text, expected, got)"""
    try:
        text, starts = sol.print_source(su)
    except (sol.PrintError, KeyError, AttributeError, IndexError, TypeError) as ex:
        return ('unprintable', 'printer: %r' % (ex,))
    path = chk.native.file(text)
    dbg, ext = chk.native.run([['debugtree', path], ['extract', path, ','.join(all_kinds)]])
    if dbg[0] != 'OK':
        return ('unprintable', 'parser rejects: ' + text.strip()[:100])
    if sol.strip_locs(unhex(dbg[1])) != sol.debug_render(su, chk.world.types):
        return ('unprintable', 'parses to a different tree: ' + text.strip()[:100])
    want = []
    for kind, node in ptgen.ref_walk(su, lambda k: k in all_kinds):
        loc = ptgen.node_loc(node) if kind != 'SourceUnit' else None
        if loc is not None and sol.loc_id(loc) not in starts:
            return ('unprintable', 'printer records no start for a %s node' % kind)
        want.append('%s@%s' % (kind, starts[sol.loc_id(loc)] if loc is not None else '-'))
    if ext[0] != 'OK':
        return ('diff', text, want, ext)
    got = [re.sub(r':\d+$', '', x) for x in ext[1].split(',') if x]
    return ('same', text) if got == want else ('diff', text, want, got)


def judge_unfolded(chk, r, s, items, root, inner, unfolded, must, mustnot, tvars, target_names):
    """the walker took a child apart itself instead of recursing into it: the result must still be what the recursion would have given --
    the child node itself iff its kind is requested, then what is below it, in order. -> None (correct) or a description"""
    def expected(v):
        out = []
        for name in (possible(v, r.choices)[0][0]):
            if name in unfolded:
                u = unfolded[name]
                kind = u.variant if u.variant in target_names else 'None'
                out.append(('self', name, kind))
                out += expected(u)
            else:
                out.append(name)
        return out
    exp = expected(inner)
    got = []
    for i, x in enumerate(items):
        if isinstance(x, Opaque):
            got.append(x.name)
        elif i == 0 and x == root:
            got.append('ROOT')
        else:
            inner_x = x.fields[0] if isinstance(x, Adt) and x.ty == 'Node' else x
            while isinstance(inner_x, BoxV):
                inner_x = inner_x.inner
            nm = next((n for n, u in unfolded.items() if u is inner_x or u == inner_x or (isinstance(inner_x, Opaque) and inner_x.name == n)), None)
            got.append(('self', nm))
    if got and got[0] == 'ROOT':
        if not must:
            return 'the node itself is returned although its kind is not requested'
        got = got[1:]
    elif not mustnot:
        return 'the node itself is not returned although its kind is requested'
    gi = 0
    for ent in exp:
        if isinstance(ent, tuple):
            _, name, kind = ent
            tv = tvars[kind]
            here = gi < len(got) and got[gi] == ('self', name)
            chk.queries += 1
            if here:
                if s.check(z3.Not(tv)) != z3.unsat:
                    return 'the child %s (a %s, taken apart by the walker) is returned although its kind need not be requested' % (name, kind)
                gi += 1
            elif s.check(tv) != z3.unsat:
                return 'the child %s is a %s and this kind can be requested on this path, but the walker takes the child apart without returning it' % (name, kind)
        else:
            if gi >= len(got) or got[gi] != ent:
                return 'children visited %r, expected (the child taken apart by the walker expanded) %r' % (got, [x if not isinstance(x, tuple) else x[:2] for x in exp])
            gi += 1
    if gi != len(got):
        return 'children visited %r, expected %r' % (got, [x if not isinstance(x, tuple) else x[:2] for x in exp])
    return None


def install_symbolic_set(e, tvars):
    """the requested kinds are one Boolean per Target kind; whatever the walker asks of the set as a whole (iteration with all / any,
    size, emptiness) is answered by the corresponding formula over those Booleans"""
    from ..lib import call_closure

    def as_bool(x):
        if isinstance(x, bool):
            return z3.BoolVal(x)
        if isinstance(x, Int):
            return z3.BoolVal(bool(x.v)) if x.concrete else (x.v != 0 if not z3.is_bool(x.v) else x.v)
        return x

    def it(en, args, fr, m):
        return Opaque('hash_set::Iter<Target>', 'T')

    memo = {}

    def all_any(en, args, fr, m):
        from ..engine import FnItem
        f_ = en.force(args[1])
        key = (m.group(1), f_.name) if isinstance(f_, FnItem) else None      # a plain function: the formula is the same on every path
        if key in memo:
            return memo[key]
        r = all_any_(en, args, fr, m)
        if key is not None:
            memo[key] = r
        return r

    def all_any_(en, args, fr, m):
        parts = []
        for k, tv in tvars.items():
            r = as_bool(call_closure(en, fr, args[1], [ValRef(Adt('Target', k, ()))]))
            parts.append(z3.Implies(tv, r) if m.group(1) == 'all' else z3.And(tv, r))
        return z3.simplify(z3.And(*parts) if m.group(1) == 'all' else z3.Or(*parts))

    def size(en, args, fr, m):
        n = z3.Sum(*[z3.If(tv, z3.BitVecVal(1, 64), z3.BitVecVal(0, 64)) for tv in tvars.values()])
        return z3.simplify(n == 0) if m.group(1) == 'is_empty' else Int(z3.simplify(n), 'usize')
    e.stub_patterns += [(re.compile(r'^HashSet::<Target>::iter$'), it),
                        (re.compile(r"^<Iter<'_, Target> as Iterator>::(all|any)::<.*>$"), all_any),
                        (re.compile(r'^HashSet::<Target>::(len|is_empty)$'), size)]


def body(chk):
    L = 2 if chk.quick else 4
    types = chk.world.types
    target_names = [v[0] for v in types.enums['Target']]
    chk.bounds = {'list length per Vec field': '0..%d' % L, 'depth': 'one inductive step per variant, children opaque (any tree by induction)',
                  'target set': 'fully symbolic: one Boolean per Target kind',
                  'outside': 'lists longer than the bound (loop bodies do not depend on the index); Yul (inline assembly has no nodes by definition)'}
    chk.assumptions = ['field declaration order = source order for every pt type (checked by hand against solidity.lalrpop)',
                       'Vec/Option/clone/IntoIterator contracts', 'induction hypothesis: the recursive call on a child c returns W(c)']
    tset = ValRef(Opaque('HashSet<Target>', 'T'))
    tvars = {n: z3.Bool('T_' + n) for n in target_names}
    all_kinds = [n for n in target_names if n != 'None']
    variants = [('SourceUnit', None)]
    for wrapper, ty in ROOTS:
        variants += [(ty, v[0]) for v in types.enums[ty]]
    # Type variants are reached under Expression::Type
    type_variants = [v[0] for v in types.enums['Type']]
    jobs = []
    for ty, vname in variants:
        if (ty, vname) == ('Expression', 'Type'):
            jobs += [(ty, vname, sub) for sub in type_variants]
        else:
            jobs.append((ty, vname, None))
    ctx = dict(L=L, types=types, target_names=target_names, all_kinds=all_kinds, tvars=tvars, tset=tset)
    chk.parallel(lambda c, job: variant_job(c, job, ctx), jobs)
    check_entry_points(chk, target_names)
    chk.extra['variants_checked'] = len(jobs)


def variant_job(chk, job, ctx):
    ty, vname, sub = job
    L, types, target_names, all_kinds, tvars, tset = (ctx[k] for k in ('L', 'types', 'target_names', 'all_kinds', 'tvars', 'tset'))
    e = chk.engine()
    walk = e.func('walk_node_for_targets')

    def stub_contains(en, args, fr, callee):
        t = en.load(args[1])
        en.extra.setdefault('asked', []).append(t.variant)
        return tvars[t.variant]

    def stub_walk(en, args, fr, callee):
        node = en.force(args[1])
        inner = en.force(node.fields[0])
        if isinstance(inner, Opaque):
            return VecV([Opaque('W', inner.name)])
        return en.call_mir(walk, args, fr.depth + 1)

    e.stubs['HashSet::<Target>::contains::<Target>'] = stub_contains
    e.stubs['walk_node_for_targets'] = stub_walk
    install_symbolic_set(e, tvars)
    e.flags['opaque_kinds'] = True

    def unfold(en, v, kidx):
        # the walker looks below a child: that child becomes a node of the decided kind with opaque children of its own
        if int(re.sub(r'\D', '', v.name) or 0) >= 1000:
            return None                      # one level only: a walker that keeps taking apart what it finds is followed one step
        g2 = ptgen.Gen(types, L=1, tag=v.name + '_')
        g2.Lnested = 1
        g2.n = 1000 + 100 * int(re.sub(r'\D', '', v.name) or 0)
        return g2.variant(v.ty, types.enums[v.ty][kidx][0])
    e.flags['opaque_unfold'] = unfold
    g = ptgen.Gen(types, L=L, tag='w')
    # lists inside a node's own lists are bounded by 1, except in function definitions: there the attribute list is itself inside the
    # boxed definition, and the walker has per-attribute code (two modifier / base invocations with arguments must both be walked)
    g.Lnested = 2 if vname == 'FunctionDefinition' else 1
    if ty == 'SourceUnit':
        inner = Adt('SourceUnit', None, (g.gen('Vec<SourceUnitPart>', 1),))
        kind = 'SourceUnit'
    else:
        kind = vname
        if sub is not None:
            if sub == 'Function':
                g.L = 1          # three nested lists of lists: bound every list by 1 (stated in the evidence)
            _, ftys, _ = types.variant('Type', sub)
            inner = Adt('Expression', 'Type', (g.b.loc(), Adt('Type', sub, [g.gen(t, 1) for t in ftys])))
        else:
            inner = make_node(g, ty, vname)
    label = '%s::%s%s' % (ty, vname, '(%s)' % sub if sub else '') if vname else 'SourceUnit'
    root = Adt('Node', ty, (inner,))
    try:
        res = e.explore(lambda en: en.call_mir(walk, [tset, root]), max_paths=60000)
    except Unsupported as u:
        chk.undecide('%s: %s' % (label, u))
        return
    for r in res:
        if r.outcome == 'unsupported':
            chk.undecide('%s: %s' % (label, r.value)); continue
        if r.outcome == 'panic':
            report(chk, g, ty, label, inner, r, {}, 'panics (%s)' % r.value.msg, all_kinds, tvars); continue
        asked = r.extra.get('asked', [])
        want_kind = kind if kind in target_names else 'None'
        if set(asked) != {want_kind}:
            report(chk, g, ty, label, inner, r, {}, 'is classified as Target %r, its kind is %s' % (asked, want_kind), all_kinds, tvars)
            continue
        # (asking for the node's own kind more than once is not observable by itself; what is returned is judged below)
        # is the node's own kind requested on this path? (Z3: pc implies T_kind / pc implies not T_kind)
        s = z3.Solver(); s.add(*r.pc)
        tv = tvars[want_kind]
        chk.queries += 2
        must = s.check(z3.Not(tv)) == z3.unsat
        mustnot = s.check(tv) == z3.unsat
        items = r.value.items
        unfolded = r.extra.get('unfolded', {})
        if unfolded:
            verdict = judge_unfolded(chk, r, s, items, root, inner, unfolded, must, mustnot, tvars, target_names)
            if verdict is None:
                chk.ok(); continue
            g.unfolded = unfolded
            try:
                report(chk, g, ty, label, inner, r, {}, verdict, all_kinds, tvars)
            finally:
                g.unfolded = {}
            continue
        got_self = [i for i, x in enumerate(items) if not isinstance(x, Opaque)]
        got_seq = tuple(x.name for x in items if isinstance(x, Opaque))
        self_ok = (got_self == [0] and items[0] == root and must) or (got_self == [] and mustnot)
        poss = possible(inner, r.choices)
        if self_ok and len(poss) == 1 and poss[0][0] == got_seq:
            chk.ok(); continue
        if not self_ok:
            why = 'the node itself is %s although its kind is %srequested' % (
                'returned at positions %r' % got_self if got_self else 'not returned', '' if must else 'not ')
            witness = {}
        else:
            bad = [p for p in poss if p[0] != got_seq][0]
            witness = bad[1]
            why = 'children visited %r, children present (declaration order) %r' % (list(got_seq), list(bad[0]))
        report(chk, g, ty, label, inner, r, witness, why, all_kinds, tvars)
    # DESIGN 4.4: a step the engine could not decide is still held against the reference traversal on the compiled code: instances of up to
    # three of its paths (plain and with rich children), all kinds searched, and the kinds of the node and of its first child alone
    undecided_paths = [r for r in res if r.outcome == 'unsupported']
    if undecided_paths and ty != 'SourceUnit' and _CONFIRMED.get('walker:' + label, 0) < 1:
        picks = [undecided_paths[0], undecided_paths[len(undecided_paths) // 2], undecided_paths[-1]]
        done = False
        for r in picks:
            for rich in (False, True):
                g.rich = rich
                try:
                    conc = instantiate(inner, r.choices, {}, g, None, types)
                    su = wrap_in_file(g, ty, conc)
                    outs = [native_walk_compare(chk, su, all_kinds)]
                    if outs[0][0] == 'same':
                        firsts = [k for k, _ in ptgen.ref_walk(su, lambda k: True)]
                        own = [k for k in dict.fromkeys(firsts) if k in all_kinds]
                        for a, b_ in zip(firsts, firsts[1:]):
                            if a in all_kinds and b_ in all_kinds and a != b_:
                                outs.append(native_walk_compare(chk, su, [a, b_]))
                                if outs[-1][0] == 'diff' or len(outs) > 6:
                                    break
                except Unsupported:
                    outs = []
                finally:
                    g.rich = False
                for o in outs:
                    if o[0] != 'unprintable':
                        chk.validated += 1
                    if o[0] == 'diff' and not done:
                        done = True
                        _CONFIRMED['walker:' + label] = _CONFIRMED.get('walker:' + label, 0) + 1
                        chk.violation('walker:' + label, '%s (step not decided symbolically; compiled walker against the reference traversal). File:%s  expected (pre-order) %r, walker returned %r' % (
                            label, o[1].replace('\n', ' '), o[2], o[3]), {'job': 'extract', 'source': o[1], 'targets': all_kinds, 'expected': o[2], 'observed': o[3]})
            if done:
                break
    # translator validation: one concrete instance per variant through the real parser + real walker
    if ty != 'SourceUnit' and res and res[0].outcome == 'return':
        r = res[(chk.seed + len(label)) % len(res)]
        try:
            conc = instantiate(inner, r.choices, {}, g, None, types)
            su = wrap_in_file(g, ty, conc)
            out = native_walk_compare(chk, su, all_kinds)
        except Unsupported:
            out = ('unprintable', 'no snippet')
        if out[0] != 'unprintable':
            chk.validated += 1
            chk.extra_lists.setdefault('variants_validated_natively', []).append(label)
            if out[0] == 'diff' and not chk.violations and not chk.known_hits:
                # the real walker disagrees with the reference traversal on a file although this step was decided correct
                chk.broken('walker differs from the reference traversal on\n%s\nexpected %r\ngot %r' % out[1:])
    chk.sample({'variant': label, 'paths': len(res), 'children': [list(p[0]) for p in possible(inner, res[0].choices)][:1] if res else None})


def target_sets(r, tvars, all_kinds):
    """target sets on which the path `r` is taken: all kinds if the path allows it, else a largest set (greedy) and the
    set of a plain model"""
    s = z3.Solver(); s.add(*r.pc)
    if s.check() != z3.sat:
        return [all_kinds]
    out = []
    plain = [k for k in all_kinds if z3.is_true(s.model().eval(tvars[k], model_completion=True))]
    s.push()
    kept = []
    for k in all_kinds:
        s.push(); s.add(tvars[k])
        if s.check() == z3.sat:
            kept.append(k)
        else:
            s.pop(); s.add(z3.Not(tvars[k]))
    out.append(kept)
    if plain != kept and plain:
        out.append(plain)
    return out


_CONFIRMED = {}


def report(chk, g, ty, label, inner, r, witness, why, all_kinds, tvars=None):
    """confirm on the real code (printed instance -> real parser -> real walker vs reference traversal)"""
    key = 'walker:' + label
    if _CONFIRMED.get(key, 0) >= 3:
        # the same step has already been confirmed on the compiled code three times: further failing paths of it are counted, not replayed
        chk.obligations += 1
        return
    out = ('unprintable', 'no instance')
    kinds = all_kinds
    for kinds in (target_sets(r, tvars, all_kinds) if tvars else [all_kinds]):
        for rich in (False, True):
            g.rich = rich
            try:
                conc = instantiate(inner, r.choices, witness, g, None, chk.world.types)
                su = wrap_in_file(g, ty if ty != 'SourceUnit' else 'SourceUnitPart', conc) if ty != 'SourceUnit' else conc
                o = native_walk_compare(chk, su, kinds)
            except Unsupported as u:
                o = ('unprintable', str(u))
            finally:
                g.rich = False
            if o[0] == 'diff' or out[0] == 'unprintable':
                out = o
            if out[0] == 'diff':
                break
        if out[0] == 'diff':
            break
    all_kinds = kinds
    if out[0] == 'unprintable':
        # try the other list lengths / alternatives? keep it simple: an instance that cannot be printed is undecided
        chk.undecide('%s: %s — symbolic counterexample could not be replayed (%s)' % (label, why, out[1]))
        return
    if out[0] == 'same':
        chk.broken('%s: %s — but the real walker agrees with the reference traversal on\n%s' % (label, why, out[1]))
    _CONFIRMED[key] = _CONFIRMED.get(key, 0) + 1
    chk.violation(key, '%s: %s. File:%s  expected (pre-order) %r, walker returned %r' % (label, why, out[1].replace('\n', ' '), out[2], out[3]),
                  {'job': 'extract', 'source': out[1], 'targets': all_kinds, 'expected': out[2], 'observed': out[3]})


def check_entry_points(chk, target_names):
    """extract_target_from_node / extract_targets_from_node search for exactly the requested kinds"""
    e = chk.engine()
    captured = {}

    def stub_walk(en, args, fr, callee):
        s = en.load(args[0])
        en.extra['set'] = [en.force(x).variant for x in s.items]
        return VecV(())

    e.stubs['walk_node_for_targets'] = stub_walk
    node = Adt('Node', 'SourceUnit', (Adt('SourceUnit', None, (VecV(()),)),))
    f1, f2 = e.func('extract_target_from_node'), e.func('extract_targets_from_node')
    t = Choice('t', [Adt('Target', n) for n in target_names])
    for r in e.explore(lambda en: en.call_mir(f1, [t, node])):
        want = [target_names[r.choices['t']]]
        if r.outcome != 'return' or sorted(set(r.extra.get('set', ['?']))) != want:
            chk.violation('entry:extract_target_from_node', 'searches for %r when asked for %r' % (r.extra.get('set'), want),
                          {'targets': want})
        else:
            chk.ok()
    combos = []
    if chk.quick:
        for k in (0, 1, 2, 3, 4):
            for _ in range(1 if k == 0 else 40):
                combos.append([chk.rng.choice(target_names) for _ in range(k)])
        for n in target_names:
            combos.append([n])
    else:
        combos = [[]] + [[a] for a in target_names] + [[a, b] for a in target_names for b in target_names]
        for _ in range(300):
            combos.append([chk.rng.choice(target_names) for _ in range(chk.rng.choice([3, 4, 5]))])
    for c in combos:
        res = e.explore(lambda en: en.call_mir(f2, [VecV([Adt('Target', n) for n in c]), node]))
        for r in res:
            if r.outcome != 'return' or sorted(set(r.extra.get('set', ['?']))) != sorted(set(c)):
                chk.violation('entry:extract_targets_from_node', 'searches for %r when asked for %r' % (r.extra.get('set'), c), {'targets': c})
            else:
                chk.ok()
    chk.sample({'entry points': 'extract_target_from_node for all %d kinds; extract_targets_from_node for %d kind vectors' % (len(target_names), len(combos))})


if __name__ == '__main__':
    main('C01', body)
