"""C10 — packing suggestions are sound with respect to the storage-slot model (DESIGN.md section 6, C10)."""
import itertools

import z3

from .. import sol
from ..checklib import main
from ..engine import Adt, Choice, Int, VecV, Panic
from ..native import unhex

TYPE_TABLE = {'Address': 160, 'AddressPayable': 160, 'Bool': 8, 'Payable': 256, 'String': 256, 'Rational': 256,
              'DynamicBytes': 256}


def layout_slots(sizes):
    """Solidity's rule over mathematical integers: consecutive items share a slot while they fit in 256 bits"""
    free, slots = z3.IntVal(0), z3.IntVal(0)
    for s in sizes:
        fits = s <= free
        slots = z3.If(fits, slots, slots + 1)
        free = z3.If(fits, free - s, 256 - s)
    return slots


def layout_slots_bv(sizes):
    """the same rule over 16-bit vectors: exact for member sizes <= 256 (no sum exceeds 512)"""
    free, slots = z3.BitVecVal(0, 16), z3.BitVecVal(0, 16)
    for s in sizes:
        fits = z3.ULE(s, free)
        slots = z3.If(fits, slots, slots + 1)
        free = z3.If(fits, free - s, 256 - s)
    return slots


def sorted_slots_bv(sizes, descending=False):
    n = len(sizes)
    if n <= 1:
        return layout_slots_bv(sizes)
    out = None
    for perm in itertools.permutations(range(n)):
        p = [sizes[i] for i in perm]
        mono = z3.And([z3.UGE(p[i], p[i + 1]) if descending else z3.ULE(p[i], p[i + 1]) for i in range(n - 1)])
        v = layout_slots_bv(p)
        out = v if out is None else z3.If(mono, v, out)
    return out


def sorted_slots(sizes, descending=False):
    """slots of the size-sorted order, defined without reference to any sorting algorithm: every permutation that is
    monotone gives the same value (ties are equal sizes)"""
    n = len(sizes)
    if n <= 1:
        return layout_slots(sizes)
    out = None
    for perm in itertools.permutations(range(n)):
        p = [sizes[i] for i in perm]
        mono = z3.And([(p[i] >= p[i + 1]) if descending else (p[i] <= p[i + 1]) for i in range(n - 1)])
        v = layout_slots(p)
        out = v if out is None else z3.If(mono, v, out)
    return out


def check_type_size(chk):
    e = chk.engine()
    fn = e.func('get_type_size')
    if not chk.native.available('typesize'):
        chk.undecide('get_type_size changed its signature: the unit-level harness is not applicable (the detectors are still decided end to end)')
        return
    b = sol.TreeBuilder()
    n16, n8 = z3.BitVec('width16', 16), z3.BitVec('width8', 8)
    cases = []
    for name in TYPE_TABLE:
        cases.append((name, b.ty(name), z3.IntVal(TYPE_TABLE[name]), []))
    cases.append(('Int(n)', b.ty('Int', Int(n16, 'u16')), z3.BV2Int(n16), []))
    cases.append(('Uint(n)', b.ty('Uint', Int(n16, 'u16')), z3.BV2Int(n16), []))
    # bytesN: the parser only produces 1..32
    cases.append(('Bytes(n)', b.ty('Bytes', Int(n8, 'u8')), 8 * z3.BV2Int(n8), [z3.ULE(n8, 32), z3.UGE(n8, 1)]))
    cases.append(('Mapping', b.mapping(b.ty('Address'), b.ty('Uint', 256)), z3.IntVal(256), []))
    fty = Adt('Expression', 'Type', (b.loc(), Adt('Type', 'Function', (VecV(()), VecV(()), sol.NONE))))
    cases.append(('Function', fty, z3.IntVal(256), []))
    # every expression kind that is not a `Type` (user-defined names, arrays ...) counts as a full slot
    cases.append(('Variable (user-defined type)', b.var('MyStruct'), z3.IntVal(256), []))
    cases.append(('ArraySubscript (array type)', b.index(b.ty('Uint', 8)), z3.IntVal(256), []))
    cases.append(('MemberAccess (qualified type)', b.member(b.var('Lib'), 'T'), z3.IntVal(256), []))
    for name, expr, want, pre in cases:
        res = e.explore(lambda e: e.call_mir(fn, [expr]), base_constraints=pre)
        for r in res:
            if r.outcome == 'unsupported':
                chk.undecide('get_type_size(%s): %s' % (name, r.value)); continue
            s = z3.Solver()
            s.add(*pre); s.add(*r.pc)
            if r.outcome == 'panic':
                confirm_type_size(chk, name, s, n16, n8, 'panic: ' + r.value.msg)
                continue
            got = z3.BV2Int(r.value.z(), False)
            s.add(got != want)
            chk.queries += 1
            if s.check() == z3.sat:
                confirm_type_size(chk, name, s, n16, n8, None)
            else:
                chk.ok()
        chk.sample({'get_type_size': name, 'paths': len(res)})
    # native validation of the table on concrete types
    jobs, exp = [], []
    for t, want in [('bool', 8), ('address', 160), ('address payable', 160), ('uint8', 8), ('uint256', 256), ('int24', 24),
                    ('bytes1', 8), ('bytes32', 256), ('bytes17', 136), ('string', 256), ('bytes', 256),
                    ('mapping(address => uint8)', 256), ('uint8[]', 256), ('S', 256)]:
        jobs.append(['typesize', chk.native.file('%s x;\n' % t)]); exp.append((t, want))
    for (t, want), r in zip(exp, chk.native.run(jobs)):
        chk.validated += 1
        if r[0] != 'OK' or int(r[1]) != want:
            chk.violation('type_size:' + t.split('(')[0].split(' ')[0].rstrip('0123456789[]'),
                          'get_type_size of `%s` is %s, the storage model says %d' % (t, r[1:], want),
                          {'job': 'typesize', 'source': '%s x;' % t, 'expected': want, 'observed': r})


def confirm_type_size(chk, name, s, n16, n8, panic):
    m = s.model()
    w16, w8 = m.eval(n16, model_completion=True).as_long(), m.eval(n8, model_completion=True).as_long()
    src = {'Int(n)': 'int%d' % w16, 'Uint(n)': 'uint%d' % w16, 'Bytes(n)': 'bytes%d' % w8}.get(name)
    want = {'Int(n)': w16, 'Uint(n)': w16, 'Bytes(n)': 8 * w8}.get(name)
    if src is None or (name != 'Bytes(n)' and (w16 % 8 or not 8 <= w16 <= 256)):
        # a width the parser cannot produce: outside the property's domain
        chk.ok(); return
    r = chk.native.run([['typesize', chk.native.file('%s x;\n' % src)]])[0]
    if r[0] == 'OK' and int(r[1]) == want:
        chk.broken('get_type_size(%s): the encoding predicts a wrong size, the real code returns %s' % (src, r[1]))
    chk.violation('type_size:' + name, 'get_type_size of `%s` is %s, the storage model says %d' % (src, r[1:], want),
                  {'job': 'typesize', 'source': src + ' x;', 'expected': want, 'observed': r})


def size_vars(n, tag='k'):
    ks = [z3.BitVec('%s%d' % (tag, i), 16) for i in range(n)]
    pre = [z3.And(z3.UGE(k, 1), z3.ULE(k, 32)) for k in ks]
    return ks, pre


def check_slots(chk, maxlen):
    e = chk.engine()
    fn = e.func('storage_slots_used')
    if not chk.native.available('slots'):
        chk.undecide('storage_slots_used changed its signature: the unit-level harness is not applicable (the detectors are still decided end to end)')
        return
    for n in range(0, maxlen + 1):
        ks, pre = size_vars(n)
        sizes = [Int(k * 8, 'u16') for k in ks]
        res = e.explore(lambda e: e.call_mir(fn, [VecV(sizes)]), base_constraints=pre)
        want = layout_slots([z3.BV2Int(k, False) * 8 for k in ks])
        for r in res:
            if r.outcome == 'unsupported':
                chk.undecide('storage_slots_used len %d: %s' % (n, r.value)); continue
            s = z3.Solver(); s.add(*pre); s.add(*r.pc)
            if r.outcome == 'return':
                s.add(z3.BV2Int(r.value.z(), False) != want)
            chk.queries += 1
            verdict = s.check()
            if verdict in (z3.sat, z3.unsat):
                chk.cross_check(s, 'sat' if verdict == z3.sat else 'unsat', every=10)
            if verdict == z3.sat:
                m = s.model()
                vals = [m.eval(k, model_completion=True).as_long() * 8 for k in ks]
                nat = chk.native.run([['slots', ','.join(map(str, vals))]])[0]
                ref = ref_slots(vals)
                if nat[0] == 'OK' and int(nat[1]) == ref:
                    chk.broken('storage_slots_used%r: encoding disagrees with the real code (%s)' % (vals, nat))
                chk.violation('slots:len%d' % n, 'storage_slots_used(%r) = %s, Solidity layout rule gives %d' % (vals, nat[1:], ref),
                              {'job': 'slots', 'sizes': vals, 'expected': ref, 'observed': nat})
            else:
                chk.ok()
        # translator validation: concrete samples through the real function
        jobs, exp = [], []
        for r in res[:: max(1, len(res) // (6 if chk.quick else 40))]:
            if r.outcome != 'return':
                continue
            s = z3.Solver(); s.add(*pre); s.add(*r.pc)
            if s.check() != z3.sat:
                continue
            m = s.model()
            vals = [m.eval(k, model_completion=True).as_long() * 8 for k in ks]
            pred = m.eval(r.value.z(), model_completion=True).as_long()
            jobs.append(['slots', ','.join(map(str, vals))]); exp.append((vals, pred))
        for (vals, pred), nat in zip(exp, chk.native.run(jobs)):
            chk.validated += 1
            if nat[0] != 'OK' or int(nat[1]) != pred:
                chk.broken('storage_slots_used%r: engine predicts %d, real code returns %s' % (vals, pred, nat))
        chk.sample({'storage_slots_used': 'length %d, sizes 8*k_i (k_i symbolic in 1..32)' % n, 'paths': len(res)})


def ref_slots(vals):
    free, slots = 0, 0
    for s in vals:
        if s <= free:
            free -= s
        else:
            slots += 1
            free = 256 - s
    return slots


def member_type(b, i, k, kinds):
    """elementary type of member i: symbolic width 8*k bits, kind chosen by the path"""
    alts = []
    for kind in kinds:
        if kind == 'uint':
            alts.append(b.ty('Uint', Int(k * 8, 'u16')))
        elif kind == 'int':
            alts.append(b.ty('Int', Int(k * 8, 'u16')))
        elif kind == 'bytes':
            alts.append(b.ty('Bytes', Int(z3.Extract(7, 0, k), 'u8')))
    return alts[0] if len(alts) == 1 else Choice('kind%d' % i, alts)


def check_pack_detector(chk, detector, n, kinds, where):
    """`where`: 'contract' / 'abstract_contract' (state variables), 'struct_file', 'struct_contract' / 'struct_abstract' / 'struct_library' /
    'struct_interface' (a struct declared inside that kind of contract)"""
    e = chk.engine()
    fname = {'pack_storage_variables': 'pack_storage_variables_optimization',
             'pack_struct_variables': 'pack_struct_variables_optimization'}[detector]
    fn = e.func(fname)
    b = sol.TreeBuilder()
    ks, pre = size_vars(n, 'm')
    few_symbolic = where.startswith('mixed_') and sum(1 for k_ in kinds if k_ in ('uint', 'int', 'bytes')) < 3
    if where.startswith('mixed_'):
        # per-member kinds: 'uint' = symbolic width as everywhere, or the name of a type of FIXED size that is not an integer / bytesN
        # (string, bytes, mapping, array and user-defined types fill a slot of their own; address 160 bits; bool 8 bits)
        fixed = {'String': (lambda: b.ty('String'), 256), 'DynamicBytes': (lambda: b.ty('DynamicBytes'), 256), 'Mapping': (lambda: b.mapping(b.ty('Address'), b.ty('Uint', 8)), 256),
                 'Array': (lambda: b.index(b.ty('Uint', 8)), 256), 'User': (lambda: b.var('Token'), 256), 'Address': (lambda: b.ty('Address'), 160), 'Bool': (lambda: b.ty('Bool'), 8)}
        types = []
        pre = list(pre)
        for i, kind in enumerate(kinds):
            if kind in fixed:
                types.append(fixed[kind][0]())
                pre.append(ks[i] == fixed[kind][1] // 8)
            else:
                types.append(member_type(b, i, ks[i], [kind]))
        where = {'mixed_contract': 'contract', 'mixed_struct': 'struct_file', 'mixed_struct_contract': 'struct_contract'}[where]
    else:
        types = [member_type(b, i, ks[i], kinds) for i in range(n)]
    if where in ('contract', 'abstract_contract'):
        target = b.contract('Contract' if where == 'contract' else 'Abstract', 'C', [b.cpart(b.state_var(t, 'v%d' % i)) for i, t in enumerate(types)])
        su = b.source_unit([b.supart(target)])
    elif where in ('event_first', 'function_between', 'struct_and_using_between'):
        # members that are not state variables before / between them: the sequence of state variables is what is judged
        vs = [b.cpart(b.state_var(t, 'v%d' % i)) for i, t in enumerate(types)]
        ev = b.cpart(b.event('Ev', [(b.ty('Bool'), 'f')]))
        fnm = b.cpart(b.function('Function', 'g', [], [b.fattr('visibility', 'public')], b.block([])))
        extra = {'event_first': [ev] + vs, 'function_between': vs[:1] + [fnm] + vs[1:],
                 'struct_and_using_between': vs[:-1] + [b.cpart(b.struct('In', [(b.ty('Uint', 8), 'a')])), b.cpart(b.using('L', None))] + vs[-1:]}[where]
        target = b.contract('Contract', 'C', extra)
        su = b.source_unit([b.supart(target)])
    elif where in ('after_contract_with_1', 'after_contract_with_2', 'before_contract_with_2'):
        # another contract with one or two state variables (never packable itself) in the same file: nothing of it may reach the verdict on C
        kp, prep = size_vars(2 if where.endswith('2') else 1, 'p')
        pre = pre + prep
        other = b.contract('Contract', 'P', [b.cpart(b.state_var(b.ty('Uint', Int(k_ * 8, 'u16')), 'w%d' % i)) for i, k_ in enumerate(kp)])
        target = b.contract('Contract', 'C', [b.cpart(b.state_var(t, 'v%d' % i)) for i, t in enumerate(types)])
        su = b.source_unit([b.supart(other), b.supart(target)] if where.startswith('after') else [b.supart(target), b.supart(other)])
    elif where == 'struct_file':
        target = b.struct('S', [(t, 'v%d' % i) for i, t in enumerate(types)])
        su = b.source_unit([b.supart(target)])
    else:
        target = b.struct('S', [(t, 'v%d' % i) for i, t in enumerate(types)])
        holder = {'struct_contract': 'Contract', 'struct_abstract': 'Abstract', 'struct_library': 'Library', 'struct_interface': 'Interface'}[where]
        su = b.source_unit([b.supart(b.contract(holder, 'C', [b.cpart(target)]))])
    target_id = sol.loc_id(target.fields[0])
    sizes = [k * 8 for k in ks]
    declared, asc, desc = layout_slots_bv(sizes), sorted_slots_bv(sizes), sorted_slots_bv(sizes, True)
    res = e.explore(lambda e: e.call_mir(fn, [su]), base_constraints=pre, max_paths=200000)
    n_rep = n_not = 0
    for r in res:
        if r.outcome == 'unsupported':
            chk.undecide('%s n=%d: %s' % (detector, n, r.value)); continue
        s = z3.Solver(); s.add(*pre); s.add(*r.pc)
        if r.outcome == 'panic':
            viol, why = z3.BoolVal(True), 'panics: ' + r.value.msg
            reported = None
        else:
            ids = [sol.loc_id(x) for x in r.value.items]
            if any(i != target_id for i in ids):
                viol, why, reported = z3.BoolVal(True), 'reports a location that is not the %s definition' % where, True
            elif ids:
                n_rep += 1
                reported = True
                viol, why = z3.Not(z3.ULT(asc, declared)), 'reported although sorting by size does not save a slot'
            else:
                n_not += 1
                reported = False
                viol, why = z3.And(z3.ULT(asc, declared), z3.ULT(desc, declared)), 'not reported although both sort directions save a slot'
        s.add(viol)
        chk.queries += 1
        res_q = s.check()
        if res_q == z3.unknown:
            chk.undecide('%s n=%d: solver unknown' % (detector, n)); continue
        if res_q == z3.unsat:
            chk.ok(); continue
        m = s.model()
        conc = sol.concretize(su, r.choices, m)
        text, starts = sol.print_source(concretize_widths(conc, m))
        nat = chk.native.run([['detect', detector, chk.native.file(text)]])[0]
        vals = [m.eval(k, model_completion=True).as_long() * 8 for k in ks]
        nat_rep = nat[0] == 'OK' and nat[1] != ''
        d, a, ds = ref_slots(vals), ref_slots(sorted(vals)), ref_slots(sorted(vals, reverse=True))
        real_viol = (nat[0] != 'OK') or (nat_rep and not a < d) or (not nat_rep and a < d and ds < d)
        if not real_viol:
            chk.broken('%s on %r: counterexample does not reproduce on the real code (%s)' % (detector, text, nat))
        chk.violation('%s:%s' % (detector, 'panic' if nat[0] != 'OK' else 'unsound' if nat_rep else 'missed'),
                      '%s: %s; member sizes %r: declared %d slots, ascending %d, descending %d' % (detector, why, vals, d, a, ds),
                      {'job': 'detect', 'detector': detector, 'source': text, 'observed': nat})
    # vacuity guards + translator validation
    if not chk.undecided and not chk.violations and not getattr(chk, '_pending_viol', None) and (n >= 3 and not few_symbolic and (n_rep == 0 or n_not == 0)):
        chk.broken('%s n=%d: vacuous harness (reported paths %d, silent paths %d)' % (detector, n, n_rep, n_not))
    step = max(1, len(res) // (5 if chk.quick else 40))
    jobs, exp = [], []
    for r in res[chk.seed % step:: step]:
        if r.outcome != 'return':
            continue
        s = z3.Solver(); s.add(*pre); s.add(*r.pc)
        if s.check() != z3.sat:
            continue
        m = s.model()
        text, starts = sol.print_source(concretize_widths(sol.concretize(su, r.choices, m), m))
        pred = sorted(starts[sol.loc_id(x)] for x in r.value.items)
        jobs.append(['detect', detector, chk.native.file(text)]); exp.append((text, pred))
    for (text, pred), nat in zip(exp, chk.native.run(jobs)):
        chk.validated += 1
        got = sorted(int(x.split(':')[0]) for x in nat[1].split(',') if x) if nat[0] == 'OK' else nat
        if got != pred:
            chk.broken('%s: engine predicts %r, real code returns %r on\n%s' % (detector, pred, got, text))
    chk.sample({'detector': detector, 'members': n, 'kinds': kinds, 'where': where, 'paths': len(res),
                'reported_paths': n_rep, 'silent_paths': n_not, 'example': exp[0][0] if exp else None})
    chk.absorb(e)


def native_long_lists(chk, n):
    """beyond the symbolic bound: EVERY list of n members over five sizes (bool 8, uint96, uint128, address 160, uint256) through both compiled
    detectors, as state variables and as a struct, against the layout rule (reported => ascending order saves a slot; both sorted orders save a
    slot => reported). Exhaustive over the family, decided by running the real code (DESIGN 4.4), not by the solver"""
    import itertools
    tys = {8: 'bool', 96: 'uint96', 128: 'uint128', 160: 'address', 256: 'uint256'}
    lists = list(itertools.product(sorted(tys), repeat=n))
    jobs, meta = [], []
    for k, sizes in enumerate(lists):
        decl = ' '.join('%s v%d;' % (tys[sz], i) for i, sz in enumerate(sizes))
        for det, text in (('pack_storage_variables', 'pragma solidity 0.8.16;\ncontract C { %s }\n' % decl),
                          ('pack_struct_variables', 'pragma solidity 0.8.16;\nstruct S { %s }\n' % decl)):
            if (k + (det == 'pack_struct_variables')) % 2:
                continue                               # each list through one of the two detectors, alternating
            jobs.append(['detect', det, chk.native.file(text)]); meta.append((det, sizes, text))
    bad = 0
    for (det, sizes, text), nat in zip(meta, chk.native.run(jobs)):
        chk.states += 1
        d, a, ds = ref_slots(list(sizes)), ref_slots(sorted(sizes)), ref_slots(sorted(sizes, reverse=True))
        rep = nat[0] == 'OK' and nat[1] != ''
        wrong = nat[0] != 'OK' or (rep and not a < d) or (not rep and a < d and ds < d)
        if wrong:
            bad += 1
            if bad <= 2:
                chk.violation('%s:%s' % (det, 'panic' if nat[0] != 'OK' else 'unsound' if rep else 'missed'),
                              '%s on %d members of sizes %r: %s; declared %d slots, ascending %d, descending %d' % (
                                  det, n, list(sizes), 'panics' if nat[0] != 'OK' else 'reported' if rep else 'not reported', d, a, ds),
                              {'job': 'detect', 'detector': det, 'source': text, 'observed': nat})
        else:
            chk.ok()
    chk.validated += len(meta)
    chk.sample({'long member lists': 'all %d lists of %d members over the sizes %r, alternating between the two detectors' % (len(lists), n, sorted(tys))})


def native_same_names(chk):
    """struct (and variable) names are unique per SCOPE, not per file: the same struct name in two contracts / at file level and in a contract, the
    same variable names in two contracts -- every one of them is judged on its own"""
    packable, tight = 'uint128 a; uint256 b; uint128 c;', 'uint128 a; uint128 c; uint256 b;'
    cases = [('two contracts, both packable', 'contract A { struct Position { %s } }\ncontract B { struct Position { %s } }\n' % (packable, packable), 'pack_struct_variables', 2),
             ('file level and contract, both packable', 'struct Position { %s }\ncontract B { struct Position { %s } }\n' % (packable, packable), 'pack_struct_variables', 2),
             ('three scopes, the middle one tight', 'struct Position { %s }\ncontract A { struct Position { %s } }\nlibrary L { struct Position { %s } }\n' % (packable, tight, packable), 'pack_struct_variables', 2),
             ('two contracts with the same variable names, both packable', 'contract A { %s }\ncontract B { %s }\n' % (packable, packable), 'pack_storage_variables', 2),
             ('two contracts with the same variable names, the first tight', 'contract A { %s }\ncontract B { %s }\n' % (tight, packable), 'pack_storage_variables', 1)]
    for what, body_, det, want in cases:
        text = 'pragma solidity 0.8.16;\n' + body_
        nat = chk.native.run([['detect', det, chk.native.file(text)]])[0]
        chk.validated += 1
        got = len([x for x in nat[1].split(',') if x]) if nat[0] == 'OK' else None
        if got != want:
            chk.violation('%s:same-names' % det, '%s on %s: %s definitions reported, %d can be packed' % (det, what, got if got is not None else nat, want),
                          {'job': 'detect', 'detector': det, 'source': text, 'observed': nat})
        else:
            chk.ok()


def concretize_widths(v, m):
    """evaluate the symbolic width parameters of Type::Uint/Int/Bytes under the model"""
    from ..engine import BoxV, Tuple
    if isinstance(v, Adt):
        if v.ty == 'Type' and v.variant in ('Uint', 'Int', 'Bytes') and not v.fields[0].concrete:
            return Adt('Type', v.variant, (Int(m.eval(v.fields[0].v, model_completion=True).as_long(), v.fields[0].ty),))
        return Adt(v.ty, v.variant, [concretize_widths(f, m) for f in v.fields])
    if isinstance(v, BoxV):
        return BoxV(concretize_widths(v.inner, m))
    if isinstance(v, VecV):
        return VecV([concretize_widths(f, m) for f in v.items])
    if isinstance(v, Tuple):
        return Tuple([concretize_widths(f, m) for f in v.fields])
    return v


def kani_cross_check(chk):
    """E2: Kani/CBMC decides storage_slots_used == layout rule for all vectors of length <= 5 over the COMPILED code;
    its verdict must agree with E1's (differential check of the MIR translator)."""
    from .. import prepare
    res = prepare.kani_slots(chk.world.build)
    chk.extra['kani_cross_check'] = res
    e1_holds = not any(k.startswith('slots:') for k, _, _ in chk.violations) and not any(k.startswith('slots:') for k in chk.known_hits)
    if res.get('status') != 'ok':
        chk.assumptions.append('E2 (Kani) inconclusive on this run: %s' % res.get('why', '')[:200])
        return
    if res['twin'] != 'FAILED':
        chk.broken('Kani vacuity twin did not fail (%s): the harness assumptions are unsatisfiable' % res['twin'])
    kani_holds = res['main'] == 'SUCCESSFUL'
    if kani_holds != e1_holds:
        chk.broken('E1 and E2 disagree on storage_slots_used: mirsym says %s, Kani says %s' % ('holds' if e1_holds else 'violated', res['main']))
    chk.ok()
    chk.sample({'kani': res})


def body(chk):
    maxlen = 5 if chk.quick else 7
    nmem = 4 if chk.quick else 5
    chk.bounds = {'storage_slots_used: vector length': '0..%d' % maxlen, 'member sizes': '8*k bits, k in 1..32',
                  'pack detectors: members per contract/struct': '1..%d' % nmem, 'containers': 'contract, abstract contract, contract before / after another contract with 1-2 symbolic members (state variables); file level, contract, abstract contract, library, interface (structs)',
                  'mixed members': 'string / bytes / mapping / array / user-defined (256 bits), address (160), bool (8) between, before and behind integers of symbolic width', 'outside': 'longer member lists'}
    chk.assumptions = ['slice::sort contract: result is a sorted permutation of the input',
                       'Vec/HashSet contracts of DESIGN.md 2.4', 'parser produces uintN/intN with N in 8..256 step 8 and bytesN with N in 1..32']
    check_type_size(chk)
    check_slots(chk, maxlen)
    cases = []
    for n in range(1, nmem + 1):
        kinds = ['uint'] if n >= 3 else ['uint', 'int', 'bytes']
        cases.append(('pack_storage_variables', n, kinds, 'contract'))
        cases.append(('pack_struct_variables', n, kinds, 'struct_file'))
    cases.append(('pack_struct_variables', 2, ['uint', 'bytes'], 'struct_contract'))
    cases.append(('pack_struct_variables', 3, ['uint'], 'struct_contract'))
    cases.append(('pack_struct_variables', nmem, ['uint'], 'struct_contract'))
    cases.append(('pack_storage_variables', 3, ['uint', 'bytes'], 'abstract_contract'))
    for w in ('event_first', 'function_between', 'struct_and_using_between'):
        cases.append(('pack_storage_variables', 3, ['uint'], w))
    for w in ('after_contract_with_1', 'after_contract_with_2', 'before_contract_with_2'):
        cases.append(('pack_storage_variables', 3, ['uint'], w))
        cases.append(('pack_storage_variables', 2, ['uint'], w))
    for holder in ('struct_abstract', 'struct_library', 'struct_interface'):
        cases.append(('pack_struct_variables', 3, ['uint'], holder))
    # members of a type that is not an integer / bytesN between, before and behind small members: their size closes slots like any other
    mixes = [['uint', 'String', 'uint'], ['uint', 'Mapping', 'uint'], ['uint', 'DynamicBytes', 'uint', 'uint'], ['Bool', 'Array', 'Bool'], ['uint', 'User', 'Bool'],
             ['Address', 'uint', 'Address'], ['String', 'uint', 'uint'], ['uint', 'uint', 'Mapping'], ['Bool', 'uint', 'Address', 'uint']]
    if chk.quick:
        mixes = mixes[:3] + [mixes[3 + (chk.seed + k) % (len(mixes) - 3)] for k in range(2)]
    for mx in mixes:
        cases.append(('pack_storage_variables', len(mx), mx, 'mixed_contract'))
        cases.append(('pack_struct_variables', len(mx), mx, 'mixed_struct' if len(mx) % 2 else 'mixed_struct_contract'))
    chk.parallel(lambda c, it: check_pack_detector(c, *it), cases)
    for n_ in ((5,) if chk.quick else (5, 6)):
        native_long_lists(chk, n_)
    native_same_names(chk)
    kani_cross_check(chk)


if __name__ == '__main__':
    main('C10', body)
