"""C09 — version-gated detectors follow the file's `pragma solidity` version (DESIGN.md 6/C09)."""
import itertools

import z3

from .. import families as fam, oracle, sol
from ..checklib import main
from ..engine import Str
from ..lib import SegStr

DETECTORS = ['safe_math_pre_080', 'safe_math_post_080', 'string_errors', 'short_revert_string']
OPS = ['', '^', '~', '=', '>=', '>', '>= ', '<=']
PLACEMENTS = ['only', 'experimental_before', 'abicoder_before', 'both_before', 'experimental_after', 'before_and_after',
              'after_contract', 'versioned_experimental_before', 'versioned_experimental_after']
USING = ['contract', 'file', 'none', 'other_library', 'qualified', 'other_then_safemath', 'safemath_then_other', 'file_other_contract_safemath', 'two_others']


def version_value(op, tag=''):
    M, m, p = z3.Int('M' + tag), z3.Int('m' + tag), z3.Int('p' + tag)
    return SegStr([('lit', op), ('dec', M), ('lit', '.'), ('dec', m), ('lit', '.'), ('dec', p)]), (M, m, p)


def body_statements(b, strlen, rich=False):
    v = b.var
    msg = sol.SizedStr(strlen, z3.BitVec('strchars', 64))
    return [
        b.expr_stmt(b.bin('Assign', v('r'), b.call(b.member(v('a'), 'add'), [v('c')]))),
        b.expr_stmt(b.call(b.member(b.call(b.member(v('a'), 'sub'), [v('c')]), 'mul'), [v('d')])),
        b.expr_stmt(b.call(b.member(v('a'), 'div'), [v('c')])),
        b.expr_stmt(b.call(b.member(v('a'), 'mod'), [v('c')])),
        b.expr_stmt(b.call(v('add'), [v('a'), v('c')])),
        # call sites are recognised by the member they call, whatever the argument list looks like (the OpenZeppelin overloads take a
        # revert message; a call without arguments or with three is still a call of `sub` / `mul` / `div` on a member)
        b.expr_stmt(b.call(b.member(v('a'), 'sub'), [v('c'), b.string('SafeMath: subtraction overflow')])),
        b.expr_stmt(b.call(b.member(b.index(v('bal'), v('c')), 'div'), [v('c'), b.string('division by zero'), v('d')])),
        b.expr_stmt(b.call(b.member(v('a'), 'mul'), [])),
        b.expr_stmt(b.call(b.member(b.call(b.member(v('a'), 'add'), [v('c')]), 'sub'), [v('d'), b.string('nested')])),
        # the success block of a `try` WITHOUT a returns clause (the parser hangs it on the call as a call block), and a bare `catch { }`
        b.try_(b.call_block(b.call(b.member(b.this(), 'g'), []), b.block([b.expr_stmt(b.call(b.member(v('a'), 'mul'), [v('c')])),
                                                                       b.expr_stmt(b.call(v('require'), [v('c'), b.string('in the success block of a try')]))])),
               None, [b.catch_simple(None, b.block([b.expr_stmt(b.call(b.member(v('a'), 'div'), [v('d')]))]))]),
    ] + [
        # a call site as the left and as the right operand of EVERY binary operator and as the operand of every prefix operator: wherever an
        # expression can stand, a call site in it counts
        b.expr_stmt(b.bin(op, b.call(b.member(v('l'), 'mul'), [v('c')]), b.call(b.member(v('r'), 'div'), [v('c')]))) for op in (sol.BINOPS if rich else ())
    ] + [
        b.expr_stmt(b.un(op, b.call(b.member(v('u'), 'sub'), [v('c')]))) for op in (sol.PREFIX if rich else ())
    ] + [
        b.expr_stmt(b.member(v('a'), 'add')),
        b.expr_stmt(b.call(v('require'), [b.bin('More', v('a'), v('c')), b.string(msg)])),
        b.expr_stmt(b.call(v('require'), [b.bin('More', v('a'), v('c'))])),
        b.expr_stmt(b.call(v('require'), [b.string('first'), v('c')])),
        b.expr_stmt(b.call(v('assert'), [v('c'), b.string('not a require: assert with a long message of 40 bytes')])),
        b.if_(v('c'), b.block([b.expr_stmt(b.call(v('require'), [v('c'), b.string('exactly thirty-two bytes long msg')]))])),
        b.expr_stmt(b.call(v('require'), [v('c'), b.string('short')])),
    ]


def make_file(b, op, placement, using, strlen, tag='', rich=False):
    value, ver = version_value(op, tag)
    sp = b.pragma('solidity', value)
    ex = lambda: b.pragma('experimental', 'ABIEncoderV2')
    ab = lambda: b.pragma('abicoder', 'v2')
    vx = lambda: b.pragma('experimental', '"v0.5.0"')          # an unrelated pragma whose VALUE looks like a full version
    lib = {'contract': 'SafeMath', 'file': 'SafeMath', 'other_library': 'SafeCast', 'qualified': 'Libs.SafeMath'}.get(using)
    cparts = []
    if using in ('contract', 'other_library', 'qualified'):
        cparts.append(b.using(lib, b.ty('Uint', 256)))
    # several `using` directives: SafeMath is attached when ANY of them names it, wherever it stands among the others
    if using == 'other_then_safemath':
        cparts += [b.using('SafeERC20', b.var('IERC20')), b.using('SafeMath', b.ty('Uint', 256))]
    elif using == 'safemath_then_other':
        cparts += [b.using('SafeMath', b.ty('Uint', 256)), b.using('SafeCast', b.ty('Uint', 256)), b.using('Address', b.ty('Address'))]
    elif using == 'file_other_contract_safemath':
        cparts.append(b.using('SafeMath', b.ty('Uint', 256)))
    elif using == 'two_others':
        cparts += [b.using('SafeERC20', b.var('IERC20')), b.using('SafeCast', b.ty('Uint', 256))]
    cparts.append(fam.fn_def(b, body_statements(b, strlen, rich)))
    c = fam.contract_with(b, cparts)
    fparts = [b.supart(b.using(lib, b.ty('Uint', 256)))] if using == 'file' else ([b.supart(b.using('Strings', b.ty('Uint', 256)))] if using == 'file_other_contract_safemath' else [])
    pre = {'only': [sp], 'experimental_before': [ex(), sp], 'abicoder_before': [ab(), sp], 'both_before': [ex(), ab(), sp],
           'experimental_after': [sp, ex()], 'before_and_after': [ab(), sp, ex()], 'after_contract': None,
           'versioned_experimental_before': [vx(), sp], 'versioned_experimental_after': [sp, vx()]}[placement]
    if pre is None:
        parts = [ex()] + fparts + [c, sp]
    else:
        parts = pre + fparts + [c]
    return b.source_unit(parts), ver


def job(chk, items):
    e = chk.engine()
    results = []
    for item in items:
        (op, placement, using, bound), only = item[:4], (item[4] if len(item) > 4 else None)
        for d in ([only] if only else DETECTORS):
            b = sol.TreeBuilder()
            strlen = z3.BitVec('strlen', 64)
            # the operator-rich body (a call site under every binary / prefix operator) in one of the files; the others keep the short body
            su, ver = make_file(b, op, placement, using, strlen, rich=(placement == 'only' and using == 'contract' and op == '>='))
            M, m, p = ver
            sc = z3.BitVec('strchars', 64)
            base = [M >= 0, m >= 0, p >= 0, M < bound, m < bound, p < bound, z3.ULE(strlen, 40), z3.ULE(sc, strlen), z3.ULE(strlen, 2 * sc)]
            # the property speaks of a full version: within i32 all three components parse
            meta = {'version': ver}
            label = 'pragma solidity %s<M>.<m>.<p> [%s] using=%s' % (op, placement, using)
            results.append(fam.run_case(chk, e, d, su, label, {v.decl().name() for v in b.loc_vars}, meta=meta, base=base))
    fam.flush_validation(chk, results)
    chk.extra_lists.setdefault('per_job', []).append({'cases': len(results), 'paths': sum(r.paths for r in results),
                                                      'paths_with_reports': sum(r.flagged for r in results),
                                                      'paths_without': sum(r.silent for r in results)})
    if results and results[0].jobs:
        chk.sample({'case': results[0].jobs[0][1], 'file': results[0].jobs[0][2], 'predicted_starts': results[0].jobs[0][3]})


SWEEP_BODY = """
contract C {
    using SafeMath for uint256;
    function f(uint256 a, uint256 c) public {
        uint256 r = a.add(c);
        require(a > c, "a revert string that is longer than thirty-two bytes");
        require(a > c, "short");
    }
}
"""


def sweep_job(chk, versions):
    """DESIGN 4.4 fallback: the property's own exhaustive range, natively (never an alarm by itself unless the real code fails)"""
    jobs, meta = [], []
    for (M, m, p) in versions:
        for op in OPS:
            text = 'pragma solidity %s%d.%d.%d;\n' % (op, M, m, p) + SWEEP_BODY
            path = chk.native.file(text)
            for d in DETECTORS:
                jobs.append(['analyze', 'opt', d, path])
                meta.append((op, (M, m, p), d, text))
    for (op, v, d, text), r in zip(meta, chk.native.run(jobs)):
        chk.states += 1
        pre, post84 = v < (0, 8, 0), v >= (0, 8, 4)
        want = {'safe_math_pre_080': [6] if pre else [], 'safe_math_post_080': [] if pre else [6],
                'string_errors': [7, 8] if post84 else [], 'short_revert_string': [] if post84 else [7]}[d]
        got = [int(x) for x in r[1].split(',') if x] if r[0] == 'OK' else r
        if got != want:
            chk.violation('%s:version-sweep:%s' % (d, 'panic' if r[0] != 'OK' else 'wrong'),
                          '%s with `pragma solidity %s%d.%d.%d;` reports lines %r, expected %r' % ((d, op) + v + (got, want)),
                          {'job': 'analyze', 'detector': d, 'source': text, 'expected': want, 'observed': got})


def body(chk):
    bound = 1 << 31
    combos = []
    for op in OPS:
        combos.append((op, 'only', 'contract', bound))
    for pl in PLACEMENTS:
        combos.append(('^', pl, 'contract', bound))
    for us in USING:
        combos.append(('>=', 'only', us, bound))
    if not chk.quick:
        combos = [(op, pl, us, bound) for op in OPS for pl in PLACEMENTS for us in USING]
    combos = list(dict.fromkeys(combos))
    chk.bounds = {'version': 'M, m, p symbolic naturals < 2^31 (every triple, decided by Z3)', 'operator spellings': OPS,
                  'placement of unrelated pragmas': PLACEMENTS, 'SafeMath attachment': USING,
                  'revert string length': 'symbolic: 0..40 bytes, characters of 1 or 2 bytes (byte and character counts both symbolic)', 'files': len(combos),
                  'outside': 'range pragmas / several `pragma solidity` directives (the property speaks of one full version)'}
    chk.assumptions = ['regex contract for \\d+\\.\\d+\\.+\\d+ on structured strings: match structure independent of the digits chosen (validated natively on every path)',
                       'parse::<i32> contract: decimal digits, value must fit', 'as C05']
    is_rich = lambda c: c[1] == 'only' and c[2] == 'contract' and c[0] == '>='
    plain = [c for c in combos if not is_rich(c)]
    chunks = [plain[k:k + 2] for k in range(0, len(plain), 2)] + [[c + (d,)] for c in combos if is_rich(c) for d in DETECTORS]      # the long file: one job per detector
    chk.parallel(job, chunks)
    if chk.undecided:
        versions = [(M, m, p) for M in (0, 1) for m in range(0, 13) for p in range(0, 41)]
        chk.parallel(sweep_job, [versions[k:k + 70] for k in range(0, len(versions), 70)])
        chk.extra['native_version_sweep'] = '0.0.0 .. 1.12.40 x %d operator spellings x 4 detectors' % len(OPS)
    rep = sum(j['paths_with_reports'] for j in chk.extra_lists.get('per_job', []))
    sil = sum(j['paths_without'] for j in chk.extra_lists.get('per_job', []))
    if not chk.undecided and not chk.violations and (rep == 0 or sil == 0):
        chk.broken('vacuous family (paths with a report: %d, without: %d)' % (rep, sil))


if __name__ == '__main__':
    main('C09', body)
