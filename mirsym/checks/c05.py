"""C05 — expression-level gas detectors flag exactly their documented pattern (DESIGN.md section 6 C05, section 8)."""
import itertools

from .. import families as fam, oracle, sol
from ..checklib import main

DETECTORS = list(oracle.EXPRESSION_DETECTORS)


def job(chk, item):
    detector, positions, pair_mode = item
    e = chk.engine()
    results = []
    if pair_mode == 'composed':
        # several occurrences (form x position, drawn by the seed) in ONE file: every one must be judged as it is alone
        nforms = len(fam.forms_for(detector, sol.TreeBuilder()))
        for combo in positions:
            b = sol.TreeBuilder()
            parts, labels = [], []
            for (i, pos) in combo:
                label, expr = fam.forms_for(detector, b)[i % nforms]
                parts += fam.POSITIONS[pos](b, expr)
                labels.append('%s @ %s' % (label, pos))
            su = b.source_unit([b.pragma('solidity', '0.8.16')] + parts)
            names = {v.decl().name() for v in b.loc_vars}
            results.append(fam.run_case(chk, e, detector, su, 'composed: ' + ' || '.join(labels), names))
    elif not pair_mode:
        for pos in positions:
            b0 = sol.TreeBuilder()
            nforms = len(fam.forms_for(detector, b0))
            for i in range(nforms):
                b = sol.TreeBuilder()
                label, expr = fam.forms_for(detector, b)[i]
                su = fam.build_file(b, pos, expr)
                names = {v.decl().name() for v in b.loc_vars}
                results.append(fam.run_case(chk, e, detector, su, '%s @ %s' % (label, pos), names))
            # the identifier the detector looks for as a symbolic string: decided for every spelling
            if pos in ('statement', 'for_condition', 'catch_body', 'modifier_argument'):
                for k in range(len(fam.symbolic_name_forms(detector, sol.TreeBuilder()))):
                    b = sol.TreeBuilder()
                    label, expr, cons = fam.symbolic_name_forms(detector, b)[k]
                    su = fam.build_file(b, pos, expr)
                    names = {v.decl().name() for v in b.loc_vars}
                    results.append(fam.run_case(chk, e, detector, su, '%s @ %s' % (label, pos), names, base=cons))
    else:
        # two occurrences in one file: same function / two contracts (no occurrence may hide or fake another)
        for (i, j, where) in positions:
            b = sol.TreeBuilder()
            F1 = fam.forms_for(detector, b)
            F2 = fam.forms_for(detector, b)
            (l1, e1), (l2, e2) = F1[i], F2[j]
            if where == 'same_function':
                parts = [fam.contract_with(b, [fam.fn_def(b, [b.expr_stmt(e1), b.expr_stmt(e2)])])]
            else:
                parts = [fam.contract_with(b, [fam.fn_def(b, [b.expr_stmt(e1)])], name='A'),
                         fam.contract_with(b, [fam.fn_def(b, [b.if_(b.var('c'), b.block([b.expr_stmt(e2)]))], name='g')], name='B2')]
            su = b.source_unit([b.pragma('solidity', '0.8.16')] + parts)
            names = {v.decl().name() for v in b.loc_vars}
            results.append(fam.run_case(chk, e, detector, su, '%s ; %s @ %s' % (l1, l2, where), names))
    fam.flush_validation(chk, results)
    flagged = sum(r.flagged for r in results)
    silent = sum(r.silent for r in results)
    chk.extra_lists.setdefault('per_job', []).append({'detector': detector, 'cases': len(results), 'paths': sum(r.paths for r in results),
                                                      'paths_with_reports': flagged, 'paths_without': silent})
    if results and results[0].jobs:
        chk.sample({'detector': detector, 'case': results[0].jobs[0][1], 'file': results[0].jobs[0][2], 'predicted_starts': results[0].jobs[0][3]})


def body(chk):
    allpos = list(fam.POSITIONS)
    if chk.quick:
        rot = [p for p in allpos if p not in fam.QUICK_POSITIONS]
        extra = [rot[(chk.seed * 3 + k) % len(rot)] for k in range(3)]
        positions = fam.QUICK_POSITIONS + extra
    else:
        positions = allpos
    chk.bounds = {'positions': '%d of %d syntactic positions (%s)' % (len(positions), len(allpos), 'quick: fixed core + 3 rotating by seed' if chk.quick else 'all'),
                  'forms': 'all canonical / non-matching / near-miss forms of DESIGN.md section 8 per detector; shift_math literal = symbolic 130-bit natural',
                  'occurrences per file': '1 (all positions), 2 (same function, two contracts) and 3-5 (shift_math: 2-3) seeded (form, position) members composed into one file (12 files per detector, thorough 120)',
                  'outside': 'deeper nesting of positions inside positions (covered by C01\'s induction), inline assembly content'}
    chk.assumptions = ['tree families are parser-producible: every validated path is printed, re-parsed by the real parser and compared with the executed tree',
                       'Vec/HashSet/Option/String contracts of DESIGN.md 2.4; Loc offsets are free symbols (results may not depend on them)']
    items = []
    for d in DETECTORS:
        chunk = 2 if chk.quick else 6
        for k in range(0, len(positions), chunk):
            items.append((d, positions[k:k + chunk], False))
        n = len(fam.forms_for(d, sol.TreeBuilder()))
        pairs = [(i, j, w) for i in range(n) for j in range(n) for w in ('same_function', 'two_contracts')]
        if chk.quick:
            chk.rng.shuffle(pairs)
            pairs = pairs[:40]
        for k in range(0, len(pairs), 8):
            items.append((d, pairs[k:k + 8], True))
        ncomp = 12 if chk.quick else 120
        # (shift_math: every member carries a symbolic 130-bit literal, the paths multiply per member -> two or three members per file)
        sizes_ = [2, 3] if d == 'shift_math' else [3, 4, 5]
        combos = [[(chk.rng.randrange(n), chk.rng.choice(allpos)) for _ in range(chk.rng.choice(sizes_))] for _ in range(ncomp)]
        for k in range(0, len(combos), 1):
            items.append((d, combos[k:k + 1], 'composed'))          # one file per job: a file with several symbolic literals is slow
    chk.parallel(job, items)
    # vacuity guard: every detector's family must contain paths that report and paths that do not
    for d in DETECTORS:
        rep = sum(j['paths_with_reports'] for j in chk.extra_lists.get('per_job', []) if j['detector'] == d)
        sil = sum(j['paths_without'] for j in chk.extra_lists.get('per_job', []) if j['detector'] == d)
        if not chk.undecided and not chk.violations and (rep == 0 or sil == 0):
            chk.broken('%s: vacuous family (paths with a report: %d, without: %d)' % (d, rep, sil))


if __name__ == '__main__':
    main('C05', body)
