"""C19 — findings compose over the top-level items of a file (DESIGN.md 6/C19): for every detector except the two SafeMath
ones, R(pragmas + I1 + I2) = R(pragmas + I1) ∪ R(pragmas + I2), the items keeping their own nodes (and so their Locs)."""
import itertools

import z3

from .. import families as fam, oracle, sol
from ..checklib import main
from ..engine import Unsupported
from ..native import unhex
from .c06 import make_function, make_variable
from .c08 import write_expr

DETECTORS = [d for d in oracle.MIR_NAME if not d.startswith('safe_math')]


def items(b, tag):
    """top-level items; state-variable names carry the tag so that two items never mention each other's variables"""
    v, n = b.var, b.num
    x, y = 'x' + tag, 'y' + tag
    req = lambda *a: b.expr_stmt(b.call(v('require'), list(a)))
    body_rich = [b.expr_stmt(b.bin('Assign', v(x), b.bin('Add', v(x), n(2)))), b.expr_stmt(b.un('PostIncrement', v('i'))),
                 req(b.bin('And', b.bin('MoreEqual', v('a'), n(1)), b.bin('Equal', v('o'), b.call(b.ty('Address'), [n(0)]))), b.string('a long revert string of more than 32 bytes....')),
                 b.expr_stmt(b.call(b.member(v('t'), 'transfer'), [v('o'), b.bin('Multiply', b.bin('Divide', v('a'), n(2)), n(4))])),
                 b.for_(None, b.bin('Less', v('i'), b.member(v('arr'), 'length')), None, b.block([])),
                 b.expr_stmt(b.call(v('keccak256'), [b.member(b.call(b.ty('Address'), [b.this()]), 'balance')])),
                 b.expr_stmt(b.call(v('selfdestruct'), [b.call(b.ty('Payable'), [b.member(v('msg'), 'sender')])]))]
    out = {
        'contract_rich': lambda: fam.contract_with(b, [b.state_var(b.ty('Uint', 256), x), b.state_var(b.ty('Uint', 8), y, [b.vattr('visibility', 'private')]),
                                                      b.function('Function', 'work' + tag, [b.param(b.index(b.ty('Uint', 256)), 'Memory', 'arr')],
                                                                 [b.fattr('visibility', 'public')], b.block(body_rich))], name='Rich' + tag),
        'contract_ctor_after_fn': lambda: fam.contract_with(b, [make_function(b, 'Function', 'public', False, True, False, name='first' + tag),
                                                               b.function('Constructor', None, [], [], b.block([b.expr_stmt(b.bin('Assign', v(x), n(1)))])),
                                                               b.state_var(b.ty('Uint', 256), x)], name='Late' + tag),
        'contract_ctor_first': lambda: fam.contract_with(b, [b.state_var(b.ty('Address'), x),
                                                            b.function('Constructor', None, [], [], b.block([b.expr_stmt(b.bin('Assign', v(x), b.member(v('msg'), 'sender')))])),
                                                            make_function(b, 'Function', 'external', False, True, True, name='_odd' + tag)], name='Early' + tag),
        'contract_packable': lambda: fam.contract_with(b, [b.state_var(b.ty('Uint', 128), x), b.state_var(b.ty('Uint', 256), y), b.state_var(b.ty('Uint', 128), 'z' + tag),
                                                          b.struct('S' + tag, [(b.ty('Bool'), 'p'), (b.ty('Uint', 256), 'q'), (b.ty('Bool'), 'r')])], name='Pack' + tag),
        'contract_constants': lambda: fam.contract_with(b, [b.state_var(b.ty('Uint', 256), x, [b.vattr('constant'), b.vattr('visibility', 'public')], n(7)),
                                                           b.state_var(b.ty('Uint', 256), '_' + y, [b.vattr('visibility', 'public')])], name='Const' + tag),
        'library': lambda: fam.contract_with(b, [make_function(b, 'Function', 'internal', False, True, False, name='lib' + tag)], kind='Library', name='Lib' + tag),
        'interface': lambda: fam.contract_with(b, [make_function(b, 'Function', 'external', False, False, False, name='api' + tag)], kind='Interface', name='Api' + tag),
        # a library with public / external functions that have a body (whatever a detector thinks of libraries, it thinks it of THIS item alone)
        'library_public_functions': lambda: fam.contract_with(b, [make_function(b, 'Function', 'public', False, True, False, name='pub' + tag),
                                                                 make_function(b, 'Function', 'external', False, True, False, name='ext' + tag),
                                                                 make_function(b, 'Function', 'external', True, True, False, name='pay' + tag)], kind='Library', name='Tools' + tag),
        # declarations WITHOUT a body (interface, abstract contract) carry everything a detector collects per function -- parameters with a
        # data location, names, visibility -- but nothing that would close the bookkeeping for them: whatever is collected for them must
        # not surface in (or hide something of) the item that follows
        'interface_bodyless_memory_params': lambda: fam.contract_with(b, [
            b.function('Function', 'setURI' + tag, [b.param(b.ty('String'), 'Memory', 'uri' + tag), b.param(b.ty('DynamicBytes'), 'Memory', 'data' + tag)], [b.fattr('visibility', 'external')], None),
            b.function('Function', 'sum' + tag, [b.param(b.index(b.ty('Uint', 256)), 'Memory', 'ids' + tag), b.param(b.ty('Uint', 256), None, 'k' + tag)], [b.fattr('visibility', 'external')], None)],
            kind='Interface', name='IApi' + tag),
        'abstract_bodyless_memory_params': lambda: fam.contract_with(b, [
            b.state_var(b.ty('Uint', 256), x),
            b.function('Function', '_hook' + tag, [b.param(b.ty('DynamicBytes'), 'Memory', 'payload' + tag)], [b.fattr('visibility', 'internal'), b.fattr('virtual')], None),
            b.function('Function', 'run' + tag, [b.param(b.ty('String'), 'Memory', 'note' + tag)], [b.fattr('visibility', 'public')],
                       b.block([b.expr_stmt(b.bin('Assign', v('note' + tag), b.string('changed')))]))],
            kind='Abstract', name='Base' + tag),
        'contract_memory_params': lambda: fam.contract_with(b, [
            b.function('Function', 'read' + tag, [b.param(b.ty('String'), 'Memory', 'text' + tag)], [b.fattr('visibility', 'external')], b.block([b.expr_stmt(v('text' + tag))])),
            b.function('Function', 'write' + tag, [b.param(b.ty('String'), 'Memory', 'buf' + tag)], [b.fattr('visibility', 'external')],
                       b.block([b.expr_stmt(b.bin('Assign', v('buf' + tag), b.string('w')))]))], name='Mem' + tag),
        # a loop WITHOUT a condition (`for (;;)`) in one item: whatever a detector collects per loop, one loop that lacks a part says nothing
        # about the loops of another item
        'library_conditionless_for': lambda: fam.contract_with(b, [b.function('Function', 'spin' + tag, [b.param(b.index(b.ty('Uint', 256)), 'Memory', 'arr' + tag)], [b.fattr('visibility', 'internal')],
                                                                               b.block([b.for_(None, None, None, b.block([b.break_()])),
                                                                                        b.for_(b.var_stmt(b.ty('Uint', 256), 'i', n(0)), None, b.expr_stmt(b.un('PreIncrement', v('i'))), b.block([b.break_()]))]))],
                                                                  kind='Library', name='Spin' + tag),
        'free_function': lambda: b.supart(b.function('Function', 'free' + tag, [b.param(b.ty('String'), 'Memory', 's')], [],
                                                     b.block([b.expr_stmt(b.bin('Subtract', v('a'), n(1))), req(v('c'), b.string('m'))]))),
        # a free function and a file-level constant with an ERC20 operation / arithmetic in them: top-level items that are no contract-like
        # definition (nothing of the definition that happens to stand in front of them may be attributed to them)
        'free_function_erc20': lambda: b.supart(b.function('Function', 'sweep' + tag, [b.param(b.ty('Address'), None, 't'), b.param(b.ty('Address'), None, 'o')], [],
                                                           b.block([b.expr_stmt(b.call(b.member(b.call(v('IERC20'), [v('t')]), 'transfer'), [v('o'), n(1)])),
                                                                    b.expr_stmt(b.call(b.member(v('t'), 'approve'), [v('o'), b.bin('Multiply', b.bin('Divide', v('a'), n(2)), n(4))]))]))),
        'struct': lambda: b.supart(b.struct('T' + tag, [(b.ty('Uint', 8), 'a'), (b.ty('Uint', 256), 'bq'), (b.ty('Uint', 8), 'c')])),
        'empty_contract': lambda: fam.contract_with(b, [], name='Empty' + tag),
        # a contract that NAMES the other item's contract as its base (it mentions none of its state variables): what the base declares
        # must not enter the verdict on the derived contract, whichever of the two stands first
        'contract_base_small': lambda: fam.contract_with(b, [b.state_var(b.ty('Uint', 128), 'r' + tag)], name='Base' + tag),
        'contract_derived_of_other_base': lambda: fam.contract_with(b, [b.state_var(b.ty('Uint', 256), x), b.state_var(b.ty('Uint', 128), y)], name='Derived' + tag,
                                                                   bases=[('Base' + ('B' if tag == 'A' else 'A'), None)]),
        # the same function NAME in both items with a different protection status (a verdict cached per name would leak across items)
        'contract_kill_guarded': lambda: fam.contract_with(b, [b.state_var(b.ty('Address'), x), b.function('Function', 'shutdown', [], [b.fattr('visibility', 'external')], b.block([
            b.expr_stmt(b.call(v('require'), [b.bin('Equal', b.member(v('msg'), 'sender'), v(x))])), b.expr_stmt(b.call(v('selfdestruct'), [b.call(b.ty('Payable'), [v(x)])]))]))], name='Vault' + tag),
        'contract_kill_unguarded': lambda: fam.contract_with(b, [b.state_var(b.ty('Address'), y), b.function('Function', 'shutdown', [], [b.fattr('visibility', 'public')], b.block([
            b.expr_stmt(b.call(v('selfdestruct'), [b.call(b.ty('Payable'), [v(y)])]))]))], name='Faucet' + tag),
        # a user-defined type name used in one item and declared (as an enum) in ANOTHER item: what the other item says about the name
        # must not change the verdict on this item
        'contract_struct_with_user_typed_field': lambda: fam.contract_with(b, [b.struct('Order' + tag, [(b.ty('Uint', 248), 'price'), (b.var('Side'), 'side'), (b.ty('Uint', 8), 'flags')]),
                                                                            b.state_var(b.ty('Uint', 128), x), b.state_var(b.var('Side'), y), b.state_var(b.ty('Uint', 128), 'z' + tag)], name='Book' + tag),
        'contract_declaring_enum_side': lambda: fam.contract_with(b, [b.enum('Side', ['Buy', 'Sell'])], name='Types' + tag),
        'file_level_enum_side': lambda: b.supart(b.enum('Side', ['Buy', 'Sell'])),
        # multi-byte identifiers: byte offsets and character counts differ behind this item
        'struct_unicode': lambda: b.supart(b.struct('Größe' + tag, [(b.ty('Uint', 8), 'später'), (b.ty('Uint', 256), 'naïve_名前'), (b.ty('Uint', 8), 'ça')])),
    }
    return out


PRAGMA_PLACES = ['first', 'between', 'last']


def compose(b, place, i1, i2, value='^0.8.16'):
    p = b.pragma('solidity', value)
    whole = {'first': [p, i1, i2], 'between': [i1, p, i2], 'last': [i1, i2, p]}[place]
    a1 = {'first': [p, i1], 'between': [i1, p], 'last': [i1, p]}[place]
    a2 = {'first': [p, i2], 'between': [p, i2], 'last': [i2, p]}[place]
    return b.source_unit(whole), b.source_unit(a1), b.source_unit(a2)


def run_ids(e, d, su):
    fn = e.func(oracle.MIR_NAME[d])
    paths = e.explore(lambda en: en.call_mir(fn, [su]), max_paths=2000)
    out = []
    loc_names = getattr(e, '_c19_loc_names', None)
    for r in paths:
        if r.outcome == 'unsupported':
            raise Unsupported(str(r.value))
        if loc_names and any(fam.loc_vars_in(c, loc_names) for c in r.pc):
            # byte offsets are free symbols of the encoding (families.run_case): a path that branches on them is decided on the compiled code
            raise Unsupported('the detector branches on byte offsets, which the encoding leaves free')
        out.append(('panic', r.value.msg) if r.outcome == 'panic' else frozenset(sol.loc_id(x) for x in r.value.items))
    return out


def job(chk, todo):
    e = chk.engine()
    for (k1, k2, place, value) in todo:
        b = sol.TreeBuilder()
        i1, i2 = items(b, 'A')[k1](), items(b, 'B')[k2]()
        whole, a1, a2 = compose(b, place, i1, i2, value)
        label = '%s + %s, pragma %s %s' % (k1, k2, value, place)
        e._c19_loc_names = {v_.decl().name() for v_ in b.loc_vars}
        for d in DETECTORS:
            try:
                rw, r1, r2 = run_ids(e, d, whole), run_ids(e, d, a1), run_ids(e, d, a2)
            except Unsupported as u:
                chk.undecide('%s [%s]: %s' % (d, label, u))
                native_compose(chk, d, label, whole, a1, a2, None)
                continue
            pan = lambda rs: any(isinstance(x, tuple) for x in rs)
            if pan(rw) and (pan(r1) or pan(r2)):
                chk.ok()            # an item that makes the detector panic on its own is C04's subject, not a composition failure
                continue
            if len(rw) == 1 and len(r1) == 1 and len(r2) == 1 and not isinstance(rw[0], tuple) and not isinstance(r1[0], tuple) \
                    and not isinstance(r2[0], tuple) and rw[0] == (r1[0] | r2[0]):
                chk.ok()
                chk.extra_lists.setdefault('native', []).append(1) if False else None
                continue
            native_compose(chk, d, label, whole, a1, a2, 'whole file %r, items %r and %r' % (rw, r1, r2))
        if chk.states % 50 == 0:
            chk.sample({'items': label, 'detectors': len(DETECTORS)})
    # translator validation: a sample of compositions natively
    uni = [t for t in todo if 'unicode' in t[0] + t[1]]
    for (k1, k2, place, value) in todo[:2] + [t for t in uni if t not in todo[:2]]:
        b = sol.TreeBuilder()
        i1, i2 = items(b, 'A')[k1](), items(b, 'B')[k2]()
        whole, a1, a2 = compose(b, place, i1, i2, value)
        for d in (DETECTORS if 'unicode' in k1 + k2 else DETECTORS[chk.seed % 3::3]):
            native_compose(chk, d, 'validation %s+%s' % (k1, k2), whole, a1, a2, None, validate_only=True)


def blank_to_keep_positions(text_whole, starts_whole, su_part, su_whole):
    return None


def native_compose(chk, d, label, whole, a1, a2, why, validate_only=False):
    """the real detector on the three files; items keep their position: the alone-files are the whole file with the
    other item blanked out by spaces (line feeds kept), so byte offsets are comparable"""
    text, starts = sol.print_source(whole)
    # spans of the two items in the printed text: from the start of the item's first node to the start of the next part
    parts = whole.fields[0].items
    offs = []
    for p in parts:
        loc = p.fields[0] if p.variant in ('PragmaDirective', 'StraySemicolon') else p.fields[0].inner.fields[0]
        offs.append(starts[sol.loc_id(loc)])
    offs.append(len(text.encode()))
    raw = text.encode()
    item_idx = [i for i, p in enumerate(parts) if p.variant != 'PragmaDirective']

    def blank(i):
        s, e_ = offs[i], offs[i + 1]
        seg = bytes(c if c in (10, 13) else 32 for c in raw[s:e_])
        return (raw[:s] + seg + raw[e_:]).decode()
    t1, t2 = blank(item_idx[1]), blank(item_idx[0])
    files = [chk.native.file(t) for t in (text, t1, t2)]
    jobs = [['detect', d, f] for f in files] + [['analyze', oracle.CATEGORY[d], d, f] for f in files]
    res = chk.native.run(jobs)
    chk.validated += 1
    # the statement is about reported LINES: the same composition through the compiled analyze_for_*
    lines = [None if r[0] != 'OK' else {int(x) for x in r[1].split(',') if x} for r in res[3:]]
    if None not in lines and lines[0] != (lines[1] | lines[2]):
        chk.violation('%s:compose:lines' % d, '%s on `%s`: the whole file reports lines %r, the items alone (same positions) %r and %r' % (
            d, label, sorted(lines[0]), sorted(lines[1]), sorted(lines[2])), {'job': 'analyze', 'detector': d, 'source': text, 'item1_alone': t1, 'item2_alone': t2})
        return
    def starts_of(r):
        return None if r[0] != 'OK' else {int(x.split(':')[0]) for x in r[1].split(',') if x}
    sw, s1, s2 = starts_of(res[0]), starts_of(res[1]), starts_of(res[2])
    composed = sw is not None and s1 is not None and s2 is not None and sw == (s1 | s2)
    panics_only_whole = sw is None and s1 is not None and s2 is not None
    if composed or (sw is None and (s1 is None or s2 is None)):
        if why is not None and not validate_only:
            chk.broken('%s [%s]: engine says the findings do not compose (%s) but the real detector composes on\n%s' % (d, label, why, text))
        return
    if s1 is None or s2 is None:
        return                                     # an item panics on its own: C04's subject
    role = 'panic-only-in-the-whole-file' if panics_only_whole else ('finding-lost' if sw is not None and (s1 | s2) - sw else 'finding-added')
    chk.violation('%s:compose:%s' % (d, role),
                  '%s on `%s`: whole file reports starts %r, the items alone %r and %r' % (d, label, sorted(sw) if sw is not None else res[0], sorted(s1) if s1 is not None else res[1],
                                                                                         sorted(s2) if s2 is not None else res[2]),
                  {'job': 'detect', 'detector': d, 'source': text, 'item1_alone': t1, 'item2_alone': t2})


def body(chk):
    kinds = list(items(sol.TreeBuilder(), 'A'))
    todo = []
    for k1, k2 in itertools.product(kinds, repeat=2):
        todo.append((k1, k2, 'first', '^0.8.16'))
    unicode_first = [t for t in todo if t[0] == 'struct_unicode']
    for k1, k2 in itertools.product(['contract_rich', 'free_function', 'struct', 'contract_ctor_after_fn'], repeat=2):
        for place in ('between', 'last'):
            for value in ('^0.8.16', '0.7.6'):
                todo.append((k1, k2, place, value))
    if chk.quick:
        chk.rng.shuffle(todo)
        core = [t for t in todo if t[2] != 'first' or 'ctor' in t[0] + t[1]] + [t for t in todo if 'kill' in t[0] and 'kill' in t[1] and t[0] != t[1]] + [t for t in todo if 'user_typed' in t[0] + t[1] and ('enum' in t[0] + t[1])]
        chk.rng.shuffle(core)
        # fixed part of the quick tier: the pairs in which both items carry the state a detector may keep per contract (constructor before / after a
        # function, selfdestruct with / without guard, a type name used / declared)
        core = [t for t in core if ('kill' in t[0] and 'kill' in t[1]) or ('user_typed' in t[0] + t[1] and 'enum' in t[0] + t[1]) or ('ctor' in t[0] and 'ctor' in t[1] and t[2] == 'first')
                or (t[2] == 'first' and t[1] in ('contract_rich', 'contract_constants', 'contract_struct_with_user_typed_field') and t[0] in ('contract_ctor_first', 'contract_ctor_after_fn', 'contract_kill_guarded', 'contract_kill_unguarded'))
                or (t[2] == 'first' and 'contract_packable' in (t[0], t[1]) and (set((t[0], t[1])) & {'contract_ctor_after_fn', 'contract_ctor_first', 'contract_kill_guarded', 'contract_constants', 'contract_rich', 'struct'}))] + core
        core = list(dict.fromkeys(core))
        bodyless = [t for t in todo if t[2] == 'first' and 'bodyless' in t[0] and t[1] in ('contract_rich', 'free_function', 'library', 'contract_memory_params', 'empty_contract')] \
            + [t for t in todo if t[2] == 'first' and 'bodyless' in t[1] and t[0] in ('contract_memory_params', 'free_function')]
        libs = [t for t in todo if t[2] == 'first' and 'library_public_functions' in (t[0], t[1]) and (set((t[0], t[1])) & {'contract_rich', 'interface', 'empty_contract', 'free_function', 'library', 'contract_ctor_first'})]
        frees = [t for t in todo if t[2] == 'first' and 'free_function_erc20' in (t[0], t[1]) and (set((t[0], t[1])) & {'library', 'library_public_functions', 'interface', 'contract_rich', 'struct', 'empty_contract'})]
        bodyless = bodyless + libs + frees
        core = bodyless + core
        # every pair with the pragma in front (the draw decides nothing there), plus 40 seeded ones of the other pragma placements
        todo = list(dict.fromkeys(core[:68 + len(bodyless)] + [t for t in todo if t[2] == 'first'] + [t for t in todo if t[2] != 'first'][:40] + unicode_first[:6]))
    chk.bounds = {'files': '%d pairs of top-level items x %d detectors' % (len(todo), len(DETECTORS)),
                  'items': kinds, 'pragma': 'before, between and after the items; versions on both sides of the 0.8.4 gate',
                  'outside': 'more than two items; items that mention each other\'s state variables (excluded by the property)'}
    chk.assumptions = ['as C05; both single-item files keep the nodes (hence the Locs) of the two-item file']
    chk.parallel(job, [todo[k:k + 8] for k in range(0, len(todo), 8)])


if __name__ == '__main__':
    main('C19', body)
