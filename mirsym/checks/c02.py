"""C02 — every reported line is the line on which the flagged construct begins (DESIGN.md section 6, C02)."""
import itertools

import z3

from .. import sol
from ..checklib import main
from ..engine import Adt, Choice, Int, Opaque, SetV, Str, Tuple, VecV, Unsupported
from ..lib import SymText, ok
from ..native import hexs


def check_line_number(chk, T, only_panics=False):
    """(a) get_line_number on every text of T characters (class newline / other, byte width 1..4 symbolic) and every
    offset at which a token can start (first byte of a non-newline character)"""
    e = chk.engine()
    fn = e.func('get_line_number')
    if not chk.native.available('line') or [t for _, t in fn.params] != ['usize', '&str']:
        # the helper no longer has the shape (byte offset, text) -> line: this unit-level harness does not apply to it; the end-to-end
        # part (native layouts through analyze_for_*) still decides the property on the compiled code
        chk.undecide('get_line_number has the signature %r: the unit-level harness (offset, text) is not applicable' % ([t for _, t in fn.params],))
        return
    widths = [z3.BitVec('w%d' % i, 64) for i in range(T)]
    pre = [z3.And(z3.UGE(w, 1), z3.ULE(w, 4)) for w in widths]
    off = z3.BitVec('off', 64)
    chars = [Choice('class%d' % i, [('ch', widths[i]), ('nl',)]) for i in range(T)]
    text = SymText(chars)
    res = e.explore(lambda e: e.call_mir(fn, [Int(off, 'usize'), text]), base_constraints=pre)
    nviol = 0
    by_class = {}
    if any(r.outcome == 'unsupported' for r in res):
        # DESIGN 4.4: code the engine cannot encode is still tested on the real function (never an alarm by itself)
        chk.undecide('get_line_number T=%d: %s' % (T, [r.value for r in res if r.outcome == 'unsupported'][0]))
        native_line_fallback(chk, T, only_panics)
        return
    for r in res:
        if r.outcome == 'unsupported':
            chk.undecide('get_line_number T=%d: %s' % (T, r.value)); continue
        t = r.extra.get('text')
        if t is None:
            # the function never looked at the text: every character class is still open -> enumerate them here
            t = None
        classes = tuple(r.choices.get('class%d' % i, None) for i in range(T))
        variants = [classes]
        if any(c is None for c in classes):
            variants = [tuple(c if c is not None else x for c, x in zip(classes, fill))
                        for fill in itertools.product([0, 1], repeat=T)]
        for cl in variants:
            concrete_chars = [('nl',) if c == 1 else ('ch', widths[i]) for i, c in enumerate(cl)]
            st = SymText(concrete_chars)
            starts, total = st.starts()
            tokens = [s for c, s in zip(concrete_chars, starts) if c[0] == 'ch']
            if not tokens:
                continue
            s = z3.Solver()
            s.add(*pre); s.add(*r.pc)
            s.add(z3.Or([off == x for x in tokens]))
            want = 1 + z3.Sum([z3.If(z3.ULT(x, off), 1, 0) for c, x in zip(concrete_chars, starts) if c[0] == 'nl'] + [z3.IntVal(0)])
            if r.outcome == 'panic':
                pass
            elif only_panics:
                chk.ok(); continue              # (C04 uses this function for totality only; the value is C02's subject)
            else:
                s.add(z3.BV2Int(r.value.z(), True) != want)
            chk.queries += 1
            q = s.check()
            if q in (z3.sat, z3.unsat):
                chk.cross_check(s, 'sat' if q == z3.sat else 'unsat', every=15)
            if q == z3.unknown:
                chk.undecide('get_line_number: solver unknown'); continue
            if q == z3.unsat:
                chk.ok(); continue
            m = s.model()
            txt = st.render(m, chk.rng)
            o = m.eval(off, model_completion=True).as_long()
            expected = 1 + txt.encode()[:o].count(b'\n')
            nat = chk.native.run([['line', str(o), hexs(txt)]])[0]
            if nat[0] == 'OK' and int(nat[1]) == expected:
                chk.broken('get_line_number(%d, %r): counterexample does not reproduce (real code returns %s)' % (o, txt, nat[1]))
            last_line = b'\n' not in txt.encode()[o:]
            key = 'line:panic' if nat[0] != 'OK' else ('line:last-line-without-newline' if last_line else 'line:wrong-line')
            chk.violation(key, 'get_line_number(%d, %r) = %s, the construct begins on line %d' % (o, txt, nat[1:], expected),
                          {'job': 'line', 'offset': o, 'text': txt, 'expected': expected, 'observed': nat})
            nviol += 1
    # translator validation on every path (they are few): the value the engine predicts = the value the real code returns
    jobs, exp = [], []
    for r in res:
        if r.outcome != 'return' or any(r.choices.get('class%d' % i) is None for i in range(T)):
            continue
        cl = [r.choices['class%d' % i] for i in range(T)]
        concrete_chars = [('nl',) if c == 1 else ('ch', widths[i]) for i, c in enumerate(cl)]
        st = SymText(concrete_chars)
        starts, _ = st.starts()
        s = z3.Solver(); s.add(*pre); s.add(*r.pc); s.add(z3.Or([off == x for x in starts] + [off == 0]))
        if s.check() != z3.sat:
            continue
        m = s.model()
        txt = st.render(m, chk.rng)
        o = m.eval(off, model_completion=True).as_long()
        jobs.append(['line', str(o), hexs(txt)]); exp.append((o, txt, m.eval(r.value.z(), model_completion=True).as_signed_long()))
    if chk.quick:
        keep = list(range(chk.seed % 3, len(jobs), 3))
        jobs, exp = [jobs[i] for i in keep], [exp[i] for i in keep]
    for (o, txt, pred), nat in zip(exp, chk.native.run(jobs)):
        chk.validated += 1
        if nat[0] != 'OK' or int(nat[1]) != pred:
            chk.broken('get_line_number(%d, %r): engine predicts %d, real code returns %s' % (o, txt, pred, nat))
    chk.sample({'get_line_number': '%d characters, class (newline/other) per path, widths 1..4 and offset symbolic' % T,
                'paths': len(res), 'example': exp[0] if exp else None})
    chk.absorb(e)


ALPHABET = ['\n', 'a', ' ', '\r', 'é', '€', '\U0001d11e']


def native_line_fallback(chk, T, only_panics=False):
    """all texts of T characters over a 7-letter alphabet (newline, ASCII, CR, 2/3/4-byte characters), capped by seeded
    sampling at 2000, every token offset: the real function against 1 + #line feeds before the offset"""
    texts = [''.join(t) for t in itertools.product(ALPHABET, repeat=T)]
    if len(texts) > 2000:
        texts = chk.rng.sample(texts, 2000)
    jobs, exp = [], []
    for txt in texts:
        off = 0
        for ch in txt:
            if ch != '\n':
                jobs.append(['line', str(off), hexs(txt)])
                exp.append((off, txt, 1 + txt.encode()[:off].count(b'\n')))
            off += len(ch.encode())
    for (o, txt, want), nat in zip(exp, chk.native.run(jobs)):
        chk.states += 1
        if nat[0] == 'OK' and (only_panics or int(nat[1]) == want):
            continue
        last_line = b'\n' not in txt.encode()[o:]
        key = 'line:panic' if nat[0] != 'OK' else ('line:last-line-without-newline' if last_line else 'line:wrong-line')
        chk.violation(key, 'get_line_number(%d, %r) = %s, the construct begins on line %d' % (o, txt, nat[1:], want),
                      {'job': 'line', 'offset': o, 'text': txt, 'expected': want, 'observed': nat})
    chk.sample({'get_line_number (native fallback)': '%d texts of %d characters' % (len(texts), T)})


def detector_functions(program):
    out = []
    for name, fl in program.items():
        f = fl[0]
        if len(f.params) == 1 and f.params[0][1].endswith('SourceUnit') and 'HashSet<' in f.ret and 'Loc>' in f.ret:
            out.append(name)
    return out


def check_analyze(chk, category, nlocs):
    """(b) analyze_for_*: the returned set is {line(start of loc)} for the locations the detector returned, each
    computed against THIS file's text. The parser, the detectors and the line function are uninterpreted here."""
    e = chk.engine()
    entry, enum = {'opt': ('analyze_for_optimization', 'Optimization'), 'vul': ('analyze_for_vulnerability', 'Vulnerability'),
                   'qa': ('analyze_for_qa', 'QualityAssurance')}[category]
    fn = e.func(entry)
    variants = [v[0] for v in e.types.enums[enum]]
    text = Str(z3.String('file_text'))
    file_no = Int(z3.BitVec('file_no', 64), 'usize')
    su = Opaque('SourceUnit', 'parsed')
    b = sol.TreeBuilder(tag='r')
    locs = [b.loc() for _ in range(nlocs)]
    nloc_choice = Choice('nlocs', [SetV(locs[:k]) for k in range(nlocs + 1)])
    LN = z3.Function('LN', z3.BitVecSort(64), z3.BitVecSort(32))
    seen = {'parse': 0, 'det': [], 'ln_text_ok': True}

    def stub_parse(en, args, fr, callee):
        if en.load(args[0]) is not text:
            raise Unsupported('parse called with something else than the file contents')
        seen['parse'] += 1
        return ok(Tuple((su, VecV(()))))

    def stub_detector(en, args, fr, callee):
        if en.load(args[0]) is not su:
            raise Unsupported('detector called with something else than the parsed file')
        en.extra.setdefault('det', []).append(callee)
        return nloc_choice

    def stub_ln(en, args, fr, callee):
        a0 = en.force(args[0])
        if not isinstance(a0, Int) or len(args) != 2:
            raise Unsupported('get_line_number is no longer (byte offset, text) -> line: the stub of this harness does not apply')
        if en.load(args[1]) is not text:
            en.extra['wrong_text'] = True
        return Int(LN(a0.z()), 'i32')

    e.stubs['parse'] = stub_parse
    e.stubs['get_line_number'] = stub_ln
    dets = detector_functions(e.program)
    for d in dets:
        e.stubs[d.rsplit('::', 1)[-1]] = stub_detector
    pat = Choice('pattern', [Adt(enum, v) for v in variants])
    res = e.explore(lambda en: en.call_mir(fn, [text, file_no, pat]))
    called = {}
    for r in res:
        if r.outcome == 'unsupported':
            chk.undecide('%s: %s' % (entry, r.value)); continue
        pname = variants[r.choices.get('pattern', 0)]
        k = r.choices.get('nlocs', 0)
        if r.outcome == 'panic':
            chk.violation('analyze:%s:panic' % category, '%s(%s) panics: %s' % (entry, pname, r.value.msg), {'pattern': pname})
            continue
        called.setdefault(pname, set()).update(r.extra.get('det', []))
        s = z3.Solver(); s.add(*r.pc)
        want = [LN(l.fields[1].z()) for l in locs[:k]]
        got = [x.z() for x in r.value.items]
        bad = []
        if r.extra.get('wrong_text'):
            bad.append(z3.BoolVal(True))
        for wv in want:
            bad.append(z3.Not(z3.Or([g == wv for g in got])) if got else z3.BoolVal(True))
        for g in got:
            bad.append(z3.Not(z3.Or([g == wv for wv in want])) if want else z3.BoolVal(True))
        # BTreeSet: strictly increasing
        for a, c in zip(got, got[1:]):
            bad.append(z3.Not(a < c))
        s.add(z3.Or(bad) if bad else z3.BoolVal(False))
        chk.queries += 1
        q = s.check()
        if q == z3.unsat:
            chk.ok()
        elif q == z3.unknown:
            chk.undecide('%s(%s): solver unknown' % (entry, pname))
        else:
            confirm_analyze(chk, category, pname, k, r)
    # each pattern must reach exactly one detector (vacuity guard for the stubbing)
    for v in variants:
        if len(called.get(v, ())) != 1 and not chk.undecided:
            chk.broken('%s(%s) reached detectors %r' % (entry, v, sorted(called.get(v, ()))))
    chk.sample({'analyze': entry, 'patterns': len(variants), 'locations per file': '0..%d' % nlocs, 'paths': len(res)})
    chk.absorb(e)


PROBE = '''pragma solidity ^0.8.16;
contract C {
    uint256 a;


    function f(uint256 x, address t) public {
        a = a + x; IERC20(t).transfer(msg.sender, x);
        require(x >= 1 && x != 0, "é€ long enough revert string: more than thirty-two bytes");
    }
    function g() public { selfdestruct(payable(address(0))); } constructor() {}
}'''


def confirm_analyze(chk, category, pname, k, r):
    """the symbolic counterexample says: some returned line is not the line of a reported location's start. Replay through
    the public per-file entry point on a probe file and compare with lines computed from the detector's own locations."""
    names = {'opt': ['solidity_math', 'optimal_comparison', 'string_errors', 'sstore'], 'vul': ['unsafe_erc20_operation', 'floating_pragma', 'unprotected_selfdestruct'],
             'qa': ['constructor_order']}[category]
    path = chk.native.file(PROBE)
    for nm in names:
        det, ana = chk.native.run([['detect', nm, path], ['analyze', category, nm, path, '3']])
        if det[0] != 'OK' or ana[0] != 'OK':
            continue
        want = sorted({1 + PROBE.encode()[:int(x.split(':')[0])].count(b'\n') for x in det[1].split(',') if x})
        got = [int(x) for x in ana[1].split(',') if x]
        if want != got:
            chk.violation('analyze:%s:wrong-lines' % category,
                          'analyze_for_%s(%s) returns lines %r, the detector\'s locations start on lines %r' % (category, nm, got, want),
                          {'job': 'analyze', 'pattern': nm, 'source': PROBE, 'expected': want, 'observed': got})
            return
    chk.undecide('analyze_for_%s(%s): symbolic counterexample (lines != lines of reported starts) did not reproduce on the probe file' % (category, pname))


def native_layouts(chk):
    """end to end on the compiled code: for every detector and several layouts of probe files (LF, CRLF, no final line feed,
    blank lines, multi-byte header comment) the lines returned by analyze_for_* are the lines on which the detector's own
    locations begin. This replays (b) on the real entry points, whatever helper they use to convert offsets."""
    from .. import oracle, sol
    from . import c15
    b = sol.TreeBuilder()
    base, _ = sol.print_source(c15.probe_file(b))
    long_lines = base.replace('\n    ', ' ')          # constructs far to the right of long lines
    layouts = {}
    for nm, t in (('probe', base), ('long-lines', long_lines)):
        layouts[nm + ' LF'] = t
        # same bytes except that every second line feed is a blank: same length, other line structure, analysed right after the
        # original in the same process and under the same file number
        layouts[nm + ' LF, every second line feed a blank (same length)'] = c15.twin(t)
        # constructs spanning several lines: every blank outside string literals and the pragma line becomes a line feed
        spread, in_str = [], False
        for ln in t.split('\n'):
            if ln.startswith('pragma'):
                spread.append(ln); continue
            out_ln = []
            for ch in ln:
                if ch == '"':
                    in_str = not in_str
                out_ln.append('\n' if ch == ' ' and not in_str and out_ln and out_ln[-1] not in ' \n' else ch)
            spread.append(''.join(out_ln))
        layouts[nm + ' one token per line'] = '\n'.join(spread)
        layouts[nm + ' CRLF'] = t.replace('\n', '\r\n')
        layouts[nm + ' CRLF no final line end'] = t.replace('\n', '\r\n').rstrip('\r\n')
        layouts[nm + ' no final line feed'] = t.rstrip('\n')
        layouts[nm + ' blank lines + multi-byte header'] = '// 版权所有 © 2022 — ünïcödé header €€€\n\n\n' + t.replace('\n', '\n\n')
        layouts[nm + ' CR only inside a line'] = t.replace('{\n', '{ \r \n')
    # layouts that differ from the probe only in front of the first token: what a reader of the file might trim
    for nm, t in (('probe', base),):
        layouts[nm + ' three leading blank lines'] = '\n\n\n' + t
        layouts[nm + ' leading CRLF blank lines'] = '\r\n\r\n' + t.replace('\n', '\r\n')
        layouts[nm + ' leading blanks, tab and blank lines'] = '  \t \n \n\t\n' + t
        layouts[nm + ' one leading line feed, trailing blank lines'] = '\n' + t + '\n\n  \n'
        layouts[nm + ' leading no-break space line'] = '\u00a0\n' + t
    jobs, meta = [], []
    for lname, text in layouts.items():
        p = chk.native.file(text)
        for d in oracle.MIR_NAME:
            jobs.append(['detect', d, p]); jobs.append(['analyze', oracle.CATEGORY[d], d, p])
            meta.append((lname, d, text))
    res = chk.native.run(jobs)
    for i, (lname, d, text) in enumerate(meta):
        det, ana = res[2 * i], res[2 * i + 1]
        chk.validated += 1
        if det[0] != 'OK' or ana[0] != 'OK':
            continue                                   # panics are C04's subject
        raw = text.encode()
        want = sorted({1 + raw[:int(x.split(':')[0])].count(b'\n') for x in det[1].split(',') if x})
        got = [int(x) for x in ana[1].split(',') if x]
        if got != want:
            chk.violation('analyze:%s:wrong-lines' % oracle.CATEGORY[d],
                          'analyze_for_%s(%s) on the layout `%s` returns lines %r, its locations begin on lines %r' % (oracle.CATEGORY[d], d, lname, got, want),
                          {'job': 'analyze', 'category': oracle.CATEGORY[d], 'detector': d, 'source': text, 'expected': want, 'observed': got})
        else:
            chk.ok()
    chk.sample({'native layouts': sorted(layouts), 'detectors': len(oracle.MIR_NAME)})
    # WHICH construct's first byte counts is the oracle's business (DESIGN 8): on the layouts that keep every byte offset of the printed
    # probe (LF, every second line feed a blank, one token per line) the lines of analyze_for_* are held against the lines on which the
    # nodes the oracle flags begin -- a detector that returns the location of another sub-node (the last part of a string, the condition
    # instead of the call) reports another line as soon as the sub-nodes stand on different lines
    b2 = sol.TreeBuilder()
    su2 = c15.probe_file(b2)
    text2, starts2 = sol.print_source(su2)
    from ..native import unhex as _unhex
    dbg = chk.native.run([['debugtree', chk.native.file(text2)]])[0]
    round_trip = dbg[0] == 'OK' and sol.strip_locs(_unhex(dbg[1])) == sol.debug_render(su2, chk.world.types)
    if not round_trip:
        chk.undecide('the printed probe file does not parse back to the probe tree: the construct-line stage is skipped')
    if text2 == base and round_trip:
        same_offsets = {nm: t for nm, t in layouts.items() if nm.startswith('probe ') and len(t.encode()) == len(base.encode())
                        and all(a == b_ or (a in ' \n' and b_ in ' \n') for a, b_ in zip(t, base))}
        by_layout = {}
        for i, (lname, d, text) in enumerate(meta):
            if lname in same_offsets and res[2 * i + 1][0] == 'OK':
                by_layout[(lname, d)] = [int(x) for x in res[2 * i + 1][1].split(',') if x]
        for d in oracle.MIR_NAME:
            try:
                cls = oracle.classify_file(d, su2, None, {'version': (0, 8, 16)})
            except KeyError:
                continue                               # the slot-packing detectors have their own decision procedure (C10), no node oracle
            for lname, t in same_offsets.items():
                if (lname, d) not in by_layout:
                    continue
                raw = t.encode()
                line = lambda lid: 1 + raw[:starts2[lid]].count(b'\n')
                must = sorted({line(lid) for _, lid, flag, never in cls if flag is True and lid in starts2})
                may = {line(lid) for _, lid, flag, never in cls if never is not True and lid in starts2}
                got = by_layout[(lname, d)]
                missing, extra = [l for l in must if l not in got], [l for l in got if l not in may]
                if missing or extra:
                    chk.violation('analyze:%s:construct-line' % oracle.CATEGORY[d],
                                  'analyze_for_%s(%s) on the layout `%s` reports lines %r; the flagged constructs begin on lines %r%s%s' % (
                                      oracle.CATEGORY[d], d, lname, got, must, ' (missing %r)' % missing if missing else '', ' (no construct of the pattern begins on %r)' % extra if extra else ''),
                                  {'job': 'analyze_between', 'category': oracle.CATEGORY[d], 'detector': d, 'source': t, 'must': must, 'may': sorted(may), 'observed': got})
                else:
                    chk.ok()
    # the same layouts as files of a directory, through the compiled analyze_dir (the reader of the file is part of "the lines solstat
    # reports for a file"): per file and pattern the lines must be those of the detector's own locations in the bytes of the file
    import os, tempfile, shutil
    from ..native import unhex
    root = tempfile.mkdtemp(prefix='c02dir-', dir=chk.native.dir)
    try:
        fname = {}
        for k, (lname, text) in enumerate(sorted(layouts.items())):
            fname['L%02d.sol' % k] = (lname, text)
            with open(os.path.join(root, 'L%02d.sol' % k), 'w', newline='') as fh:
                fh.write(text)
        by_cat = {}
        for d in oracle.MIR_NAME:
            by_cat.setdefault(oracle.CATEGORY[d], []).append(d)
        cats = sorted(by_cat)
        dres = chk.native.run([['analyze_dir', c, root, ','.join(by_cat[c])] for c in cats])
        want_by = {}
        for i, (lname, d, text) in enumerate(meta):
            det = res[2 * i]
            if det[0] == 'OK':
                raw = text.encode()
                want_by[(lname, d)] = sorted({1 + raw[:int(x.split(':')[0])].count(b'\n') for x in det[1].split(',') if x})
        for c, r in zip(cats, dres):
            chk.validated += 1
            if r[0] != 'OK':
                continue                               # panics are C04's subject
            variants = {d.replace('_', '').lower(): d for d in by_cat[c]}      # `DivideBeforeMultiply` as printed by the runner -> name
            import re
            from ..prepare import REPO
            for sub in ('optimizations', 'vulnerabilities', 'qa'):
                try:
                    for nm_, var_ in re.findall(r'"(\w+)"\s*=>\s*\w+::(\w+)', open(os.path.join(REPO, 'src/analyzer', sub, 'mod.rs')).read()):
                        variants[var_.lower()] = nm_                  # the enum spells some variants differently (`ImmutableVarialbes`)
                except OSError:
                    pass
            got_by = {}
            for item in (r[1].split(';') if r[1] else []):
                pat, hx, lines = item.split('|')
                got_by[(unhex(hx), variants.get(pat.lower(), pat))] = [int(x) for x in lines.split(',') if x]
            for fn, (lname, text) in fname.items():
                for d in by_cat[c]:
                    if (lname, d) not in want_by:
                        continue
                    got, want = got_by.get((fn, d), []), want_by[(lname, d)]
                    if got != want:
                        chk.violation('analyze_dir:%s:wrong-lines' % c,
                                      'analyze_dir reports for the file with the layout `%s` and %s the lines %r, the detector\'s locations begin on lines %r' % (lname, d, got, want),
                                      {'job': 'analyze_dir_layout', 'category': c, 'file_name': fn, 'detector': d, 'source': text, 'expected': want, 'observed': got})
                    else:
                        chk.ok()
    finally:
        shutil.rmtree(root, ignore_errors=True)


def body(chk):
    T = 5 if chk.quick else 7
    chk.bounds = {'text length (characters)': '1..%d' % T, 'byte width per character': '1..4 (symbolic)',
                  'offset': 'first byte of any non-newline character (symbolic)', 'locations per detector result': '0..3',
                  'outside': 'longer texts; that the parser\'s Loc.start is the first byte of the construct (parser trusted)'}
    chk.assumptions = ['regex contract: captures_iter(r"\\n") yields the offsets of the line feeds, left to right, one group each '
                       '(validated natively on every path of (a))',
                       'BTreeSet/HashSet contracts; in (b) parser, detectors and get_line_number are uninterpreted']
    for t in range(1, T + 1):
        check_line_number(chk, t)
    for cat in ('opt', 'vul', 'qa'):
        check_analyze(chk, cat, 3 if not chk.quick else 2)
    native_layouts(chk)


if __name__ == '__main__':
    main('C02', body)
