"""C11 — the report lists exactly the findings, each under its own pattern's section (DESIGN.md 6/C11)
   C12 — totals and severity headings agree with the findings shown (same machinery, see c12.py)."""
import itertools
import re

import z3

from .. import reportlib as rl
from ..checklib import main
from ..engine import Str, Unsupported
from ..native import hexs, unhex

HEADINGS = {'High': '## High Risk\n', 'Medium': '## Medium Risk\n', 'Low': '## Low Risk\n'}


def shapes_for(chk, cat):
    table = [v for v, _ in rl.CATS[cat]['table']]
    out = []
    # 0 = a file entry with an empty line set (`any line sets`): it contributes no entry, and alone it is not a finding
    file_shapes = [[1], [2], [1, 1], [2, 1], [0], [0, 1], [2, 0], [0, 0]] if chk.quick else [[1], [2], [3], [1, 1], [2, 1], [1, 2, 1], [0], [0, 1], [2, 0], [0, 0], [1, 0, 2]]
    for v in table:
        for fs in file_shapes:
            out.append([(v, fs)])
    if cat == 'opt':
        pairs = list(itertools.combinations(table, 2))
        if chk.quick:
            chk.rng.shuffle(pairs)
            pairs = pairs[:60]
        for a, b in pairs:
            out.append([(a, [1]), (b, [1, 1])])
        for k in ((3, 5, 8) if chk.quick else (3, 4, 5, 6, 8, 12)):
            sub = chk.rng.sample(table, k)
            out.append([(v, [1]) for v in sub])
        out.append([(v, [1]) for v in table])
    else:
        for r in range(2, len(table) + 1):
            for sub in itertools.combinations(table, r):
                out.append([(v, [1] if i else [1, 1]) for i, v in enumerate(sub)])
                if not chk.quick:
                    out.append([(v, [2, 1]) for v in reversed(sub)])
    out.append([])
    return out


def setup(engine, cat):
    sections = {v: rl.section_text(engine, cat, v) for v, _ in rl.CATS[cat]['table']}
    overview = rl.overview_parts(engine, cat)
    return sections, overview


def check_shapes(chk, item, which='C11'):
    cat, shapes = item
    e = chk.engine()
    headings = HEADINGS if cat == 'vul' else None
    try:
        sections, overview = setup(e, cat)
    except Unsupported as u:
        # the section / overview functions are no longer constant texts around a decimal total: nothing can be decided symbolically;
        # the compiled generators are still held against the oracle on concrete findings (DESIGN 4.4)
        chk.undecide('%s report: %s' % (cat, u))
        native_only(chk, cat, shapes, headings)
        return
    jobs, meta = [], []
    for shape in shapes:
        f = rl.Findings(cat, shape)
        try:
            paths = rl.run_report(e, cat, f)
        except Exception as ex:
            chk.undecide('%s report %r: %s' % (cat, shape, ex)); continue
        if any(r.outcome == 'unsupported' for r in paths):
            chk.undecide('%s report %r: %s' % (cat, shape, [r.value for r in paths if r.outcome == 'unsupported'][0]))
            native_samples(chk, cat, f, sections, overview, headings)
            continue
        for r in paths:
            s = z3.Solver(); s.add(*f.base); s.add(*r.pc)
            if s.check() != z3.sat:
                continue
            m = s.model()
            if r.outcome == 'panic':
                okk, why = False, 'panics: ' + r.value.msg
            else:
                okk, why = rl.accept_report(r.value, cat, f, sections, overview, headings)
            spec = f.spec(m)
            if okk:
                chk.ok()
                pred = r.value.render(m) if hasattr(r.value, 'render') else r.value.v
                jobs.append(['report', cat, spec]); meta.append((shape, pred, f.concretize(m)))
                continue
            nat = chk.native.run([['report', cat, spec]])[0]
            text = unhex(nat[1]) if nat[0] == 'OK' else None
            conc = f.concretize(m)
            cok, cwhy = concrete_accept(text, cat, conc, sections, overview, headings) if text is not None else (False, 'panic: %s' % nat[1:])
            if cok:
                chk.broken('%s report %r: engine says "%s" but the real report satisfies the oracle:\n%s' % (cat, shape, why, text))
            chk.violation('%s:report:%s' % (cat, role_of(cwhy)), '%s report for findings %r: %s' % (cat, conc, cwhy),
                          {'job': 'report', 'category': cat, 'findings': spec, 'observed': text, 'why': cwhy})
    for (shape, pred, conc), nat in zip(meta, chk.native.run(jobs)):
        chk.validated += 1
        if nat[0] == 'OK' and unhex(nat[1]) != pred and concrete_accept(unhex(nat[1]), cat, conc, sections, overview, headings)[0]:
            # same findings, another order of sections / entries: the order is not part of this property (C13 decides it)
            chk.extra_lists.setdefault('validated_up_to_order', []).append(str(shape))
            continue
        if nat[0] != 'OK' or unhex(nat[1]) != pred:
            chk.broken('%s report %r: engine predicts a different text than the real generator\npredicted: %r\nreal: %r' % (
                cat, shape, pred[:300], unhex(nat[1])[:300] if nat[0] == 'OK' else nat))
    if shapes and shapes[0] == shapes_for(chk, cat)[0]:
        big_totals(chk, cat, sections, overview, headings)          # once per category
    if meta:
        chk.sample({'category': cat, 'shape': meta[0][0], 'report (first 300 chars)': meta[0][1][:300]})


def native_texts(chk, cat):
    """sections and overview of a category taken from the compiled code (runner jobs), for the native-only fall-back"""
    table = rl.CATS[cat]['table']
    res = chk.native.run([['section', cat, n] for _, n in table] + [['report', cat, '']])
    sections = {v: unhex(r[1]) for (v, n), r in zip(table, res) if r[0] == 'OK'}
    empty = unhex(res[-1][1]) if res[-1][0] == 'OK' else ''
    m = re.match(r'^(.*?)(\d[\d,]*)(.*)$', empty, re.S)
    overview = (m.group(1), m.group(3)) if (m and cat != 'qa') else (empty.rstrip('\n'), None)
    return sections, overview


def native_only(chk, cat, shapes, headings):
    sections, overview = native_texts(chk, cat)
    for shape in shapes[:12]:
        f = rl.Findings(cat, shape)
        native_samples(chk, cat, f, sections, overview, headings)
    big_totals(chk, cat, sections, overview, headings)


def big_totals(chk, cat, sections, overview, headings):
    """totals with several digits groups (999 .. 12345 entries) and file names with multi-byte characters, on the compiled generators"""
    table = rl.CATS[cat]['table']
    v0, n0 = table[0]
    for total in (999, 1000, 1005, 1042, 1100, 12345):
        lines = list(range(1, total + 1))
        conc = [(v0, [('Big.sol', lines)])]
        spec = '%s|%s|%s' % (n0, hexs('Big.sol'), ','.join(map(str, lines)))
        nat = chk.native.run([['report', cat, spec]])[0]
        chk.states += 1
        text = unhex(nat[1]) if nat[0] == 'OK' else None
        cok, cwhy = concrete_accept(text, cat, conc, sections, overview, headings) if text is not None else (False, 'panic: %s' % nat[1:])
        if not cok:
            chk.violation('%s:report:%s' % (cat, role_of(cwhy)), '%s report for %d findings of %s in one file: %s' % (cat, total, v0, cwhy),
                          {'job': 'report', 'category': cat, 'findings': spec[:200] + '...', 'why': cwhy}); break
        chk.ok()
    # file names are data: names that read like a placeholder of a template, a format directive, a capture reference, an entry, a
    # heading or markdown must come out as they went in
    for name in ('Tökén.sol', '合约合.sol', 'ſ.sol', 'a b:c.sol', 'x', 'Template{line}.sol', '{file}{line}', '{}.sol', '{0}:{1}', '%s:%d.sol',
                 '$1.sol', '\\1\\n.sol', '- A.sol:7', 'A.sol:7', '### Lines', '# x', '<!-- x', '*a*_b_`c`.sol', ' lead.sol', 'trail.sol ', '\tTab.sol'):
        conc = [(v0, [(name, [5, 17])])]
        spec = '%s|%s|5,17' % (n0, hexs(name))
        nat = chk.native.run([['report', cat, spec]])[0]
        chk.states += 1
        text = unhex(nat[1]) if nat[0] == 'OK' else None
        cok, cwhy = concrete_accept(text, cat, conc, sections, overview, headings) if text is not None else (False, 'panic: %s' % nat[1:])
        if not cok:
            chk.violation('%s:report:%s' % (cat, role_of(cwhy)), '%s report for findings %r: %s' % (cat, conc, cwhy),
                          {'job': 'report', 'category': cat, 'findings': spec, 'observed': text, 'why': cwhy})
        else:
            chk.ok()


def native_samples(chk, cat, f, sections, overview, headings):
    """DESIGN 4.4 fallback: concrete members of the family (incl. equal names / equal line sets) through the real generator"""
    names = [nm.rank for _, es in f.items for nm, _ in es]
    lines = [ls for _, es in f.items for _, ls in es]
    variants = [[]]
    if len(names) > 1:
        variants.append([names[0] == n for n in names[1:]])
        same = [a == b for la, lb in zip(lines, lines[1:]) if len(la) == len(lb) for a, b in zip(la, lb)]
        variants.append([names[0] == n for n in names[1:]] + same)
        variants.append([names[0] != names[1]])
    for extra in variants:
        s = z3.Solver(); s.add(*f.base); s.add(*extra)
        if s.check() != z3.sat:
            continue
        m = s.model()
        spec = f.spec(m)
        nat = chk.native.run([['report', cat, spec]])[0]
        chk.states += 1
        text = unhex(nat[1]) if nat[0] == 'OK' else None
        conc = f.concretize(m)
        cok, cwhy = concrete_accept(text, cat, conc, sections, overview, headings) if text is not None else (False, 'panic: %s' % nat[1:])
        if not cok:
            chk.violation('%s:report:%s' % (cat, role_of(cwhy)), '%s report for findings %r: %s' % (cat, conc, cwhy),
                          {'job': 'report', 'category': cat, 'findings': spec, 'observed': text, 'why': cwhy})


def role_of(why):
    w = re.sub(r'\d+', 'N', why)
    w = re.sub(r"\[.*?\]|'.*?'|\".*?\"", '', w)
    return re.sub(r'[^A-Za-z]+', '-', w).strip('-')[:60]


def concrete_accept(text, cat, conc, sections, overview, headings):
    """the same acceptance test on a concrete report text"""
    f = rl.Findings.__new__(rl.Findings)
    f.cat = cat
    f.items = [(v, [(Str(nm), [z3.BitVecVal(l, 32) for l in lines]) for nm, lines in es]) for v, es in conc]
    # concrete pieces: placeholders are not needed, flat() renders literal values
    class L(Str):
        pass
    old_sym = rl.sym_line
    rl.sym_line = lambda l: Str(str(l.as_signed_long()))
    old_block = rl.block_alternatives

    def alts(section, entries):
        out = set()
        for perm in itertools.permutations(entries):
            out.add(rl.flat(rl.block(section, [(nm, [Str(str(l.as_signed_long())) for l in lines]) for nm, lines in perm])))
        return out
    rl.block_alternatives = alts
    try:
        return rl.accept_report(Str(text), cat, f, sections, overview, headings)
    finally:
        rl.sym_line, rl.block_alternatives = old_sym, old_block


def static_checks(chk):
    """no constant text of the report contains a line that reads like an entry (`- text:digits`), so reading the entries
    back is unambiguous; headings and sections are pairwise different"""
    e = chk.engine()
    for cat in rl.CATS:
        sections, overview = setup(e, cat)
        texts = list(sections.values()) + [overview[0], overview[1] or ''] + list(HEADINGS.values())
        for t in texts:
            if re.search(r'(?m)^- .*:\d+$', t):
                chk.violation('%s:report:constant-text-looks-like-an-entry' % cat, 'a constant report text contains a line of the shape `- file:line`', {'text': t[:200]})
            else:
                chk.ok()
        if len(set(sections.values())) != len(sections):
            chk.violation('%s:report:two-patterns-share-a-section' % cat, 'two patterns have the same section text', {})
        else:
            chk.ok()


def full_report(chk):
    """generate_report: a category part is present iff the category has findings; exactly one write to solstat_report.md"""
    e = chk.engine()
    f = e.func('generate_report')
    try:
        secs = {c: setup(e, c) for c in rl.CATS}
    except Unsupported as u:
        chk.undecide('generate_report: %s' % u)
        native_full_sequences(chk)
        return
    # per category: no entry at all / findings / only file entries with empty line sets (= no findings)
    # ... / a file entry without lines NEXT TO one with a line (findings) / a pattern with no file entry at all (no findings)
    for mask3 in itertools.product((False, True, 'empty', 'mixed', 'nofiles'), repeat=3):
        fs = {}
        mask = tuple(x in (True, 'mixed') for x in mask3)
        for cat, on, v in zip(('vul', 'opt', 'qa'), mask3, ('FloatingPragma', 'Sstore', 'ConstructorOrder')):
            fs[cat] = rl.Findings(cat, {True: [(v, [1])], 'empty': [(v, [0])], 'mixed': [(v, [0, 1])], 'nofiles': [(v, [])], False: []}[on], tag=cat)
        base = sum((x.base for x in fs.values()), [])
        paths = e.explore(lambda en: en.call_mir(f, [fs['vul'].value(), fs['opt'].value(), fs['qa'].value()]), base_constraints=base)
        for r in paths:
            if r.outcome == 'unsupported':
                chk.undecide('generate_report on categories %r: %s' % (mask, r.value)); continue
            if r.outcome != 'return':
                chk.violation('full:report:%s' % r.outcome, 'generate_report %s on categories %r: %s' % (r.outcome, mask, r.value), {}); continue
            writes = r.extra.get('writes', [])
            if len(writes) != 1 or not (writes[0][0].concrete and writes[0][0].v == 'solstat_report.md'):
                chk.violation('full:report:writes', 'generate_report performs writes %r' % [(w[0],) for w in writes], {}); continue
            text = rl.flat(writes[0][1])
            pos, good = 0, True
            for cat, on in zip(('vul', 'opt', 'qa'), mask):
                if not on:
                    continue
                sections, overview = secs[cat]
                sub = rl.Findings.__new__(rl.Findings)
                # find the end of this part: it is followed by "\n\n"
                part_ok = False
                for end in range(pos, len(text) + 1):
                    if text.startswith('\n\n', end) and rl.accept_report(Str(text[pos:end]) if '\x00' not in text[pos:end] else _Flat(text[pos:end]), cat, fs[cat], sections, overview,
                                                                          HEADINGS if cat == 'vul' else None)[0]:
                        pos = end + 2
                        part_ok = True
                        break
                good = good and part_ok
            if good and pos == len(text):
                chk.ok()
            else:
                # confirm on the compiled code before reporting: the file written for these findings against the parts its own generators return
                import os
                sv = z3.Solver(); sv.add(*base); sv.add(*r.pc)
                if sv.check() != z3.sat:
                    chk.ok(); continue
                mm = sv.model()
                sp = [fs[c].spec(mm) for c in ('vul', 'opt', 'qa')]
                d = os.path.join(chk.native.dir, 'fullcat%d' % chk.native.n); chk.native.n += 1
                os.makedirs(d)
                nat = chk.native.run([['fullreport', sp[0], sp[1], sp[2], d], ['report', 'vul', sp[0]], ['report', 'opt', sp[1]], ['report', 'qa', sp[2]]])
                if all(x[0] == 'OK' for x in nat) and unhex(nat[0][1]) == ''.join(unhex(x[1]) + '\n\n' for x, on in zip(nat[1:], mask) if on):
                    # the file is the concatenation of what the category generators return: if the engine objects all the same, the fault
                    # lies in a category generator -- decided on its own compiled output before anything is called broken
                    wrong_part = None
                    for (cat_, on_), x_ in zip(zip(('vul', 'opt', 'qa'), mask), nat[1:]):
                        if on_:
                            okc, whyc = concrete_accept(unhex(x_[1]), cat_, fs[cat_].concretize(mm), secs[cat_][0], secs[cat_][1], HEADINGS if cat_ == 'vul' else None)
                            if not okc:
                                wrong_part = (cat_, whyc)
                    if wrong_part is not None:
                        chk.violation('%s:report:%s' % (wrong_part[0], role_of(wrong_part[1])), '%s report for findings %r: %s' % (wrong_part[0], fs[wrong_part[0]].concretize(mm), wrong_part[1]),
                                      {'job': 'report', 'category': wrong_part[0], 'findings': sp[('vul', 'opt', 'qa').index(wrong_part[0])], 'why': wrong_part[1]})
                        continue
                    chk.broken('generate_report with categories %r: the engine finds a wrong composition, the compiled code writes exactly the expected parts' % (mask3,))
                chk.violation('full:report:category-parts', 'generate_report with categories (vul, opt, qa) = %r (True: findings, False: no entry, empty: only file entries without lines, mixed: an entry without lines next to one with a line, nofiles: a pattern without file entries) does not consist of exactly the parts of the categories that have findings' % (mask3,),
                              {'job': 'fullreport', 'categories': [str(x) for x in mask3], 'specs': sp, 'observed': unhex(nat[0][1])[:400] if nat[0][0] == 'OK' else nat[0]})
    native_full_sequences(chk)
    chk.sample({'generate_report': 'all 27 combinations of absent / with findings / only empty line sets per category, one write to solstat_report.md'})


def native_full_sequences(chk):
    """the compiled generate_report, several reports written one after the other into the SAME directory (long then short, short then
    long, equal): every file left behind must be exactly the parts of the categories that have findings, each part being what the
    category's own generator returns -- nothing of an earlier report may remain"""
    import os
    specs = {
        'long': ('floating_pragma|%s|3,9;unsafe_erc20_operation|%s|4;unprotected_selfdestruct|%s|7' % (hexs('A.sol'), hexs('B.sol'), hexs('A.sol')),
                 ';'.join('%s|%s|%s' % (n, hexs('File%d.sol' % i), ','.join(str(k) for k in range(1, 12))) for i, (_, n) in enumerate(rl.OPT)),
                 'constructor_order|%s|5;private_vars_leading_underscore|%s|6,7' % (hexs('A.sol'), hexs('B.sol'))),
        'short': ('floating_pragma|%s|1' % hexs('A.sol'), '', ''),
        'qa only': ('', '', 'constructor_order|%s|5' % hexs('A.sol')),
        'nothing': ('', '', ''),
        'only empty line sets': ('floating_pragma|%s|' % hexs('A.sol'), 'sstore|%s|' % hexs('A.sol'), ''),
        # file names with control characters, placeholders and markdown in all three categories: what is WRITTEN is what the generators return
        'hostile names': ('floating_pragma|%s|3;unsafe_erc20_operation|%s|4' % (hexs('My\tToken.sol'), hexs('a\x1b[31mb.sol')),
                          'sstore|%s|5;solidity_math|%s|6,7;shift_math|%s|8' % (hexs('x\x7f.sol'), hexs('y\u0085z.sol'), hexs('Template{line}.sol')),
                          'constructor_order|%s|5;private_vars_leading_underscore|%s|9' % (hexs('\x01lead.sol'), hexs('### Lines'))),
    }
    has = lambda sp: any(item.split('|')[2] for item in sp.split(';') if item)
    orders = [('long', 'short'), ('short', 'long'), ('long', 'qa only'), ('long', 'nothing'), ('short', 'short'), ('long', 'only empty line sets', 'long'), ('hostile names',)]
    for order in orders:
        d = os.path.join(chk.native.dir, 'fullseq%d' % chk.native.n); chk.native.n += 1
        os.makedirs(d)
        for step, name in enumerate(order):
            v, o, q = specs[name]
            res = chk.native.run([['fullreport', v, o, q, d], ['report', 'vul', v], ['report', 'opt', o], ['report', 'qa', q]])
            chk.states += 1
            if any(r[0] != 'OK' for r in res):
                chk.violation('full:sequence:panic', 'generate_report / a category generator fails on the findings %r: %r' % (name, [r for r in res if r[0] != 'OK'][:1]),
                              {'job': 'fullreport sequence', 'order': order, 'step': step}); break
            want = ''.join(unhex(r[1]) + '\n\n' for r, sp in zip(res[1:], (v, o, q)) if has(sp))
            got = unhex(res[0][1])
            if got != want:
                k = next((i for i in range(min(len(got), len(want))) if got[i] != want[i]), min(len(got), len(want)))
                chk.violation('full:sequence:stale-or-wrong-file', 'after writing the reports %r one after the other into the same directory, solstat_report.md (%d bytes) is not '
                              'the report of the last findings (%d bytes): first difference at byte %d: %r' % (order[:step + 1], len(got), len(want), k, got[k:k + 60]),
                              {'job': 'fullreport sequence', 'order': list(order[:step + 1]), 'specs': {n: specs[n] for n in order}})
                break
            chk.ok()
    chk.sample({'generate_report natively': 'sequences of reports into one directory: %r' % (orders,)})


class _Flat(Str):
    """already-flattened text (placeholders in place)"""
    def __init__(self, text):
        self.v = text

    @property
    def concrete(self):
        return True


def binary_stale_runs(chk):
    """the compiled binary in a working directory that already holds a report with entries (what an earlier run left behind): afterwards the
    entries of solstat_report.md are exactly the findings of THIS run -- none when the analysed project has no findings or no pattern is selected"""
    import os
    import subprocess
    binary = os.path.join(chk.world.build, 'solstat')
    stale = '# Gas Optimizations - (Total Optimizations 2)\n\n### Lines\n- Old.sol:3\n- Old.sol:9\n'
    clean_src = 'pragma solidity 0.8.16;\ncontract Vault {}\n'
    found_src = 'pragma solidity 0.8.16;\ncontract Vault {\n    uint256 st;\n    function w() public { st = 1; }\n}\n'
    scenarios = [('a project without findings, default patterns', clean_src, None, set()),
                 ('a project with findings, no pattern selected', found_src, 'optimizations = []\nvulnerabilities = []\nqa = []\n', set()),
                 ('a project with one finding, one pattern selected', found_src, 'optimizations = ["sstore"]\nvulnerabilities = []\nqa = []\n', {('Vault.sol', 4)})]
    for what, src, cfg, want in scenarios:
        d = os.path.join(chk.native.dir, 'stale%d' % chk.native.n)
        chk.native.n += 1
        os.makedirs(os.path.join(d, 'contracts'))
        open(os.path.join(d, 'contracts', 'Vault.sol'), 'w').write(src)
        open(os.path.join(d, 'solstat_report.md'), 'w').write(stale)
        cmd = [binary]
        if cfg is not None:
            open(os.path.join(d, 'cfg.toml'), 'w').write('path = "contracts"\n' + cfg)
            cmd += ['--toml', 'cfg.toml']
        p = subprocess.run(cmd, cwd=d, stdout=subprocess.PIPE, stderr=subprocess.PIPE, text=True)
        chk.validated += 1
        rp = os.path.join(d, 'solstat_report.md')
        rep = open(rp).read() if os.path.exists(rp) else ''
        got = {(m.group(1), int(m.group(2))) for m in re.finditer(r'^- (.+):(-?\d+)$', rep, re.M)}
        if p.returncode != 0 or got != want:
            chk.violation('binary:stale-report', 'solstat on %s, in a working directory with an older report: exit status %d, the report lists %r, the findings of the run are %r' % (
                what, p.returncode, sorted(got), sorted(want)), {'job': 'solstat_stale', 'source': src, 'config': cfg, 'stale': stale, 'expected': sorted(want), 'observed': sorted(got)})
        else:
            chk.ok()


def body(chk, which='C11'):
    chk.bounds = {'patterns per map': 'vulnerabilities: all 16 subsets, QA: all 8, optimizations: every single pattern, %s pairs, sampled larger subsets and all 23' % ('60 seeded' if chk.quick else 'all 253'),
                  'files per pattern': '1..2 (thorough 3)', 'lines per file': '1..2 (thorough 3), symbolic, increasing',
                  'file names': 'symbolic members of the ordered family `a b:<rank>.sol` (space and colon inside; identity and order decided on the symbolic rank 0..9999)',
                  'outside': 'maps with empty vectors / empty line sets (analyze_dir never produces them); longer names; non-ASCII names'}
    chk.assumptions = ['String / format! / HashMap / BTreeSet / Vec / slice::sort contracts of DESIGN.md 2.4', 'fs::write captured as an effect']
    items = []
    for cat in rl.CATS:
        sh = shapes_for(chk, cat)
        for k in range(0, len(sh), 12):
            items.append((cat, sh[k:k + 12]))
    chk.parallel(lambda c, it: check_shapes(c, it, which), items)
    static_checks(chk)
    full_report(chk)
    if which == 'C11':
        binary_stale_runs(chk)


if __name__ == '__main__':
    main('C11', body)
