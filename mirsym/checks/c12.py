"""C12 — report totals and headings agree with the findings shown (DESIGN.md 6/C12). Same encoding and oracle as C11;
here the families are the ones the property names: all 16 subsets of the vulnerability patterns crossed with file / line
multiplicities, totals of optimisation reports with many entries, and presence of the category parts."""
import itertools

from .. import reportlib as rl
from ..checklib import main
from . import c11


def shapes(chk):
    vt = [v for v, _ in rl.VUL]
    mult = [[1], [2], [1, 1], [3], [2, 2], [0], [0, 1]] if chk.quick else [[1], [2], [3], [1, 1], [2, 1], [1, 1, 1], [3, 2], [0], [0, 1], [0, 0], [2, 0]]
    out = {'vul': [], 'opt': [], 'qa': []}
    for r in range(0, 5):
        for sub in itertools.combinations(vt, r):
            for k, ms in enumerate(mult):
                out['vul'].append([(v, mult[(k + i) % len(mult)]) for i, v in enumerate(sub)])
                if chk.quick and r >= 3 and k >= 2:
                    break
    ot = [v for v, _ in rl.OPT]
    for k in range(6 if chk.quick else 20):
        sub = chk.rng.sample(ot, chk.rng.choice([1, 2, 3, 5]))
        out['opt'].append([(v, chk.rng.choice(mult)) for v in sub])
    out['opt'].append([(v, [2]) for v in ot[:12]])
    qt = [v for v, _ in rl.QA]
    for r in range(0, 4):
        for sub in itertools.combinations(qt, r):
            out['qa'].append([(v, [2, 1]) for v in sub])
    return out


def body(chk):
    chk.bounds = {'vulnerability maps': 'all 16 subsets of the 4 patterns x file/line multiplicities up to 3 files / 3 lines',
                  'optimisation maps': 'seeded subsets of up to 5 patterns + one map with 12 patterns x 2 lines',
                  'category parts': 'all 27 combinations of absent / with findings / only empty line sets for the vulnerability, optimisation and QA maps',
                  'names / lines': 'symbolic (as C11)', 'outside': 'as C11'}
    chk.assumptions = ['as C11; severity of each vulnerability taken from the property text']
    sh = shapes(chk)
    items = []
    for cat, lst in sh.items():
        for k in range(0, len(lst), 8):
            items.append((cat, lst[k:k + 8]))
    chk.parallel(lambda c, it: c11.check_shapes(c, it, 'C12'), items)
    c11.full_report(chk)


if __name__ == '__main__':
    main('C12', body)
