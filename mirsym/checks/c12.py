"""C12 — report totals and headings agree with the findings shown (DESIGN.md 6/C12). Same encoding and oracle as C11;
here the families are the ones the property names: all 16 subsets of the vulnerability patterns crossed with file / line
multiplicities, totals of optimisation reports with many entries, and presence of the category parts."""
import itertools

from .. import reportlib as rl
from ..checklib import main
from . import c11


def shapes(chk):
    vt = [v for v, _ in rl.VUL]
    mult = [[1], [2], [1, 1], [3], [2, 2], [0], [0, 1]] if chk.quick else [[1], [2], [3], [1, 1], [2, 1], [1, 1, 1], [3, 2], [0], [0, 1], [0, 0], [2, 0]]
    out = {'vul': [], 'opt': [], 'qa': []}
    for r in range(0, 5):
        for sub in itertools.combinations(vt, r):
            for k, ms in enumerate(mult):
                out['vul'].append([(v, mult[(k + i) % len(mult)]) for i, v in enumerate(sub)])
                if chk.quick and r >= 3 and k >= 2:
                    break
    ot = [v for v, _ in rl.OPT]
    for k in range(6 if chk.quick else 20):
        sub = chk.rng.sample(ot, chk.rng.choice([1, 2, 3, 5]))
        out['opt'].append([(v, chk.rng.choice(mult)) for v in sub])
    out['opt'].append([(v, [2]) for v in ot[:12]])
    qt = [v for v, _ in rl.QA]
    for r in range(0, 4):
        for sub in itertools.combinations(qt, r):
            out['qa'].append([(v, [2, 1]) for v in sub])
    return out


def binary_category_runs(chk):
    """the compiled binary (main -> analyze_dir -> generate_report) for all 8 combinations of categories with findings: the report holds the part of
    a category iff that category has findings -- also when it is the only one"""
    import os
    import re
    import subprocess
    snip = {'vul': ('divide_before_multiply', 'function d(uint256 a) public { a / 2 * 3; }'), 'opt': ('sstore', 'uint256 st; function w() public { st = 1; }'),
            'qa': ('private_vars_leading_underscore', 'uint256 private pv;')}
    key = {'vul': 'vulnerabilities', 'opt': 'optimizations', 'qa': 'qa'}
    order = ['vul', 'opt', 'qa']
    text = 'pragma solidity 0.8.16;\ncontract Sel {\n' + ''.join('    %s\n' % snip[c][1] for c in order) + '}\n'
    line_of = {c: 3 + i for i, c in enumerate(order)}
    heads = {}
    for c in order:
        _, overview = c11.native_texts(chk, c)
        first = [ln for ln in overview[0].split('\n') if ln.strip()]
        heads[c] = first[0] if first else None
    binary = os.path.join(chk.world.build, 'solstat')
    for combo in itertools.product((0, 1), repeat=3):
        chosen = {c: bool(x) for c, x in zip(order, combo)}
        d = os.path.join(chk.native.dir, 'cats%d' % chk.native.n)
        chk.native.n += 1
        os.makedirs(os.path.join(d, 'proj'))
        open(os.path.join(d, 'proj', 'Sel.sol'), 'w').write(text)
        cfg = 'path = "proj"\n' + ''.join('%s = [%s]\n' % (key[c], '"%s"' % snip[c][0] if chosen[c] else '') for c in ('opt', 'vul', 'qa'))
        open(os.path.join(d, 'cfg.toml'), 'w').write(cfg)
        p = subprocess.run([binary, '--toml', 'cfg.toml'], cwd=d, stdout=subprocess.PIPE, stderr=subprocess.PIPE, text=True)
        chk.validated += 1
        rp = os.path.join(d, 'solstat_report.md')
        rep = open(rp).read() if os.path.exists(rp) else None
        bad = []
        if p.returncode != 0:
            bad.append('exit status %d' % p.returncode)
        if rep is None and any(chosen.values()):
            bad.append('no report written although %s have findings' % [c for c in order if chosen[c]])
        listed = {int(m.group(1)) for m in re.finditer(r'^- Sel\.sol:(\d+)$', rep or '', re.M)}
        for c in order:
            if chosen[c] and rep is not None and line_of[c] not in listed:
                bad.append('the %s finding on line %d is not listed' % (c, line_of[c]))
            if not chosen[c] and line_of[c] in listed:
                bad.append('a %s finding is listed although the category has none' % c)
            if heads[c] and rep is not None and (heads[c] in rep) != chosen[c]:
                bad.append('the %s part is %s although the category has %s' % (c, 'present' if heads[c] in rep else 'absent', 'findings' if chosen[c] else 'no findings'))
        if bad:
            chk.violation('binary:category-parts', 'solstat with findings in %s only: %s' % ([c for c in order if chosen[c]] or 'no category', '; '.join(bad)),
                          {'job': 'solstat', 'config': cfg, 'source': text, 'observed': (rep or '')[:300]})
        else:
            chk.ok()
    chk.sample({'binary runs': '8 combinations of categories with findings through the compiled binary'})


def body(chk):
    chk.bounds = {'vulnerability maps': 'all 16 subsets of the 4 patterns x file/line multiplicities up to 3 files / 3 lines',
                  'optimisation maps': 'seeded subsets of up to 5 patterns + one map with 12 patterns x 2 lines',
                  'category parts': 'all 27 combinations of absent / with findings / only empty line sets for the vulnerability, optimisation and QA maps',
                  'names / lines': 'symbolic (as C11)', 'outside': 'as C11'}
    chk.assumptions = ['as C11; severity of each vulnerability taken from the property text']
    sh = shapes(chk)
    items = []
    for cat, lst in sh.items():
        for k in range(0, len(lst), 8):
            items.append((cat, lst[k:k + 8]))
    chk.parallel(lambda c, it: c11.check_shapes(c, it, 'C12'), items)
    c11.full_report(chk)
    binary_category_runs(chk)


if __name__ == '__main__':
    main('C12', body)
