"""C14 — configuration selects exactly the named patterns and the named directory (DESIGN.md 6/C14)."""
import itertools
import os
import re
import subprocess

import z3

from .. import prepare, reportlib as rl
from ..checklib import main
from ..engine import Adt, CaseStr, Choice, Str, Tuple, VecV, Panic, Unsupported
from ..lib import ok, err, NONE, some, World
from ..native import hexs, unhex

CATS = {'opt': ('str_to_optimization', 'get_all_optimizations', 'Optimization', 'docs/identified-optimizations.md', 'optimizations'),
        'vul': ('str_to_vulnerability', 'get_all_vulnerabilities', 'Vulnerability', 'docs/identified-vulnerabilities.md', 'vulnerabilities'),
        'qa': ('str_to_qa', 'get_all_qa', 'QualityAssurance', 'docs/identified-quality-assurance.md', 'qa')}


def documented_names(cat):
    """pattern names of the documentation tables, README.md and the sample Solstat.toml (parsed at run time)"""
    names = []
    doc = open(os.path.join(prepare.REPO, CATS[cat][3])).read()
    for m in re.finditer(r'^\|\s*([a-z][a-z0-9_]+)\s*\|', doc, re.M):
        names.append(m.group(1))
    readme = open(os.path.join(prepare.REPO, 'README.md')).read()
    toml = open(os.path.join(prepare.REPO, 'Solstat.toml')).read()
    m = re.search(r'^%s\s*=\s*\[(.*?)\]' % CATS[cat][4], toml, re.M | re.S)
    if m:
        names += re.findall(r'"([^"]+)"', m.group(1))
    out = []
    for n in names:
        if n not in out:
            out.append(n)
    return out


def casings(name, rng, k):
    out = [name, name.upper(), name.capitalize(), name.title(), ''.join(c.upper() if i % 2 else c for i, c in enumerate(name)),
           ''.join(c.upper() if i % 2 == 0 else c for i, c in enumerate(name)), name[:-1] + name[-1].upper(), name[0] + name[1:].upper()]
    for _ in range(k):
        out.append(''.join(c.upper() if rng.random() < 0.5 else c for c in name))
    return list(dict.fromkeys(out))


def check_names(chk, cat):
    e = chk.engine()
    fn_name, all_name, enum, _, _ = CATS[cat]
    fn, allf = e.func(fn_name), e.func(all_name)
    docs = documented_names(cat)
    variant_of = {}
    # (1) every documented name, in EVERY letter case at once (symbolic casing mask), is accepted and selects one pattern
    for n in docs:
        mask = z3.BitVec('casing', max(len(n), 1))
        paths = e.explore(lambda en: en.call_mir(fn, [CaseStr(n, mask)]))
        outs = set()
        unsupported = [r for r in paths if r.outcome == 'unsupported']
        if unsupported:
            chk.undecide('%s(%s in any case): %s' % (fn_name, n, unsupported[0].value))
            native_casings(chk, cat, n, variant_of)
            continue
        for r in paths:
            outs.add(r.value.variant if r.outcome == 'return' else 'PANIC: ' + str(r.value))
        if len(outs) == 1 and not list(outs)[0].startswith('PANIC'):
            variant_of[n] = list(outs)[0]
            chk.ok()
            nat = chk.native.run([['strto', cat, hexs(c)] for c in casings(n, chk.rng, 2)])
            chk.validated += len(nat)
            if any(r[0] != 'OK' or r[1] != variant_of[n] for r in nat):
                chk.broken('%s(%s): engine says every casing selects %s, the real code says %r' % (fn_name, n, variant_of[n], nat))
        else:
            # find a concrete casing that fails, natively
            bad = None
            for c in casings(n, chk.rng, 30):
                r = chk.native.run([['strto', cat, hexs(c)]])[0]
                if r[0] != 'OK' or (n in variant_of and r[1] != variant_of[n]):
                    bad = (c, r); break
            if bad is None:
                chk.broken('%s(%s): engine sees outcomes %r over the casings, the real code accepts all tried casings' % (fn_name, n, outs))
            chk.violation('%s:name:%s' % (cat, 'rejected' if bad[1][0] != 'OK' else 'case-dependent'),
                          'documented name `%s` written as `%s`: %s' % (n, bad[0], bad[1]), {'job': 'strto', 'category': cat, 'name': bad[0], 'observed': bad[1]})
    # (2a) a documented name selects ITS pattern (the pattern whose findings the report lists under that name's section; table of
    #      reportlib, written from the documentation) -- two look-alike names selecting each other's pattern is still a bijection
    expected = {name: variant for variant, name in rl.CATS[cat]['table']}
    for n, v in sorted(variant_of.items()):
        if n in expected and expected[n] != v:
            nat = chk.native.run([['strto', cat, hexs(n)]])[0]
            if nat[0] == 'OK' and nat[1] == expected[n]:
                chk.broken('%s(%s): engine says it selects %s, the real code selects %s' % (fn_name, n, v, nat[1]))
            chk.violation('%s:name:selects-another-pattern' % cat, 'the documented name `%s` selects the pattern %s; the pattern documented under that name is %s' % (n, nat[1] if nat[0] == 'OK' else nat, expected[n]),
                          {'job': 'strto', 'category': cat, 'name': n, 'observed': nat, 'expected': expected[n]})
        elif n in expected:
            chk.ok()
    # (2) distinct documented names select distinct patterns
    inv = {}
    for n, v in variant_of.items():
        inv.setdefault(v, []).append(n)
    for v, ns in inv.items():
        if len(ns) > 1:
            chk.violation('%s:name:two-names-one-pattern' % cat, 'documented names %r all select %s' % (ns, v), {'names': ns})
        else:
            chk.ok()
    # (3) every pattern that runs by default can be selected by a documented name
    r = e.explore(lambda en: en.call_mir(allf, []))[0]
    defaults = [x.variant for x in r.value.items]
    for v in defaults:
        if v not in inv:
            chk.violation('%s:name:default-pattern-without-documented-name' % cat, 'pattern %s runs by default but no documented name selects it' % v, {'pattern': v})
        else:
            chk.ok()
    # (4) any other name is rejected: symbolic string that is its own lower-case form
    s = Str(z3.String('unknown_name'))
    s.lower_invariant = True
    alpha = z3.Union(z3.Range('a', 'z'), z3.Range('0', '9'), z3.Re('_'), z3.Re(' '), z3.Re('-'))
    base = [z3.InRe(s.v, z3.Star(alpha)), z3.Length(s.v) <= 40]
    try:
        paths = e.explore(lambda en: en.call_mir(fn, [s]), base_constraints=base)
    except Unsupported as u:
        paths = []
        chk.undecide('%s(symbolic name): %s' % (fn_name, u))
    for r in paths:
        if r.outcome == 'unsupported':
            chk.undecide('%s(symbolic name): %s' % (fn_name, r.value)); continue
        if r.outcome == 'panic':
            chk.ok(); continue
        sv = z3.Solver(); sv.add(*base); sv.add(*r.pc)
        sv.add(z3.And([s.v != z3.StringVal(n) for n in docs]))
        chk.queries += 1
        if sv.check() == z3.sat:
            name = sv.model().eval(s.v, model_completion=True).as_string()
            nat = chk.native.run([['strto', cat, hexs(name)]])[0]
            if nat[0] != 'OK':
                chk.broken('%s: engine accepts the undocumented name %r, the real code rejects it' % (fn_name, name))
            chk.violation('%s:name:undocumented-name-accepted' % cat, 'the undocumented name `%s` is accepted and selects %s' % (name, nat[1]),
                          {'job': 'strto', 'category': cat, 'name': name, 'observed': nat})
        else:
            chk.ok()
    for name in ['', ' ', 'sstore ', 'address-zero', 'unknown_pattern', docs[0] + 's', docs[0][:-1]]:
        nat = chk.native.run([['strto', cat, hexs(name)]])[0]
        chk.validated += 1
        if nat[0] == 'OK' and name not in docs:
            chk.violation('%s:name:undocumented-name-accepted' % cat, 'the undocumented name `%s` is accepted and selects %s' % (name, nat[1]),
                          {'job': 'strto', 'category': cat, 'name': name, 'observed': nat})
    chk.sample({'category': cat, 'documented names': docs, 'selected': variant_of})
    return variant_of, defaults


def native_casings(chk, cat, n, variant_of):
    """fallback (DESIGN 4.4): many concrete casings through the real function"""
    seen = set()
    for c in casings(n, chk.rng, 40):
        r = chk.native.run([['strto', cat, hexs(c)]])[0]
        chk.states += 1
        if r[0] != 'OK':
            chk.violation('%s:name:rejected' % cat, 'documented name `%s` written as `%s` is rejected: %s' % (n, c, r[1:]),
                          {'job': 'strto', 'category': cat, 'name': c, 'observed': r})
            return
        seen.add(r[1])
    if len(seen) > 1:
        chk.violation('%s:name:case-dependent' % cat, 'documented name `%s` selects %r depending on letter case' % (n, sorted(seen)), {'name': n})
    elif seen:
        variant_of[n] = list(seen)[0]


def check_opts(chk, tables):
    """Opts::new from the binary's MIR with clap / toml / fs / exit replaced by arbitrary values of their result types"""
    e = chk.engine('bin')
    new = [n for n in e.program if n.endswith('::new') and 'opts' in n and 'closure' not in n]
    if len(new) != 1:
        chk.undecide('Opts::new not found in the binary MIR'); return
    fn = e.func(new[0])
    names = {c: list(tables[c][0]) for c in tables}
    _TABLES.update(tables)
    cases = []
    for has_path, has_toml, contracts_exists in itertools.product((False, True), repeat=3):
        cases.append((has_path, has_toml, contracts_exists))
    for (has_path, has_toml, contracts_exists) in cases:
        lists = {}
        for c in ('opt', 'vul', 'qa'):
            pool = names[c][:3] + ['no_such_pattern']
            alts = [VecV(())] + [VecV([Str(a)]) for a in pool] + [VecV([Str(pool[1 % len(pool)]), Str(pool[0])])]
            # a name listed twice (also in another letter case) with further names behind it: every listed name counts, wherever it stands
            pk = lambda i: pool[i % len(pool)]          # (a table may hold fewer than three names)
            alts += [VecV([Str(pk(0)), Str(pk(0)), Str(pk(1))]), VecV([Str(pk(1)), Str(pk(0)), Str(pk(1).upper()), Str(pk(2))]),
                     VecV([Str(pk(0)), Str(pk(0).capitalize()), Str('no_such_pattern')])]
            lists[c] = Choice('list_' + c, alts)
        arg_path, toml_dir = Str(z3.String('arg_path')), Str(z3.String('toml_path'))
        args = Adt('Args', None, (some(arg_path) if has_path else NONE, some(Str('cfg.toml')) if has_toml else NONE))
        toml_val = Adt('SolstatToml', None, (toml_dir, lists['opt'], lists['vul'], lists['qa']))
        w = World()
        w.files['cfg.toml'] = {'name': Str('cfg.toml'), 'kind': 'file', 'path': 'cfg.toml', 'contents': Str(z3.String('toml_text'))}
        if contracts_exists:
            w.dirs['./contracts'] = []
        e.flags['world'] = w
        e.stubs['<opts::Args as Parser>::parse'] = lambda en, a, fr, c: args
        e.stubs["toml::from_str::<'_, SolstatToml>"] = lambda en, a, fr, c: ok(toml_val)
        e.stubs['colour::unnamed::write'] = lambda en, a, fr, c: Tuple(())
        try:
            paths = e.explore(lambda en: en.call_mir(fn, []), max_paths=20000)
        except Unsupported as u:
            chk.undecide('Opts::new: %s' % u); continue
        for r in paths:
            if r.outcome == 'unsupported':
                chk.undecide('Opts::new: %s' % r.value); continue
            sv = z3.Solver(); sv.add(*r.pc)
            given = 'given'
            if has_path and sv.check() == z3.sat:
                given = sv.model().eval(arg_path.v, model_completion=True).as_string() or 'given'
            chosen = {}
            unknown = False
            for c in ('opt', 'vul', 'qa'):
                k = r.choices.get('list_' + c)
                items = [] if k is None else [x.v for x in lists[c].alts[k].items]
                chosen[c] = items
                unknown = unknown or 'no_such_pattern' in items
            want_path = 'arg' if has_path else ('toml' if has_toml else 'default')
            label = 'path=%s toml=%s ./contracts=%s lists=%r' % (has_path, has_toml, contracts_exists, chosen if has_toml else 'n/a')
            if has_toml and unknown:
                if r.outcome == 'panic':
                    chk.ok()
                else:
                    report_opts(chk, 'unknown-name-accepted', label, 'an unknown pattern name does not make the run fail', has_path, has_toml, chosen, contracts_exists, given)
                continue
            if r.outcome == 'exit':
                if want_path == 'default' and not contracts_exists and r.value.code != 0:
                    chk.ok()
                else:
                    report_opts(chk, 'unexpected-exit', label, 'exits with status %r' % r.value.code, has_path, has_toml, chosen, contracts_exists, given)
                continue
            if r.outcome == 'panic':
                report_opts(chk, 'panic', label, 'panics: %s' % r.value.msg, has_path, has_toml, chosen, contracts_exists, given); continue
            if want_path == 'default' and not contracts_exists:
                report_opts(chk, 'missing-directory-accepted', label, 'continues although ./contracts does not exist', has_path, has_toml, chosen, contracts_exists, given)
                continue
            o = r.value
            path_v, opt_v, vul_v, qa_v = o.fields
            got_path = 'arg' if path_v is arg_path else 'toml' if path_v is toml_dir else ('default' if path_v.concrete and path_v.v == './contracts' else repr(path_v))
            problems = []
            if got_path != want_path:
                # different objects may still be equal strings under the path condition (e.g. --path ./contracts)
                want_v = {'arg': arg_path, 'toml': toml_dir, 'default': Str('./contracts')}[want_path]
                chk.queries += 1
                sv.push(); sv.add(path_v.z() != want_v.z())
                differs = sv.check() == z3.sat
                if differs:
                    mm = sv.model()
                    given = mm.eval(arg_path.v, model_completion=True).as_string() or given
                sv.pop()
                if differs:
                    problems.append('analyses the %s directory, expected the %s one' % (got_path, want_path))
            for c, vec in (('opt', opt_v), ('vul', vul_v), ('qa', qa_v)):
                got = [x.variant for x in en_items(vec)]
                want = [tables[c][0][n.lower()] for n in chosen[c]] if has_toml else tables[c][1]
                if has_toml and len({n.lower() for n in chosen[c]}) < len(chosen[c]):
                    # a name listed twice: whether its pattern then runs once or twice is not the property's subject, WHICH patterns run is
                    got, want = sorted(set(got)), sorted(set(want))
                if got != want:
                    problems.append('%s patterns %r, expected %r' % (c, got, want))
            if problems:
                report_opts(chk, 'wrong-options', label, '; '.join(problems), has_path, has_toml, chosen, contracts_exists, given)
            else:
                chk.ok()
    chk.sample({'Opts::new': 'presence of --path / --toml / ./contracts (8 combinations) x pattern lists (empty, one known name, unknown name, two names) per category; paths symbolic'})


def en_items(vec):
    return vec.items


def report_opts(chk, role, label, why, has_path, has_toml, chosen, contracts_exists, given='given'):
    """confirm with the real Opts::new (opts_probe binary: src/opts.rs compiled unchanged) in a scratch directory"""
    d = os.path.join(chk.native.dir, 'opts%d' % chk.native.n)
    chk.native.n += 1
    if not re.match(r'^[A-Za-z0-9_./-]{1,40}$', given) or given.startswith('/') or '..' in given:
        given = 'given'
    os.makedirs(os.path.join(d, 'fromtoml'))
    if contracts_exists:
        os.makedirs(os.path.join(d, 'contracts'))
    if has_path and not (os.path.normpath(given) == 'contracts' and not contracts_exists):
        os.makedirs(os.path.join(d, given), exist_ok=True)
    argv = [os.path.join(chk.world.build, 'opts_probe')]
    if has_path:
        argv += ['--path', given]
    if has_toml:
        q = lambda l: '[' + ', '.join('"%s"' % x for x in l) + ']'
        open(os.path.join(d, 'cfg.toml'), 'w').write('path = "fromtoml"\noptimizations = %s\nvulnerabilities = %s\nqa = %s\n' % (
            q(chosen['opt']), q(chosen['vul']), q(chosen['qa'])))
        argv += ['--toml', 'cfg.toml']
    p = subprocess.run(argv, cwd=d, stdout=subprocess.PIPE, stderr=subprocess.PIPE, text=True)
    chk.validated += 1
    observed = {'exit': p.returncode, 'stdout': p.stdout[-600:], 'stderr': p.stderr[-300:]}
    # does the real program show the problem?
    want_path = given if has_path else ('fromtoml' if has_toml else './contracts')
    real = False
    unknown = has_toml and any('no_such_pattern' in chosen[c] for c in chosen)
    if unknown:
        real = p.returncode == 0
    elif not has_path and not has_toml and not contracts_exists:
        real = p.returncode == 0
    else:
        m = re.search(r'^path\t(.*)$', p.stdout, re.M)
        real = p.returncode != 0 or m is None or m.group(1) != want_path
        if not real and role == 'wrong-options':
            real = True if 'patterns' in why and not chk_lists(p.stdout, chosen, has_toml) else real
    if not real:
        chk.broken('Opts::new [%s]: engine says "%s" but the real program behaves as required: %r' % (label, why, observed))
    chk.violation('opts:%s' % role, 'Opts::new with %s: %s' % (label, why), {'job': 'opts_probe', 'argv': argv[1:], 'cwd_layout': os.listdir(d), 'observed': observed})


_TABLES = {}


def chk_lists(stdout, chosen, has_toml):
    """do the pattern lists printed by the real Opts::new match the configured names? (repeated names: compared as sets)"""
    if not has_toml or not _TABLES:
        return True
    keys = {'opt': 'optimizations', 'vul': 'vulnerabilities', 'qa': 'qa'}
    for c, key in keys.items():
        m = re.search(r'^%s\t\[(.*)\]$' % key, stdout, re.M)
        if m is None:
            return False
        got = [x.strip() for x in m.group(1).split(',') if x.strip()]
        try:
            want = [_TABLES[c][0][n.lower()] for n in chosen[c]]
        except KeyError:
            return True
        if len({n.lower() for n in chosen[c]}) < len(chosen[c]):
            got, want = sorted(set(got)), sorted(set(want))
        if got != want:
            return False
    return True


def check_main_order(chk):
    """an unknown name fails the run before any report is written: in main() the options are built before anything else"""
    e = chk.engine('bin')
    mains = [n for n in e.program if n == 'main']
    if not mains:
        chk.undecide('main not found'); return
    f = e.func('main')
    first_call = None
    for st in f.blocks['bb0']:
        if st[0] == 'call':
            first_call = st[2]
            break
    if first_call and first_call.endswith('::new') and 'pts' in first_call:
        chk.ok()
    else:
        chk.undecide('main() does not start with Opts::new() (first call: %s): order of failure and report writing not established' % first_call)
    # natively: the real binary with an unknown name exits non-zero and writes no report
    d = os.path.join(chk.native.dir, 'main%d' % chk.native.n)
    chk.native.n += 1
    os.makedirs(os.path.join(d, 'contracts'))
    open(os.path.join(d, 'contracts', 'A.sol'), 'w').write('pragma solidity ^0.8.0;\ncontract A { function f(uint a) public { a + 1; } }\n')
    open(os.path.join(d, 'cfg.toml'), 'w').write('path = "contracts"\noptimizations = ["solidity_math", "nope"]\nvulnerabilities = []\nqa = []\n')
    p = subprocess.run([os.path.join(chk.world.build, 'solstat'), '--toml', 'cfg.toml'], cwd=d, stdout=subprocess.PIPE, stderr=subprocess.PIPE, text=True)
    chk.validated += 1
    if p.returncode == 0 or os.path.exists(os.path.join(d, 'solstat_report.md')):
        chk.violation('main:unknown-name', 'solstat --toml with an unknown pattern name: exit status %d, report written: %s' % (
            p.returncode, os.path.exists(os.path.join(d, 'solstat_report.md'))), {'job': 'solstat', 'observed': p.stderr[-300:]})
    else:
        chk.ok()
    # the configured path is used as written (letter case, blanks)
    os.makedirs(os.path.join(d, 'Src', 'My Contracts'))
    os.makedirs(os.path.join(d, 'src', 'my contracts'))
    open(os.path.join(d, 'Src', 'My Contracts', 'Wanted.sol'), 'w').write('pragma solidity ^0.8.0;\ncontract A { function f(uint a) public { a + 1; } }\n')
    open(os.path.join(d, 'src', 'my contracts', 'Other.sol'), 'w').write('pragma solidity ^0.8.0;\ncontract B { function f(uint a) public { a + 1; } }\n')
    open(os.path.join(d, 'cfg2.toml'), 'w').write('path = "./Src/My Contracts"\noptimizations = ["solidity_math"]\nvulnerabilities = []\nqa = []\n')
    p = subprocess.run([os.path.join(chk.world.build, 'solstat'), '--toml', 'cfg2.toml'], cwd=d, stdout=subprocess.PIPE, stderr=subprocess.PIPE, text=True)
    rep = open(os.path.join(d, 'solstat_report.md')).read() if os.path.exists(os.path.join(d, 'solstat_report.md')) else ''
    chk.validated += 1
    if p.returncode != 0 or '- Wanted.sol:2' not in rep or 'Other.sol' in rep:
        chk.violation('main:toml-path-as-written', 'solstat --toml with path = "./Src/My Contracts" (a lower-case sibling directory exists): exit %d, report lists %r' % (
            p.returncode, re.findall(r'^- (\S+\.sol):', rep, re.M)[:4]), {'job': 'solstat', 'report': rep[:300], 'stderr': p.stderr[-300:]})
    else:
        chk.ok()
    if os.path.exists(os.path.join(d, 'solstat_report.md')):
        os.remove(os.path.join(d, 'solstat_report.md'))
    # and a good configuration selects exactly the listed patterns, in the configured directory
    open(os.path.join(d, 'cfg.toml'), 'w').write('path = "contracts"\noptimizations = ["SOLIDITY_MATH"]\nvulnerabilities = ["Floating_Pragma"]\nqa = []\n')
    p = subprocess.run([os.path.join(chk.world.build, 'solstat'), '--toml', 'cfg.toml'], cwd=d, stdout=subprocess.PIPE, stderr=subprocess.PIPE, text=True)
    rep = open(os.path.join(d, 'solstat_report.md')).read() if os.path.exists(os.path.join(d, 'solstat_report.md')) else ''
    chk.validated += 1
    if p.returncode != 0 or '- A.sol:2' not in rep or '- A.sol:1' not in rep:
        chk.violation('main:toml-run', 'solstat --toml (path from the file, upper-case names) did not produce the expected report: exit %d' % p.returncode,
                      {'job': 'solstat', 'report': rep[:400], 'stderr': p.stderr[-300:]})
    else:
        chk.ok()


SELECTION = {'opt': ['SolidityMath', 'Sstore', 'CacheArrayLength'], 'vul': ['FloatingPragma', 'DivideBeforeMultiply'], 'qa': ['ConstructorOrder', 'PrivateVarsLeadingUnderscore']}


def check_main_selection(chk):
    """main() from the binary's MIR with the options as a symbolic value: whatever lists Opts::new() returns, exactly the listed
    patterns are analysed on exactly the files of the configured directory, and the report is written (once) in every case"""
    from .. import dirlib as dl
    from ..engine import Int, SetV
    e = chk.engine('bin')
    f = e.func('main')
    names = {c: dict(rl.CATS[c]['table']) for c in rl.CATS}
    # every category: no pattern / one / two / all of the selection (Choice: the path decides lazily, all 4^3 combinations are covered)
    def lists(cat):
        enum = rl.CATS[cat]['enum']
        sel = SELECTION[cat]
        return [[], [sel[0]], [sel[1], sel[0]], sel], enum
    combos = list(itertools.product(range(4), repeat=3))
    if chk.quick:
        keep = [c for c in combos if c.count(0) >= 1 or c == (3, 3, 3)]
        combos = keep
    for ko, kv, kq in combos:
        w = World()
        tree = dl.Tree([('file', 'A.sol', 'a'), ('dir', 'sub', [('file', 'B.sol', 'b')]), ('file', 'notes.txt', 'n')])
        w.dirs = {k.replace('root', 'proj', 1): [dict(x, path=x['path'].replace('root', 'proj', 1)) for x in v] for k, v in tree.world.dirs.items()}
        w.files = {k.replace('root', 'proj', 1): dict(v, path=k.replace('root', 'proj', 1)) for k, v in tree.world.files.items()}
        e.flags['world'] = w
        e.flags['symbolic_listing'] = False
        chosen = {}
        fields = [Str('proj')]
        for cat, k in (('opt', ko), ('vul', kv), ('qa', kq)):
            ls, enum = lists(cat)
            chosen[cat] = ls[k]
            fields.append(VecV([Adt(enum, v) for v in ls[k]]))
        opts = Adt('Opts', None, tuple(fields))
        e.stubs['Opts::new'] = lambda en, a, fr, c, o=opts: o
        by_contents = {id(v['contents']): v for v in w.files.values() if v['contents'] is not None}

        def per_file(en, a, fr, callee):
            rec = by_contents.get(id(en.load(a[0])))
            if rec is None:
                raise Unsupported('per-file analysis on a text that is not a file of the tree')
            pat = en.force(a[2]).variant
            en.extra.setdefault('analysed', []).append((rec['path'], pat))
            return SetV((Int(z3.BitVec('line_%s_%s' % (rec['tag'], pat), 32), 'i32'),), 'btree')
        for cat in dl.CATS:
            e.stubs[dl.CATS[cat]['per_file']] = per_file
        label = 'optimizations=%r vulnerabilities=%r qa=%r' % (chosen['opt'], chosen['vul'], chosen['qa'])
        try:
            paths = e.explore(lambda en: en.call_mir(f, []), max_paths=2000)
        except Unsupported as u:
            chk.undecide('main(): %s' % u); continue
        eligible = sorted(k for k, v in w.files.items() if v['name'].v.endswith('.sol'))
        want = sorted((p_, v) for p_ in eligible for cat in chosen for v in chosen[cat])
        for r in paths:
            if r.outcome == 'unsupported':
                chk.undecide('main() [%s]: %s' % (label, r.value)); continue
            got = sorted(r.extra.get('analysed', [])) if r.outcome == 'return' else None
            writes = r.extra.get('writes', [])
            problems = []
            if r.outcome != 'return':
                problems.append('main() ends with %s: %s' % (r.outcome, getattr(r.value, 'msg', r.value)))
            else:
                if got != want:
                    problems.append('analysed (file, pattern) pairs %r, configured %r' % (got, want))
                if want and len(writes) != 1:          # (with nothing selected, whether an empty report is written is not the property's subject)
                    problems.append('%d report files written' % len(writes))
            if not problems:
                chk.ok(); continue
            confirm_selection(chk, chosen, names, label, problems)
    chk.sample({'main() selection': '%d combinations of pattern lists per category (none / one / two / three)' % len(combos)})


def confirm_selection(chk, chosen, names, label, problems):
    """the compiled binary with that configuration: a report must exist and list a finding for every listed pattern and for no other"""
    d = os.path.join(chk.native.dir, 'sel%d' % chk.native.n)
    chk.native.n += 1
    os.makedirs(os.path.join(d, 'proj'))
    SNIP = {'SolidityMath': ('function m(uint256 a) public { a + 1; }', 'solidity_math'), 'Sstore': ('uint256 st; function w() public { st = 1; }', 'sstore'),
            'CacheArrayLength': ('function c(uint256[] memory q) public { for (uint256 i; i < q.length; ) { } }', 'cache_array_length'),
            'FloatingPragma': ('', 'floating_pragma'), 'DivideBeforeMultiply': ('function d(uint256 a) public { a / 2 * 3; }', 'divide_before_multiply'),
            'ConstructorOrder': ('function e() public {} constructor() {}', 'constructor_order'), 'PrivateVarsLeadingUnderscore': ('uint256 private pv;', 'private_vars_leading_underscore')}
    # one line per snippet so that every pattern has its own line
    order = list(SNIP)
    text = 'pragma solidity ^0.8.16;\ncontract Sel {\n' + ''.join('    %s\n' % SNIP[k][0] for k in order) + '}\n'
    open(os.path.join(d, 'proj', 'Sel.sol'), 'w').write(text)
    cfg = 'path = "proj"\n' + ''.join('%s = [%s]\n' % (CATS[c][4], ', '.join('"%s"' % names[c][v] for v in chosen[c])) for c in ('opt', 'vul', 'qa'))
    open(os.path.join(d, 'cfg.toml'), 'w').write(cfg)
    p = subprocess.run([os.path.join(chk.world.build, 'solstat'), '--toml', 'cfg.toml'], cwd=d, stdout=subprocess.PIPE, stderr=subprocess.PIPE, text=True)
    chk.validated += 1
    rp = os.path.join(d, 'solstat_report.md')
    rep = open(rp).read() if os.path.exists(rp) else None
    bad = []
    if p.returncode != 0:
        bad.append('exit status %d' % p.returncode)
    if rep is None:
        if any(chosen.values()):
            bad.append('no report written')
    else:
        line_of = {k: 3 + i for i, k in enumerate(order)}
        line_of['FloatingPragma'] = 1
        listed = {int(m.group(1)) for m in re.finditer(r'^- Sel\.sol:(\d+)$', rep, re.M)}
        for c in chosen:
            for v in chosen[c]:
                if line_of[v] not in listed:
                    bad.append('%s is configured but its finding on line %d is not in the report' % (names[c][v], line_of[v]))
    if not bad:
        chk.broken('main() %s: engine says %s; the compiled binary analyses what is configured' % (label, '; '.join(problems)))
    chk.violation('main:selection', 'solstat --toml with %s: %s' % (label, '; '.join(bad)), {'job': 'solstat', 'config': cfg, 'source': text, 'observed': (rep or '')[:300]})


def native_path_choice(chk):
    """the compiled binary for every combination of --path (absent / a directory / a missing directory / a regular file), a configured path
    (absent / a directory / missing) and ./contracts (present / absent): only files of THE directory the property names may be listed -- the
    --path argument if given, else the configured path, else ./contracts -- also when that directory cannot be read"""
    text = 'pragma solidity 0.8.16;\ncontract Sel {\n    uint256 st; function w() public { st = 1; }\n}\n'
    n = 0
    for arg, cfgp, contracts, tomldir in itertools.product(('none', 'dir', 'missing', 'file'), ('none', 'dir', 'missing'), (True, False), ('', 'cfg')):
        if tomldir and cfgp == 'none':
            continue
        d = os.path.join(chk.native.dir, 'pc%d' % chk.native.n)
        chk.native.n += 1
        os.makedirs(d)
        for sub, fname in (('.argdir', 'FromArg.sol'), ('.cfg.d', 'FromConfig.sol')) + ((('contracts', 'FromDefault.sol'),) if contracts else ()):
            os.makedirs(os.path.join(d, sub))
            open(os.path.join(d, sub, fname), 'w').write(text)
        open(os.path.join(d, 'afile'), 'w').write(text)
        if tomldir:
            # the configuration file lives in another directory, next to directories of the same names: relative paths are relative to the
            # working directory, not to the configuration file
            for sub in ('.argdir', '.cfg.d', 'contracts'):
                os.makedirs(os.path.join(d, tomldir, sub))
                open(os.path.join(d, tomldir, sub, 'FromNextToConfig.sol'), 'w').write(text)
        cmd = [os.path.join(chk.world.build, 'solstat')]
        if arg != 'none':
            cmd += ['--path', {'dir': '.argdir', 'missing': 'no-such-dir', 'file': 'afile'}[arg]]
        if cfgp != 'none':
            open(os.path.join(d, tomldir, 'cfg.toml'), 'w').write('path = "%s"\noptimizations = ["sstore"]\nvulnerabilities = []\nqa = []\n' % {'dir': '.cfg.d', 'missing': 'no-such-cfg-dir'}[cfgp])
            cmd += ['--toml', os.path.join(tomldir, 'cfg.toml')]
        p = subprocess.run(cmd, cwd=d, stdout=subprocess.PIPE, stderr=subprocess.PIPE, text=True)
        chk.validated += 1
        n += 1
        rp = os.path.join(d, 'solstat_report.md')
        rep = open(rp).read() if os.path.exists(rp) else ''
        listed = set(re.findall(r'^- (From\w+\.sol):\d+$', rep, re.M))
        named = 'arg' if arg != 'none' else ('cfg' if cfgp != 'none' else 'default')
        readable = {'arg': arg == 'dir', 'cfg': cfgp == 'dir', 'default': contracts}[named]
        want = {{'arg': 'FromArg.sol', 'cfg': 'FromConfig.sol', 'default': 'FromDefault.sol'}[named]} if readable else set()
        bad = []
        if listed - want:
            bad.append('the report lists %s although the directory to analyse is %s%s' % (sorted(listed - want), {'arg': 'the --path argument', 'cfg': 'the configured path', 'default': './contracts'}[named],
                                                                                     '' if readable else ' (which cannot be read)'))
        if readable and (p.returncode != 0 or want - listed):
            bad.append('exit status %d, findings of %s missing' % (p.returncode, sorted(want - listed)))
        if bad:
            chk.violation('main:analysed-directory', 'solstat with --path %s, configured path %s%s, ./contracts %s: %s' % (arg, cfgp, ' (configuration file in another directory)' if tomldir else '', 'present' if contracts else 'absent', '; '.join(bad)),
                          {'job': 'solstat_dirs', 'arg': arg, 'cfg': cfgp, 'contracts': contracts, 'tomldir': tomldir, 'observed': rep[:300], 'exit': p.returncode})
        else:
            chk.ok()
    chk.sample({'analysed directory': '%d runs of the compiled binary: --path x configured path x ./contracts, readable or not' % n})


def native_cross_category_names(chk):
    """a name is known PER CATEGORY: the name of a pattern of another category is an unknown name, also when the same name (in any letter
    case) is validly listed in its own category; the compiled binary must fail before any report is written"""
    text = 'pragma solidity ^0.8.16;\ncontract Sel {\n    uint256 st; function w() public { st = 1; }\n}\n'
    cases = [('a name of an optimization under vulnerabilities, also listed under optimizations', 'optimizations = ["sstore"]\nvulnerabilities = ["floating_pragma", "SStore"]\nqa = []\n', False),
             ('a name of a vulnerability under qa, also listed under vulnerabilities', 'optimizations = []\nvulnerabilities = ["floating_pragma"]\nqa = ["Floating_Pragma"]\n', False),
             ('a name of an optimization under qa, also listed under optimizations', 'optimizations = ["sstore", "solidity_math"]\nvulnerabilities = []\nqa = ["solidity_math"]\n', False),
             ('a qa name under optimizations only', 'optimizations = ["constructor_order"]\nvulnerabilities = []\nqa = []\n', False),
             ('the same valid name twice in its own list', 'optimizations = ["sstore", "SSTORE"]\nvulnerabilities = ["floating_pragma"]\nqa = []\n', True)]
    for what, cfg, valid in cases:
        d = os.path.join(chk.native.dir, 'cc%d' % chk.native.n)
        chk.native.n += 1
        os.makedirs(os.path.join(d, 'proj'))
        open(os.path.join(d, 'proj', 'Sel.sol'), 'w').write(text)
        open(os.path.join(d, 'cfg.toml'), 'w').write('path = "proj"\n' + cfg)
        p = subprocess.run([os.path.join(chk.world.build, 'solstat'), '--toml', 'cfg.toml'], cwd=d, stdout=subprocess.PIPE, stderr=subprocess.PIPE, text=True)
        chk.validated += 1
        rep = os.path.exists(os.path.join(d, 'solstat_report.md'))
        if valid and (p.returncode != 0 or not rep):
            chk.violation('main:known-name-rejected', 'solstat --toml with %s: exit status %d, report %s' % (what, p.returncode, 'written' if rep else 'not written'),
                          {'job': 'solstat', 'config': 'path = "proj"\n' + cfg, 'source': text, 'observed': ''})
        elif not valid and (p.returncode == 0 or rep):
            chk.violation('main:unknown-name-accepted', 'solstat --toml with %s: exit status %d, report %s (an unknown name must fail the run before any report is written)' % (
                what, p.returncode, 'written' if rep else 'not written'), {'job': 'solstat', 'config': 'path = "proj"\n' + cfg, 'source': text, 'observed': open(os.path.join(d, 'solstat_report.md')).read()[:300] if rep else ''})
        else:
            chk.ok()


def body(chk):
    chk.bounds = {'names': 'every name of the docs tables / README / Solstat.toml with a SYMBOLIC casing mask (all 2^len casings at once); unknown names: symbolic strings over [a-z0-9_ -], length <= 40',
                  'Opts::new': '--path / --toml / ./contracts present or not (8 combinations), per category the pattern list: empty, one of 3 known names, an unknown name, two names; path strings symbolic',
                  'main()': 'executed from the binary\'s MIR for 4 pattern lists per category (none / one / two / three patterns; quick: 38 of the 64 combinations) on a tree of two eligible files: analysed pairs = configured pairs, one report',
                  'outside': 'clap\'s and toml\'s own parsing (stubbed by arbitrary values of their result types)'}
    chk.assumptions = ['to_lowercase contract: ASCII letters fold to their lower-case form (validated natively on sampled casings)', 'Z3 string equality for the match on names',
                       'docs tables parsed at run time from /repo']
    tables = {}
    for cat in CATS:
        tables[cat] = check_names(chk, cat)
    check_opts(chk, tables)
    check_main_order(chk)
    check_main_selection(chk)
    native_path_choice(chk)
    native_cross_category_names(chk)


if __name__ == '__main__':
    main('C14', body)
