"""C07 — vulnerability detectors report every canonical instance and no non-instance (DESIGN.md 6/C07, section 8)."""
import itertools

import z3

from .. import families as fam, oracle, sol
from ..checklib import main
from ..engine import Str


def sender(b):
    return b.member(b.var('msg'), 'sender')


KILLS = {
    'selfdestruct(msg.sender)': lambda b: b.call(b.var('selfdestruct'), [sender(b)]),
    'selfdestruct(payable(msg.sender))': lambda b: b.call(b.var('selfdestruct'), [b.call(b.ty('Payable'), [sender(b)])]),
    'selfdestruct(address(msg.sender))': lambda b: b.call(b.var('selfdestruct'), [b.call(b.ty('Address'), [sender(b)])]),
    'suicide(owner)': lambda b: b.call(b.var('suicide'), [b.var('owner')]),
    'selfdestruct(payable(owner))': lambda b: b.call(b.var('selfdestruct'), [b.call(b.ty('Payable'), [b.var('owner')])]),
    'destroy(owner)': lambda b: b.call(b.var('destroy'), [b.var('owner')]),
    # the sender as the operand of conversions that are not address types
    'selfdestruct(payable(address(uint160(msg.sender))))': lambda b: b.call(b.var('selfdestruct'), [b.call(b.ty('Payable'), [b.call(b.ty('Address'), [b.call(b.ty('Uint', 160), [sender(b)])])])]),
    'selfdestruct(address(bytes20(msg.sender)))': lambda b: b.call(b.var('selfdestruct'), [b.call(b.ty('Address'), [b.call(b.ty('Bytes', 20), [sender(b)])])]),
    # the deprecated spelling with the sender in its own arguments (the two sites that recognise the call must agree on both names)
    'suicide(msg.sender)': lambda b: b.call(b.var('suicide'), [sender(b)]),
    'suicide(payable(msg.sender))': lambda b: b.call(b.var('suicide'), [b.call(b.ty('Payable'), [sender(b)])]),
    'suicide(address(uint160(msg.sender)))': lambda b: b.call(b.var('suicide'), [b.call(b.ty('Address'), [b.call(b.ty('Uint', 160), [sender(b)])])]),
    'x.selfdestruct(owner)': lambda b: b.call(b.member(b.var('x'), 'selfdestruct'), [b.var('owner')]),
}
GUARDS = {
    'none': None,
    'require(msg.sender == owner)': lambda b: b.call(b.var('require'), [b.bin('Equal', sender(b), b.var('owner'))]),
    'require(msg.sender != owner, "m")': lambda b: b.call(b.var('require'), [b.bin('NotEqual', sender(b), b.var('owner')), b.string('m')]),
    'check(msg.sender)': lambda b: b.call(b.var('check'), [sender(b)]),
    'require(owner == msg.sender)': lambda b: b.call(b.var('require'), [b.bin('Equal', b.var('owner'), sender(b))]),
    'log(x)': lambda b: b.call(b.var('log'), [b.var('x')]),
    'address(msg.sender)': lambda b: b.call(b.ty('Address'), [sender(b)]),
    'uint160(msg.sender)': lambda b: b.call(b.ty('Uint', 160), [sender(b)]),
    'x = uint256(uint160(msg.sender))': lambda b: b.bin('Assign', b.var('x'), b.call(b.ty('Uint', 256), [b.call(b.ty('Uint', 160), [sender(b)])])),
    'emit-like note(payable(msg.sender))': lambda b: b.call(b.var('note'), [b.call(b.ty('Payable'), [sender(b)])]),
    'last = msg.sender': lambda b: b.bin('Assign', b.var('last'), sender(b)),
}
KINDS = ['Function', 'Constructor', 'Fallback', 'Receive', 'Modifier']
VIS = [None, 'public', 'external', 'internal', 'private']
MODS = [None, 'onlyOwner', 'only', 'whenNotPaused', 'nonlyReentrant', 'onlyOwner()', 'onlyRole(ADMIN)', 'whenNotPaused()',
        # a modifier invocation is a PATH (`Base.modifier`), and a function may carry several of them: any component of any of them counts
        'Ownable.onlyOwner', 'Ownable.onlyOwner()', 'onlyLib.guard', 'Base.guard', 'A.B.onlyC(ADMIN)', 'nonReentrant+onlyOwner', 'onlyOwner+nonReentrant', 'nonReentrant+Base.guard']
SHAPES = ['guard_then_kill', 'kill_then_guard', 'kill_in_if', 'guard_in_if_kill_after',
          # a second, unrelated call in front of / behind the guard: a comparison that does not mention the sender, a call without arguments
          'unrelated_comparison_then_guard_then_kill', 'guard_then_unrelated_comparison_then_kill', 'call_without_arguments_then_guard_then_kill']


def selfdestruct_file(b, kind, vis, mod, kill, guard, shape, where='contract'):
    k = b.expr_stmt(KILLS[kill](b))
    g = b.expr_stmt(GUARDS[guard](b)) if GUARDS[guard] else None
    if shape == 'guard_then_kill':
        stmts = ([g] if g else []) + [k]
    elif shape == 'kill_then_guard':
        stmts = [k] + ([g] if g else [])
    elif shape == 'kill_in_if':
        stmts = ([g] if g else []) + [b.if_(b.var('c'), b.block([k]))]
    elif shape == 'unrelated_comparison_then_guard_then_kill':
        stmts = [b.expr_stmt(b.call(b.var('require'), [b.bin('NotEqual', b.var('id'), b.num(0))]))] + ([g] if g else []) + [k]
    elif shape == 'guard_then_unrelated_comparison_then_kill':
        stmts = ([g] if g else []) + [b.expr_stmt(b.call(b.var('require'), [b.bin('Equal', b.var('id'), b.var('x')), b.string('m')]))] + [k]
    elif shape == 'call_without_arguments_then_guard_then_kill':
        stmts = [b.expr_stmt(b.call(b.var('beforeShutdown'), []))] + ([g] if g else []) + [k]
    else:
        stmts = ([b.if_(b.var('c'), b.block([g]))] if g else []) + [k]
    attrs = []
    if vis:
        attrs.append(b.fattr('visibility', vis))
    for mod in (mod.split('+') if mod else []):
        # `name`, `name()` and `name(arg)` are three spellings of a modifier invocation; the name may be qualified
        from ..engine import Adt, VecV
        if mod.endswith('()'):
            nm, args = mod[:-2], []
        elif mod.endswith(')'):
            nm, args = mod[:mod.index('(')], [b.var(mod[mod.index('(') + 1:-1])]
        else:
            nm, args = mod, None
        base = Adt('Base', None, (b.loc(), b.path(*nm.split('.')), sol.NONE if args is None else sol.some(VecV(args))))
        attrs.append(Adt('FunctionAttribute', 'BaseOrModifier', (b.loc(), base)))
    name = 'kill' if kind in ('Function', 'Modifier') else None
    fd = b.function(kind, name, [], attrs, b.block(stmts))
    other = fam.fn_def(b, [b.expr_stmt(b.call(b.var('require'), [b.bin('Equal', sender(b), b.var('owner'))]))], name='other')
    if where == 'contract':
        parts = [fam.contract_with(b, [other, fd])]
    elif where in ('after_protected_kill', 'before_protected_kill', 'between_protected_kills', 'after_sender_checked_kill'):
        # several functions with a selfdestruct in ONE contract: the verdict on each call is the verdict it has alone, whatever stands
        # before or behind it (a protected one first, last, on both sides)
        def prot(name, by_sender=False):
            body = [b.expr_stmt(b.call(b.var('selfdestruct'), [b.call(b.ty('Payable'), [b.var('owner')])]))]
            if by_sender:
                body.insert(0, b.expr_stmt(b.call(b.var('require'), [b.bin('Equal', sender(b), b.var('owner'))])))
            attrs = [b.fattr('visibility', 'external')] + ([] if by_sender else [b.fattr('modifier', 'onlyOwner', None)])
            return b.function('Function', name, [], attrs, b.block(body))
        members = {'after_protected_kill': lambda: [prot('closeA'), fd], 'before_protected_kill': lambda: [fd, prot('closeA')],
                   'between_protected_kills': lambda: [prot('closeA'), fd, prot('closeB')],
                   'after_sender_checked_kill': lambda: [prot('closeA', True), other, fd]}[where]()
        parts = [fam.contract_with(b, members)]
    elif where == 'library':
        parts = [fam.contract_with(b, [fd], kind='Library', name='L')]
    else:
        parts = [b.supart(fd), fam.contract_with(b, [other])]
    return b.source_unit([b.pragma('solidity', '0.8.16')] + parts)


def job(chk, item):
    kind = item[0]
    e = chk.engine()
    results = []
    if kind == 'expr':
        _, detector, positions = item
        for pos in positions:
            fkey = detector
            det = detector.split(':')[0]
            n = len(fam.forms_for(fkey, sol.TreeBuilder()))
            for i in range(n):
                b = sol.TreeBuilder()
                label, expr = fam.forms_for(fkey, b)[i]
                su = fam.build_file(b, pos, expr)
                results.append(fam.run_case(chk, e, det, su, '%s @ %s' % (label, pos), {v.decl().name() for v in b.loc_vars}))
            if pos in ('statement', 'catch_body', 'call_argument') and fkey == det:
                for k in range(len(fam.symbolic_name_forms(det, sol.TreeBuilder()))):
                    b = sol.TreeBuilder()
                    label, expr, cons = fam.symbolic_name_forms(det, b)[k]
                    su = fam.build_file(b, pos, expr)
                    results.append(fam.run_case(chk, e, det, su, '%s @ %s' % (label, pos), {v.decl().name() for v in b.loc_vars}, base=cons))
    elif kind == 'selfdestruct':
        for (fk, vis, mod, kill, guard, shape, where) in item[1]:
            b = sol.TreeBuilder()
            su = selfdestruct_file(b, fk, vis, mod, kill, guard, shape, where)
            label = '%s %s %s { %s ; %s } %s/%s' % (fk, vis, mod, guard, kill, shape, where)
            results.append(fam.run_case(chk, e, 'unprotected_selfdestruct', su, label, {v.decl().name() for v in b.loc_vars}))
    elif kind == 'pragma':
        for (ident, value, place) in item[1]:
            b = sol.TreeBuilder()
            val = value
            if value == '<symbolic>':
                sv = z3.String('pragma_value')
                val = Str(sv)
            pr = b.pragma(ident, val)
            c = fam.contract_with(b, [fam.fn_def(b, [])])
            other = b.pragma('abicoder', 'v2')
            parts = {'first': [pr, c], 'after_contract': [c, pr], 'second': [other, pr, c], 'twice': [pr, c, b.pragma(ident, val)]}[place]
            su = b.source_unit(parts)
            base = []
            if value == '<symbolic>':
                alpha = z3.Union(z3.Range('0', '9'), z3.Re('.'), z3.Re('^'), z3.Re('<'), z3.Re('>'), z3.Re('='), z3.Re('~'), z3.Re(' '), z3.Re('|'))
                base = [z3.InRe(sv, z3.Plus(alpha)), z3.Length(sv) <= 8, z3.Not(z3.PrefixOf(z3.StringVal(' '), sv)), z3.Not(z3.SuffixOf(z3.StringVal(' '), sv))]
            e.base_constraints_extra = base
            results.append(run_with_base(chk, e, 'floating_pragma', su, 'pragma %s %s @ %s' % (ident, value, place), b, base))
    fam.flush_validation(chk, results)
    chk.extra_lists.setdefault('per_job', []).append({'kind': kind, 'cases': len(results), 'paths': sum(r.paths for r in results),
                                                      'paths_with_reports': sum(r.flagged for r in results),
                                                      'paths_without': sum(r.silent for r in results)})
    if results and results[0].jobs:
        chk.sample({'kind': kind, 'case': results[0].jobs[0][1], 'file': results[0].jobs[0][2], 'predicted_starts': results[0].jobs[0][3]})


def run_with_base(chk, e, detector, su, label, b, base):
    """run_case with additional constraints on symbolic leaves (added to every path condition)"""
    old = e.explore

    def explore(run, **kw):
        kw['base_constraints'] = base
        paths = old(run, **kw)
        for p in paths:
            p.pc = list(base) + p.pc
        return paths
    e.explore = explore
    try:
        return fam.run_case(chk, e, detector, su, label, {v.decl().name() for v in b.loc_vars})
    finally:
        e.explore = old


def body(chk):
    allpos = list(fam.POSITIONS)
    positions = (fam.QUICK_POSITIONS + [allpos[(chk.seed * 5 + k) % len(allpos)] for k in range(2)]) if chk.quick else allpos
    positions = list(dict.fromkeys(positions))
    items = []
    for d in ('unsafe_erc20_operation', 'divide_before_multiply'):
        for k in range(0, len(positions), 4):
            items.append(('expr', d, positions[k:k + 4]))
    for pos in (['statement', 'catch_body'] if chk.quick else ['statement', 'catch_body', 'return', 'call_argument', 'modifier_argument']):
        items.append(('expr', 'divide_before_multiply:spines', [pos]))
    combos = []
    for fk, vis, mod in itertools.product(KINDS, VIS, MODS):
        for kill, guard in itertools.product(KILLS, GUARDS):
            combos.append((fk, vis, mod, kill, guard, 'guard_then_kill', 'contract'))
    for kill, guard, shape in itertools.product(KILLS, GUARDS, SHAPES[1:]):
        for vis in ('public', 'internal', None):
            combos.append(('Function', vis, None, kill, guard, shape, 'contract'))
    several = []
    for where in ('after_protected_kill', 'before_protected_kill', 'between_protected_kills', 'after_sender_checked_kill'):
        for kill, guard, vis, mod in itertools.product(list(KILLS)[:4], ('none', 'require(msg.sender == owner)', 'log(x)'), ('public', 'external', 'internal'), (None, 'onlyOwner', 'whenNotPaused')):
            several.append(('Function', vis, mod, kill, guard, 'guard_then_kill', where))
    combos += several
    for kill, guard in itertools.product(list(KILLS)[:3], list(GUARDS)[:3]):
        combos.append(('Function', 'public', None, kill, guard, 'guard_then_kill', 'library'))
        combos.append(('Function', None, None, kill, guard, 'guard_then_kill', 'free'))
    if chk.quick:
        chk.rng.shuffle(combos)
        keep = [c for c in combos if c[0] == 'Function' and c[1] in ('public', 'external') and c[2] in (None, 'onlyOwner', 'onlyOwner()', 'onlyRole(ADMIN)')]
        keep = [c for c in combos if c[0] == 'Function' and c[1] in ('public', 'external') and c[2] and ('.' in c[2] or '+' in c[2]) and c[4] == 'none'][:60] + keep
        two = [c for c in combos if c[5] in SHAPES[4:] and c[1] == 'public']
        sev = [c for c in several if c[1] != 'internal' and c[2] != 'onlyOwner']
        chk.rng.shuffle(sev)
        # fixed core, independent of the seed: every kill with every guard in a public function without modifiers
        core = [('Function', 'public', None, kill, guard, 'guard_then_kill', 'contract') for kill, guard in itertools.product(KILLS, GUARDS)]
        combos = core + keep[:250] + combos[:400] + two[:90] + sev[:60]
    for k in range(0, len(combos), 80):
        items.append(('selfdestruct', combos[k:k + 80]))
    pragmas = [(i, v, p) for i in ('solidity', 'experimental', 'abicoder')
               for v in ('^0.8.16', '0.8.16', '>=0.8.0', '~0.8.0', '^0.8.0 ^0.9.0', '>=0.8.0 <0.9.0', '>=0.8.0 ^0.8.4', '0.7.6 || ^0.8.0',
                        '>0.8.0 <0.9.0 ^0.8.10', '=0.8.4', '<symbolic>')
               for p in ('first', 'after_contract', 'second', 'twice')]
    items.append(('pragma', pragmas))
    chk.bounds = {'positions (erc20, divide_before_multiply)': '%d of %d' % (len(positions), len(allpos)),
                  'selfdestruct family': '%d function shapes: kind x visibility x modifier x kill call x guard statement x placement' % len(combos),
                  'pragma family': '%d files; one value fully symbolic (Z3 string over [0-9.^<>=~ |], length <= 8, no blank at either end)' % len(pragmas),
                  'outside': 'several guard statements per function; msg.sender checks other than the documented shapes (left free by the oracle)'}
    chk.assumptions = ['as C05; str::contains contract = Z3 str.contains']
    chk.parallel(job, items)
    for kind in ('expr', 'selfdestruct', 'pragma'):
        rep = sum(j['paths_with_reports'] for j in chk.extra_lists.get('per_job', []) if j['kind'] == kind)
        sil = sum(j['paths_without'] for j in chk.extra_lists.get('per_job', []) if j['kind'] == kind)
        if not chk.undecided and not chk.violations and (rep == 0 or sil == 0):
            chk.broken('%s: vacuous family (paths with a report: %d, without: %d)' % (kind, rep, sil))


if __name__ == '__main__':
    main('C07', body)
