"""C18 — a run only reads its inputs and writes one report file (REDUCED CLAIM, see DESIGN.md 7 and 10.6).

What a solver-based check of solstat's own code can decide: the EFFECT LOG of `main()` executed from the binary's MIR over a symbolic file
system — which paths are listed, which files are read, which writes happen — for every directory tree of the family, every listing order,
with and without a stale `solstat_report.md` (in the working directory and inside the analysed directory). What the written file then looks
like on disk (created or truncated, not appended) is the documented contract of `std::fs::write`; that part, and "the tree is byte-for-byte
unchanged", is confirmed by running the real binary in scratch directories."""
import hashlib
import itertools
import os
import re
import shutil
import subprocess

import z3

from .. import dirlib as dl, reportlib as rl
from ..checklib import main
from ..engine import Adt, Choice, Int, SetV, Str, Tuple, VecV, Unsupported
from ..lib import World, ok, NONE, some

MUTATING = re.compile(r'\b(remove_file|remove_dir|remove_dir_all|create_dir|create_dir_all|rename|copy|hard_link|symlink|set_permissions|'
                      r'File::create|OpenOptions|File::options|set_len|process::Command|set_current_dir|env::set_var|create_new|truncate)\b')


TREES = {
    'base': [('file', 'A.sol', 'a'), ('dir', 'sub', [('file', 'B.sol', 'b')]), ('file', 'notes.txt', 'n')],
    'tests and empties': [('file', 'A.sol', 'a'), ('file', 'A.t.sol', 'at'), ('dir', 'empty', []), ('dir', 'sub', [('dir', 'deep', [('file', 'B.sol', 'b')]), ('file', 'x.T.SOL', 'xt')])],
    'report-like names': [('file', 'A.sol', 'a'), ('dir', 'sub', [('file', 'solstat_report.md', 'stale2'), ('file', 'B.sol', 'b')]), ('file', 'solstat_report.md.sol', 'rs')],
    'small': [('file', 'A.sol', 'a'), ('file', 'B.sol', 'b')],
}


def effect_log(chk, stale_cwd, stale_in_dir, same_dir, has_findings, tree_name='base', symbolic_listing=False):
    e = chk.engine('bin')
    f = e.func('main')
    w = World()
    root = '.' if same_dir else 'target'
    entries = list(TREES[tree_name])
    if stale_in_dir or (same_dir and stale_cwd):
        entries.append(('file', 'solstat_report.md', 'stale'))
    tree = dl.Tree(entries)
    # re-key the tree under the analysed directory's path
    w.dirs, w.files = {}, {}
    for k, v in tree.world.dirs.items():
        w.dirs[k.replace('root', root, 1)] = [dict(x, path=x['path'].replace('root', root, 1)) for x in v]
    for k, v in tree.world.files.items():
        w.files[k.replace('root', root, 1)] = dict(v, path=k.replace('root', root, 1))
    if stale_cwd and not same_dir:
        w.files['solstat_report.md'] = {'name': Str('solstat_report.md'), 'kind': 'file', 'path': 'solstat_report.md', 'contents': Str(z3.String('stale_report'))}
    if same_dir:
        # the working directory IS the analysed directory: `solstat_report.md` is the entry of that name in its listing
        for k_, v_ in w.files.items():
            if k_.count('/') == 1 and v_['name'].concrete and v_['name'].v == 'solstat_report.md':
                w.aliases['solstat_report.md'] = k_
    e.flags['world'] = w
    e.flags['symbolic_listing'] = symbolic_listing   # listing orders are C03's subject; they multiply over the three passes (small trees only)
    args = Adt('Args', None, (some(Str(root)), NONE))
    e.stubs['<opts::Args as Parser>::parse'] = lambda en, a, fr, c: args
    by_contents = {id(v['contents']): v for v in w.files.values() if v['contents'] is not None}

    def per_file(cat):
        def stub(en, a, fr, callee):
            rec = by_contents.get(id(en.load(a[0])))
            if rec is None:
                raise Unsupported('per-file analysis on a text that is not a file of the tree')
            pat = en.force(a[2]).variant
            en.extra.setdefault('analysed', []).append((rec['path'], pat))
            if has_findings and rec.get('tag') in ('a', 'b', 'rs') and pat in ('SolidityMath', 'FloatingPragma', 'ConstructorOrder'):
                return SetV((Int(z3.BitVec('line_%s_%s' % (rec['tag'], pat), 32), 'i32'),), 'btree')
            return SetV((), 'btree')
        return stub
    for cat in dl.CATS:
        e.stubs[dl.CATS[cat]['per_file']] = per_file(cat)
    paths = e.explore(lambda en: en.call_mir(f, []), max_paths=20000)
    return paths, w, root


def real_rel(w, key, root):
    """path of a world key relative to the working directory, as the program spells it"""
    parts = key.split('/')
    k, out = root, [root]
    for comp in parts[1:] if root != '.' else parts[1:]:
        ent = [x for x in w.dirs[k] if x['path'] == k + '/' + comp][0]
        out.append(ent['name'].v)
        k = k + '/' + comp
    return os.path.normpath('/'.join(out))


def configurations(chk):
    for stale_cwd, stale_in_dir, same_dir, has_findings in itertools.product((False, True), (False, True), (False, True), (True, False)):
        yield stale_cwd, stale_in_dir, same_dir, has_findings, 'base', False
    if chk.quick:
        return
    for tree_name in ('tests and empties', 'report-like names'):
        for stale_cwd, stale_in_dir, same_dir in itertools.product((False, True), (False, True), (False, True)):
            yield stale_cwd, stale_in_dir, same_dir, True, tree_name, False
    for stale_cwd, same_dir in itertools.product((False, True), (False, True)):
        yield stale_cwd, False, same_dir, True, 'small', True          # every listing order of every pass: 2^3 paths


def symbolic_part(chk):
    for stale_cwd, stale_in_dir, same_dir, has_findings, tree_name, sym_listing in configurations(chk):
        label = 'tree %r, stale report in cwd=%s, in the analysed directory=%s, cwd is the analysed directory=%s, findings=%s%s' % (
            tree_name, stale_cwd, stale_in_dir, same_dir, has_findings, ', every listing order' if sym_listing else '')
        try:
            paths, w, root = effect_log(chk, stale_cwd, stale_in_dir, same_dir, has_findings, tree_name, sym_listing)
        except Unsupported as u:
            chk.undecide('main(): %s' % u); continue
        texts = set()
        eligible = {k for k, v in w.files.items() if v['name'].v.endswith('.sol') and '.t.sol' not in v['name'].v.lower()}
        for r in paths:
            if r.outcome == 'unsupported':
                chk.undecide('main() [%s]: %s' % (label, r.value)); continue
            if r.outcome != 'return':
                chk.violation('main:%s' % r.outcome, 'main() %s with %s: %s' % (r.outcome, label, r.value), {}); continue
            writes = r.extra.get('writes', [])
            reads = r.extra.get('reads', [])
            problems = []
            if len(writes) != 1 or not (writes[0][0].concrete and writes[0][0].v == 'solstat_report.md'):
                problems.append('writes %r instead of exactly one write to solstat_report.md' % [x[0] for x in writes])
            if set(reads) != eligible or len(reads) != 3 * len(eligible):
                problems.append('reads %r, expected each of %r once per category' % (sorted(set(reads)), sorted(eligible)))
            if problems:
                # confirm on the compiled binary (same configuration, real file system, system-call log) before reporting
                nat = native_configuration(chk, stale_cwd, stale_in_dir, same_dir, has_findings, tree_name)
                if nat is None:
                    chk.undecide('main() with %s: %s (not replayed: strace is not usable here)' % (label, '; '.join(problems)))
                elif not nat:
                    chk.broken('main() with %s: the engine finds "%s", the compiled binary opens, reads and writes exactly what it should' % (label, '; '.join(problems)))
                else:
                    chk.violation('main:effects', 'solstat with %s: %s (symbolically: %s)' % (label, '; '.join(nat), '; '.join(problems)),
                                  {'job': 'solstat', 'configuration': label, 'reads': reads})
            else:
                chk.ok()
            if writes:
                texts.add(rl.flat(writes[0][1]))
        if len(texts) > 1:
            chk.violation('main:listing-order-influences-result', 'the report text depends on the order in which the directories are listed (%s)' % label, {})
        chk.extra_lists.setdefault('report_texts', []).append(((has_findings, tree_name), sorted(texts)))
        good = [r for r in paths if r.outcome == 'return']
        if good and not sym_listing:
            syscall_validation(chk, w, root, good[0], stale_cwd, stale_in_dir, same_dir, has_findings, tree_name, label)
        chk.sample({'main() effect log': label, 'paths': len(paths)}) if (stale_cwd and same_dir) or sym_listing else None
    # the stale report has no influence: with the same findings all configurations write the same text
    for hf in sorted({h for h, _ in chk.extra_lists.get('report_texts', [])}):
        alltexts = set()
        for h, ts in chk.extra_lists.get('report_texts', []):
            if h == hf:
                alltexts |= set(ts)
        if len(alltexts) > 1:
            chk.violation('main:stale-report-influences-result', 'the report text differs between runs that differ only in a stale solstat_report.md / the working directory', {})
        else:
            chk.ok()
    chk.extra_lists.pop('report_texts', None)


OPEN_RE = re.compile(r'^\d+\s+(openat|open|creat)\((?:AT_FDCWD, )?"((?:[^"\\\\]|\\\\.)*)", ([A-Z_|0-9a-z]+)(?:, [0-7]+)?\)\s+= (-?\d+)')
CALL_RE = re.compile(r'^\d+\s+([a-z_0-9]+)\((.*)$')
MUTATING_SYSCALLS = {'unlink', 'unlinkat', 'rename', 'renameat', 'renameat2', 'mkdir', 'mkdirat', 'rmdir', 'truncate', 'ftruncate', 'chmod', 'fchmod', 'fchmodat',
                     'chown', 'fchown', 'lchown', 'fchownat', 'link', 'linkat', 'symlink', 'symlinkat', 'utime', 'utimes', 'utimensat', 'futimesat', 'setxattr',
                     'lsetxattr', 'fsetxattr', 'removexattr', 'mknod', 'mknodat', 'fallocate', 'copy_file_range', 'sendfile', 'chdir', 'fchdir', 'execve',
                     'fork', 'vfork', 'clone', 'clone3', 'mount', 'creat'}
TRACE = ('trace=%file,%process,write,pwrite64,writev,pwritev,pwritev2,ftruncate,fchmod,fchown,fallocate,copy_file_range,sendfile,fchdir,'
         'fsetxattr,close')


def strace_run(binary, argv, cwd, log):
    """run the real binary under strace; -> (returncode, parsed events) or None if strace cannot be used here"""
    import shutil
    st = shutil.which('strace')
    if not st:
        return None
    p = subprocess.run([st, '-f', '-qq', '-s', '0', '-e', TRACE, '-o', log, binary] + argv, cwd=cwd, stdout=subprocess.PIPE, stderr=subprocess.PIPE, text=True)
    if not os.path.exists(log) or os.path.getsize(log) == 0:
        return None
    ev = {'dirs': [], 'reads': [], 'wopens': [], 'mutating': [], 'writes_fd': [], 'rc': p.returncode, 'stderr': p.stderr[-300:]}
    fds = {}
    started = False
    for line in open(log, errors='replace'):
        if not started:
            started = 'execve(' in line           # the exec of solstat itself is the first event
            continue
        m = OPEN_RE.match(line)
        if m:
            call, path, flags, ret = m.group(1), m.group(2), set(m.group(3).split('|')), int(m.group(4))
            if ret < 0:
                continue
            if flags & {'O_WRONLY', 'O_RDWR', 'O_CREAT', 'O_TRUNC', 'O_APPEND'} or call == 'creat':
                ev['wopens'].append((path, sorted(flags)))
                fds[ret] = path
            elif 'O_DIRECTORY' in flags:
                ev['dirs'].append(path)
            else:
                ev['reads'].append(path)
            continue
        m = CALL_RE.match(line)
        if not m:
            continue
        call, rest = m.group(1), m.group(2)
        if call in ('write', 'pwrite64', 'writev', 'pwritev', 'pwritev2'):
            fd = int(rest.split(',')[0])
            if fd not in (1, 2):
                ev['writes_fd'].append(fds.get(fd, 'fd %d' % fd))
        elif call == 'close':
            pass
        elif call in MUTATING_SYSCALLS:
            if re.search(r'= -1 E', line) and call not in ('execve',):
                continue
            ev['mutating'].append(line.strip()[:160])
    return ev


def in_tree(path, *roots):
    ap = os.path.normpath(path)
    return not ap.startswith(('/', '..')) or any(ap.startswith(r) for r in roots)


def native_configuration(chk, stale_cwd, stale_in_dir, same_dir, has_findings, tree_name):
    """the configuration on a real file system under strace -> list of problems ([] = behaves as the property demands), None = no strace"""
    base = os.path.join(chk.native.dir, 'cfg%d' % chk.native.n)
    chk.native.n += 1
    cwd = os.path.join(base, 'cwd')
    os.makedirs(cwd)
    troot = cwd if same_dir else os.path.join(cwd, 'target')
    os.makedirs(troot, exist_ok=True)
    counter = [0]

    def put(entries, d):
        for ent in entries:
            p = os.path.join(d, ent[1])
            if ent[0] == 'dir':
                os.makedirs(p, exist_ok=True); put(ent[2], p)
            else:
                counter[0] += 1
                pats = ['solidity_math', 'floating_pragma', 'constructor_order'] if has_findings and ent[2] in ('a', 'b', 'rs') else []
                text = dl.file_text(pats, counter[0]) if ent[1].lower().endswith('.sol') else 'stale or other text %d\n' % counter[0]
                if not has_findings and ent[1].lower().endswith('.sol'):
                    text = 'pragma solidity 0.8.16;\n'              # a file on which no detector reports anything
                open(p, 'w').write(text)
    entries = list(TREES[tree_name])
    if stale_in_dir or (same_dir and stale_cwd):
        entries.append(('file', 'solstat_report.md', 'stale'))
    put(entries, troot)
    stale_text = 'STALE ' * 5000
    if stale_cwd and not same_dir:
        open(os.path.join(cwd, 'solstat_report.md'), 'w').write(stale_text)
    before = tree_digest(cwd, skip=('solstat_report.md',))
    had_report = os.path.exists(os.path.join(cwd, 'solstat_report.md'))
    old_report = open(os.path.join(cwd, 'solstat_report.md')).read() if had_report else None
    ev = strace_run(os.path.join(chk.world.build, 'solstat'), ['--path', '.' if same_dir else 'target'], cwd, os.path.join(base, 'strace.log'))
    if ev is None:
        return None
    chk.validated += 1
    problems = []
    if ev['rc'] != 0:
        problems.append('exit status %d' % ev['rc'])
    wopens = [(p, fl) for p, fl in ev['wopens'] if not p.startswith(('/dev/', '/proc/'))]
    if [p for p, _ in wopens] != ['solstat_report.md']:
        problems.append('files opened for writing: %r (exactly solstat_report.md is required, also when nothing is found)' % ([p for p, _ in wopens],))
    elif 'O_TRUNC' not in wopens[0][1] or 'O_APPEND' in wopens[0][1]:
        problems.append('solstat_report.md is opened with %s' % '|'.join(wopens[0][1]))
    if set(ev['writes_fd']) - {'solstat_report.md'}:
        problems.append('data written to %r' % sorted(set(ev['writes_fd']) - {'solstat_report.md'}))
    if ev['mutating']:
        problems.append('mutating system calls: %r' % ev['mutating'][:4])
    if before != tree_digest(cwd, skip=('solstat_report.md',)):
        problems.append('files other than the report changed')
    rp = os.path.join(cwd, 'solstat_report.md')
    if had_report and os.path.exists(rp) and open(rp).read() == old_report and old_report:
        problems.append('the report of the previous run is still there, unchanged')
    return problems


def syscall_validation(chk, w, root, r, stale_cwd, stale_in_dir, same_dir, has_findings, tree_name, label):
    """translator validation of the fs contracts: the same configuration on a real file system, the real binary under strace;
    the system-call log must be the engine's effect log, and the one write-open must truncate"""
    base = os.path.join(chk.native.dir, 'sys%d' % chk.native.n)
    chk.native.n += 1
    cwd = os.path.join(base, 'cwd')
    os.makedirs(cwd)
    troot = cwd if same_dir else os.path.join(cwd, 'target')
    os.makedirs(troot, exist_ok=True)
    counter = [0]

    def put(entries, d):
        for ent in entries:
            p = os.path.join(d, ent[1])
            if ent[0] == 'dir':
                os.makedirs(p, exist_ok=True); put(ent[2], p)
            else:
                counter[0] += 1
                pats = ['solidity_math', 'floating_pragma', 'constructor_order'] if has_findings and ent[2] in ('a', 'b', 'rs') else []
                text = dl.file_text(pats, counter[0]) if ent[1].lower().endswith('.sol') else 'stale or other text %d\n' % counter[0]
                open(p, 'w').write(text)
    entries = list(TREES[tree_name])
    if stale_in_dir or (same_dir and stale_cwd):
        entries.append(('file', 'solstat_report.md', 'stale'))
    put(entries, troot)
    if stale_cwd and not same_dir:
        open(os.path.join(cwd, 'solstat_report.md'), 'w').write('STALE ' * 5000)
    before = tree_digest(cwd, skip=('solstat_report.md',))
    ev = strace_run(os.path.join(chk.world.build, 'solstat'), ['--path', '.' if same_dir else 'target'], cwd, os.path.join(base, 'strace.log'))
    if ev is None:
        chk.extra['strace'] = 'not usable in this environment: system-call comparison skipped'
        return
    chk.validated += 1
    after = tree_digest(cwd, skip=('solstat_report.md',))
    norm = lambda ps: sorted(os.path.normpath(p) for p in ps)
    want_reads = norm(real_rel(w, k, root) for k in r.extra.get('reads', []))
    want_dirs = norm(real_rel(w, k, root) for k in r.extra.get('listed', []))
    got_reads = norm(p for p in ev['reads'] if not os.path.isabs(p))
    got_dirs = norm(p for p in ev['dirs'] if not os.path.isabs(p))
    if ev['rc'] != 0:
        chk.broken('C18 %s: engine predicts a normal run, the real binary exits with %d: %s' % (label, ev['rc'], ev['stderr']))
    if want_reads != got_reads or want_dirs != got_dirs:
        # the engine lists directories in ONE order, the file system in another: where the code's reads depend on the listing order the two logs
        # differ without either being wrong. What the property needs from the real run is decided on the real log itself: every eligible file is
        # read once per category (a file that is not read cannot be in the result, so what else lies in the directory -- the older report --
        # would influence the result)
        elig = norm(real_rel(w, k, root) for k, v in w.files.items() if v['name'].v.endswith('.sol') and '.t.sol' not in v['name'].v.lower())
        if sorted(got_reads) != sorted(elig * 3):
            chk.violation('main:effects', 'solstat with %s: the compiled binary reads %r, expected each of %r once per category (the engine\'s run, with another listing order, reads %r)' % (
                label, got_reads, elig, want_reads), {'job': 'solstat', 'configuration': label, 'reads': got_reads})
            return
        chk.broken('C18 %s: the engine\'s effect log differs from the system calls of the real binary\nengine reads %r\nreal reads   %r\nengine lists %r\nreal lists   %r' % (
            label, want_reads, got_reads, want_dirs, got_dirs))
    problems = []
    wopens = [(p, fl) for p, fl in ev['wopens'] if not p.startswith(('/dev/', '/proc/'))]
    if [p for p, _ in wopens] != ['solstat_report.md']:
        problems.append('files opened for writing: %r' % (wopens,))
    elif 'O_TRUNC' not in wopens[0][1] or 'O_APPEND' in wopens[0][1]:
        problems.append('solstat_report.md is opened with %s: a previous report is not replaced' % '|'.join(wopens[0][1]))
    if set(ev['writes_fd']) - {'solstat_report.md'}:
        problems.append('data written to %r' % sorted(set(ev['writes_fd']) - {'solstat_report.md'}))
    if ev['mutating']:
        problems.append('mutating system calls: %r' % ev['mutating'][:4])
    if before != after:
        problems.append('files changed: %r' % sorted(set(before.items()) ^ set(after.items()))[:4])
    if problems:
        # the failing run is concrete and native: a violation in its own right, whatever the engine said
        chk.violation('run:syscalls', 'solstat run (%s): %s' % (label, '; '.join(problems)), {'job': 'solstat', 'strace': ev})
    chk.extra['strace'] = 'every symbolic configuration replayed under strace: opens, directory listings, write-opens (O_TRUNC, no O_APPEND), mutating system calls'


def scan(chk):
    """no function of the crate calls a mutating file-system / process API other than the one fs::write"""
    for which in ('lib', 'bin'):
        prog = chk.world.program(which)
        calls = set()
        for name, fl in prog.items():
            for f in fl:
                for bb, body in f.blocks.items():
                    for st in body:
                        if st[0] == 'call':
                            calls.add(st[2])
        hits = sorted({c for c in calls if MUTATING.search(c)})
        writes = [c for c in calls if re.search(r'\bwrite::<', c) and 'fmt' not in c]
        chk.extra.setdefault('effect_scan', {})[which] = {'mutating_calls': hits, 'fs_write_calls': sorted(writes)}
        if hits:
            chk.violation('scan:mutating-call', 'the %s crate calls %r' % (which, hits), {})
        else:
            chk.ok()


def tree_digest(root, skip=()):
    out = {}
    for d, dirs, files in os.walk(root):
        for f in files:
            p = os.path.join(d, f)
            rel = os.path.relpath(p, root)
            if rel in skip:
                continue
            out[rel] = hashlib.sha256(open(p, 'rb').read()).hexdigest()
        for x in dirs:
            out[os.path.relpath(os.path.join(d, x), root) + '/'] = 'dir'
    return out


def native_part(chk):
    """the real binary: tree unchanged, exactly one file created / replaced, stale report overwritten and without influence"""
    binary = os.path.join(chk.world.build, 'solstat')
    import tempfile
    shm = '/dev/shm' if os.path.isdir('/dev/shm') and os.access('/dev/shm', os.W_OK) else None
    shm_dirs = []
    for same_dir, on_shm in [(False, False), (True, False)] + ([(True, True)] if shm else []):
        # the third pass repeats "the working directory is the analysed directory" on a file system that lists the newest entry first
        # (tmpfs): the report of the previous run is then the FIRST entry the next run meets
        if on_shm:
            base = tempfile.mkdtemp(prefix='solstat-verif-c18-', dir=shm)
            shm_dirs.append(base)
        else:
            base = os.path.join(chk.native.dir, 'run%d' % chk.native.n)
        chk.native.n += 1
        cwd = os.path.join(base, 'cwd')
        target = cwd if same_dir else os.path.join(base, 'project')
        os.makedirs(os.path.join(target, 'sub', 'deep'))
        os.makedirs(cwd, exist_ok=True)
        files = {'A.sol': dl.file_text(['solidity_math', 'floating_pragma', 'constructor_order'], 1), 'sub/B.sol': dl.file_text(['sstore', 'unsafe_erc20_operation'], 2),
                 'sub/deep/C.t.sol': 'this is not solidity', 'notes.txt': 'a + b', 'logo.png': None}
        for rel, content in files.items():
            p = os.path.join(target, rel)
            if content is None:
                open(p, 'wb').write(b'\xff\xd8\xff\x00\x80binary')
            else:
                open(p, 'w').write(content)
        reports = []
        fresh = []
        for stale in (None, 'STALE REPORT CONTENT THAT MUST DISAPPEAR\n' * 400, '- A.sol:999\n', 'CRLF', 'TAIL', 'PREFIX'):
            if stale in ('CRLF', 'TAIL', 'PREFIX'):
                if not reports or reports[0] is None:
                    continue
                # a previous report that differs from the new one only in line ends / behind an undecodable byte / by being a prefix
                good = reports[0].encode()
                stale_bytes = {'CRLF': good.replace(b'\n', b'\r\n'), 'TAIL': good + b'\xff\xfe stale tail \n- Old.sol:1\n', 'PREFIX': good[:len(good) // 2]}[stale]
                rp = os.path.join(cwd, 'solstat_report.md')
                open(rp, 'wb').write(stale_bytes)
                before_t = tree_digest(target, skip=('solstat_report.md',) if same_dir else ())
                p = subprocess.run([binary, '--path', '.' if same_dir else target], cwd=cwd, stdout=subprocess.PIPE, stderr=subprocess.PIPE, text=True)
                chk.validated += 1
                now = open(rp, 'rb').read() if os.path.exists(rp) else None
                if p.returncode != 0 or now != good or before_t != tree_digest(target, skip=('solstat_report.md',) if same_dir else ()):
                    chk.violation('run:stale-report-survives', 'solstat run over a previous report that is the new report %s: exit %d, the file afterwards %s the new report (%s bytes, expected %d)' % (
                        {'CRLF': 'with CRLF line ends', 'TAIL': 'followed by undecodable bytes and old entries', 'PREFIX': 'cut in half'}[stale], p.returncode,
                        'is' if now == good else 'is NOT', len(now) if now is not None else 'no', len(good)), {'job': 'solstat', 'stale': stale})
                else:
                    chk.ok()
                continue
            rp = os.path.join(cwd, 'solstat_report.md')
            if stale is None:
                if os.path.exists(rp):
                    os.remove(rp)
            else:
                open(rp, 'w').write(stale)
            before_t = tree_digest(target, skip=('solstat_report.md',) if same_dir else ())
            before_c = tree_digest(cwd, skip=('solstat_report.md',))
            p = subprocess.run([binary, '--path', '.' if same_dir else target], cwd=cwd, stdout=subprocess.PIPE, stderr=subprocess.PIPE, text=True)
            chk.validated += 1
            after_t = tree_digest(target, skip=('solstat_report.md',) if same_dir else ())
            after_c = tree_digest(cwd, skip=('solstat_report.md',))
            text = open(rp).read() if os.path.exists(rp) else None
            problems = []
            if p.returncode != 0:
                problems.append('exit status %d: %s' % (p.returncode, p.stderr[-200:]))
            if before_t != after_t:
                problems.append('the analysed tree changed: %r' % sorted(set(before_t.items()) ^ set(after_t.items()))[:4])
            if before_c != after_c:
                problems.append('files other than solstat_report.md changed in the working directory: %r' % sorted(set(before_c.items()) ^ set(after_c.items()))[:4])
            if text is None:
                problems.append('no solstat_report.md written')
            elif stale and (stale[:30] in text or '- A.sol:999' in text):
                problems.append('the previous report was appended to / leaked into the new one')
            reports.append(text)
            if problems:
                chk.violation('run:effects', 'solstat run (cwd %s the analysed directory, stale report: %s): %s' % (
                    'is' if same_dir else 'is not', 'none' if stale is None else repr(stale[:20]), '; '.join(problems)), {'job': 'solstat'})
            else:
                chk.ok()
        # the same with a configuration file: whatever it selects (nothing at all, one category only, one pattern), the run replaces the report
        cfgs = {'nothing selected': 'optimizations = []\nvulnerabilities = []\nqa = []\n', 'only qa patterns': 'optimizations = []\nvulnerabilities = []\nqa = ["constructor_order"]\n',
                'one optimization': 'optimizations = ["sstore"]\nvulnerabilities = []\nqa = []\n', 'a pattern without findings': 'optimizations = ["shift_math"]\nvulnerabilities = []\nqa = []\n'}
        for cname, cfg in cfgs.items():
            cfgp = os.path.join(base, 'cfg-%s.toml' % cname.replace(' ', '-'))
            open(cfgp, 'w').write('path = "."\n' + cfg)         # the field is mandatory; --path decides
            for stale in (None, 'STALE REPORT CONTENT THAT MUST DISAPPEAR\n- A.sol:999\n' * 50):
                rp = os.path.join(cwd, 'solstat_report.md')
                if stale is None:
                    if os.path.exists(rp):
                        os.remove(rp)
                else:
                    open(rp, 'w').write(stale)
                before_t = tree_digest(target, skip=('solstat_report.md',) if same_dir else ())
                before_c = tree_digest(cwd, skip=('solstat_report.md',))
                p = subprocess.run([binary, '--toml', cfgp, '--path', '.' if same_dir else target], cwd=cwd, stdout=subprocess.PIPE, stderr=subprocess.PIPE, text=True)
                chk.validated += 1
                text = open(rp).read() if os.path.exists(rp) else None
                problems = []
                if p.returncode != 0:
                    problems.append('exit status %d: %s' % (p.returncode, p.stderr[-200:]))
                if before_t != tree_digest(target, skip=('solstat_report.md',) if same_dir else ()):
                    problems.append('the analysed tree changed')
                if before_c != tree_digest(cwd, skip=('solstat_report.md',)):
                    problems.append('files other than solstat_report.md changed in the working directory')
                if text is None:
                    problems.append('no solstat_report.md written')
                elif 'STALE REPORT' in text or '- A.sol:999' in text:
                    problems.append('the previous report survived')
                if problems:
                    chk.violation('run:effects:configured', 'solstat --toml (%s) (cwd %s the analysed directory, stale report: %s): %s' % (
                        cname, 'is' if same_dir else 'is not', 'none' if stale is None else 'yes', '; '.join(problems)),
                                  {'job': 'solstat_cfg_effects', 'config': cfg, 'same_dir': same_dir, 'stale': stale})
                else:
                    chk.ok()
        if len({r for r in reports}) > 1:
            chk.violation('run:stale-report-influences-result', 'three runs over the same tree (no / large / entry-like stale report) wrote different reports', {'job': 'solstat'})
        else:
            chk.ok()
    for d_ in shm_dirs:
        shutil.rmtree(d_, ignore_errors=True)
    chk.sample({'native': 'real binary, cwd = / != analysed directory, no / large / entry-like stale report, nested tree with a binary file and a .t.sol file'})


def body(chk):
    chk.bounds = {'symbolic': 'main() from the binary MIR: tree of 2 eligible files (one in a sub-directory) + other files, 16 combinations of stale '
                              'report in cwd / in the analysed directory / cwd = analysed directory / findings present',
                  'native': '2 working-directory layouts x 3 stale-report states, tree digests before and after',
                  'outside': 'what std::fs::write does on disk (create-or-truncate is its documented contract), other processes, signals'}
    chk.assumptions = ['fs contracts: read_dir / is_dir / read_to_string do not modify anything; fs::write(path, text) creates or truncates exactly that file',
                       'clap stubbed (arbitrary --path), per-file analysis uninterpreted', 'a call of an fs function without a contract is Unsupported, never silently ignored']
    symbolic_part(chk)
    scan(chk)
    native_part(chk)


if __name__ == '__main__':
    main('C18', body)
