"""C08 — mutability suggestions are never made for something the file writes to (DESIGN.md 6/C08, section 8)."""
import itertools

from .. import families as fam, oracle, sol
from ..checklib import main

DETECTORS = ['constant_variables', 'immutable_variables', 'memory_to_calldata', 'sstore']
WRITE_BIN = ['Assign', 'AssignOr', 'AssignAnd', 'AssignXor', 'AssignShiftLeft', 'AssignShiftRight', 'AssignAdd', 'AssignSubtract',
             'AssignMultiply', 'AssignDivide', 'AssignModulo']
WRITE_UN = ['PreIncrement', 'PostIncrement', 'PreDecrement', 'PostDecrement']
TARGETS = ['direct', 'index', 'member', 'tuple', 'paren', 'other_name']
MEMBERS = ['constructor', 'public_function', 'internal_function', 'modifier', 'free_function', 'fallback', 'library_function']
VAR_KINDS = [('uint256', None, False), ('address', None, True), ('uint256', 'constant', True), ('uint256', 'immutable', False),
             ('mapping', None, False), ('string', None, False), ('user', None, False), ('bool', None, False),
             ('address_payable', None, False), ('bytes32', None, False), ('int256', None, False), ('uint8', None, False), ('bytes', None, False)]
QUICK_STMT_POS = ['statement', 'if_body', 'for_update', 'for_update_without_body', 'call_argument', 'power_exponent', 'catch_body', 'unchecked_block',
                  'prefix_increment_operand', 'ternary_branch', 'initialiser']


def target_expr(b, kind, name):
    if kind == 'direct': return b.var(name)
    if kind == 'index': return b.index(b.var(name), b.num(0))
    if kind == 'member': return b.member(b.var(name), 'field')
    if kind == 'tuple': return b.list_([b.var(name), b.var('other')])
    if kind == 'paren': return b.paren(b.var(name))
    if kind == 'other_name': return b.var(name + 'x')
    raise ValueError(kind)


def write_expr(b, form, tkind, name, rhs=None):
    t = target_expr(b, tkind, name)
    if form in WRITE_UN:
        return b.un(form, t)
    return b.bin(form, t, rhs if rhs is not None else b.num(5))


def var_def(b, ty, mut, init, name):
    from .c06 import var_type
    attrs = [b.vattr(mut)] if mut else []
    return b.state_var(var_type(b, ty), name, attrs, b.num(1) if init else None)


def member_with(b, member, stmts, params=()):
    if member == 'constructor':
        return 'c', b.function('Constructor', None, list(params), [], b.block(stmts))
    if member == 'public_function':
        return 'c', b.function('Function', 'run', list(params), [b.fattr('visibility', 'public')], b.block(stmts))
    if member == 'internal_function':
        return 'c', b.function('Function', '_run', list(params), [b.fattr('visibility', 'internal')], b.block(stmts))
    if member == 'modifier':
        return 'c', b.function('Modifier', 'guard', list(params), [], b.block(stmts + [b.expr_stmt(b.var('_'))]))
    if member == 'fallback':
        return 'c', b.function('Fallback', None, [], [b.fattr('visibility', 'external')], b.block(stmts))
    if member == 'free_function':
        return 'f', b.function('Function', 'helper', list(params), [], b.block(stmts))
    if member == 'library_function':
        return 'l', b.function('Function', 'lib', list(params), [b.fattr('visibility', 'internal')], b.block(stmts))
    raise ValueError(member)


def state_file(b, var, writes, extra_ctor_assign=None):
    """var: (type, mutability, initialised); writes: list of (member, position, form, target kind, rhs kind)"""
    ty, mut, init = var
    cparts = [var_def(b, ty, mut, init, 'x'), var_def(b, 'uint256', None, False, 'unrelated')]
    fparts, lparts = [], []
    if extra_ctor_assign is not None:
        rhs = {'value': b.num(7), 'string': b.string('s'), 'abi': b.call(b.member(b.var('abi'), 'encode'), [b.num(1)]),
               'bytes': b.call(b.ty('DynamicBytes'), [b.string('s')]),
               # value-typed right-hand sides that are spelled as conversions
               'bytes32_cast': b.call(b.ty('Bytes', 32), [b.var('seed')]), 'bytes4_cast': b.call(b.ty('Bytes', 4), [b.call(b.var('keccak256'), [b.string('f()')])]),
               'uint_cast': b.call(b.ty('Uint', 128), [b.var('seed')]), 'address_cast': b.call(b.ty('Address'), [b.num(0)]),
               'payable_cast': b.call(b.ty('Payable'), [b.member(b.var('msg'), 'sender')]), 'bool_value': b.var('flag'),
               'sum': b.bin('Add', b.var('seed'), b.num(1)), 'member': b.member(b.var('msg'), 'sender')}[extra_ctor_assign]
        cparts.append(b.function('Constructor', None, [], [], b.block([b.expr_stmt(b.bin('Assign', b.var('x'), rhs))])))
    for (member, pos, form, tkind) in writes:
        w = write_expr(b, form, tkind, 'x')
        if pos == 'header_modifier_argument':
            # the write sits in the HEADER of the member: argument of a modifier invocation / of a base constructor call; the body is empty
            if member == 'constructor':
                where, fn = 'c', b.function('Constructor', None, [], [b.fattr('modifier', 'Base', [w])], b.block([]))
            else:
                where, fn = 'c', b.function('Function', 'run', [b.param(b.ty('Uint', 256), None, 'v')],
                                            [b.fattr('visibility', 'public'), b.fattr('modifier', 'atLeast', [w])], b.block([]))
            cparts.append(fn)
            continue
        stmts = fam.STMT_POSITIONS[pos](b, w)
        where, fn = member_with(b, member, stmts)
        (cparts if where == 'c' else fparts if where == 'f' else lparts).append(fn)
    parts = [b.pragma('solidity', '0.8.16')]
    parts += [b.supart(f) for f in fparts]
    parts.append(fam.contract_with(b, cparts))
    if lparts:
        parts.append(fam.contract_with(b, lparts, kind='Library', name='L'))
    return b.source_unit(parts)


def param_file(b, member, vis, storage, named, write, pos):
    """function with one reference-type parameter `p`; write: None | (form, target kind)"""
    arr = b.index(b.ty('Uint', 256))
    p = b.param(arr, storage, 'p' if named else None)
    q = b.param(b.ty('Uint', 256), None, 'q')
    stmts = [b.expr_stmt(b.var('q'))]
    if write is not None:
        stmts = fam.STMT_POSITIONS[pos](b, write_expr(b, write[0], write[1], 'p', b.var('q')))
    attrs = [b.fattr('visibility', vis)] if vis else []
    kind = {'constructor': 'Constructor', 'function': 'Function', 'modifier': 'Modifier', 'free': 'Function', 'nobody': 'Function'}[member]
    body = None if member == 'nobody' else b.block(stmts + ([b.expr_stmt(b.var('_'))] if member == 'modifier' else []))
    fn = b.function(kind, None if kind == 'Constructor' else 'work', [p, q], attrs, body)
    parts = [b.pragma('solidity', '0.8.16')]
    if member == 'free':
        parts += [b.supart(fn), fam.contract_with(b, [])]
    else:
        parts.append(fam.contract_with(b, [var_def(b, 'uint256', None, False, 'x'), fn]))
    return b.source_unit(parts)


def two_param_file(b, vis, first, second):
    """function with two reference-type parameters; each is (storage, named)"""
    arr = lambda: b.index(b.ty('Uint', 256))
    ps = [b.param(arr(), first[0], 'p' if first[1] else None), b.param(b.ty('Address'), None, None),
          b.param(arr(), second[0], 'r' if second[1] else None), b.param(b.ty('DynamicBytes'), 'Memory', None)]
    fn = b.function('Function', 'batch', ps, [b.fattr('visibility', vis)], b.block([b.expr_stmt(b.var('q'))]))
    return b.source_unit([b.pragma('solidity', '0.8.16'), fam.contract_with(b, [fn])])


def two_function_file(b, order, form, where):
    """two functions with a memory parameter of the SAME name; one assigns it (form: direct / index), the other only reads it.
    order: 'writer_first' | 'reader_first'; where: 'same_contract' | 'two_contracts' | 'free_writer'"""
    arr = lambda: b.index(b.ty('Uint', 256))
    target = b.var('data') if form == 'direct' else b.index(b.var('data'), b.num(0))
    writer = b.function('Function', 'normalize', [b.param(arr(), 'Memory', 'data')], [b.fattr('visibility', 'public')] if where != 'free_writer' else [],
                        b.block([b.expr_stmt(b.bin('Assign', target, b.var('other') if form == 'direct' else b.num(1)))]))
    reader = b.function('Function', 'digest', [b.param(arr(), 'Memory', 'data')], [b.fattr('visibility', 'external')],
                        b.block([b.expr_stmt(b.call(b.var('keccak256'), [b.call(b.member(b.var('abi'), 'encode'), [b.var('data')])]))]))
    pr = b.pragma('solidity', '0.8.16')
    if where == 'same_contract':
        fns = [writer, reader] if order == 'writer_first' else [reader, writer]
        return b.source_unit([pr, fam.contract_with(b, fns)])
    if where == 'two_contracts':
        cs = [fam.contract_with(b, [writer], name='W'), fam.contract_with(b, [reader], name='R')]
        return b.source_unit([pr] + (cs if order == 'writer_first' else cs[::-1]))
    parts = [b.supart(writer), fam.contract_with(b, [reader], name='R')]
    return b.source_unit([pr] + (parts if order == 'writer_first' else parts[::-1]))


def split_contract_file(b, order, form, declared_in):
    """the declaration, a setter and the constructor assignment of ONE state variable spread over two contracts of a file (base contract with the
    setter, derived contract with the constructor), in both orders; form: write form of the setter or None (no setter at all)"""
    decl = var_def(b, 'uint256', None, False, 'fee')
    setter = None
    if form is not None:
        setter = b.function('Function', 'setFee', [b.param(b.ty('Uint', 256), None, 'v')], [b.fattr('visibility', 'external')],
                            b.block([b.expr_stmt(write_expr(b, form, 'direct', 'fee', b.var('v')))]))
    ctor = b.function('Constructor', None, [], [], b.block([b.expr_stmt(b.bin('Assign', b.var('fee'), b.num(30)))]))
    other = var_def(b, 'address', None, False, 'owner')
    octor_stmt = b.expr_stmt(b.bin('Assign', b.var('owner'), b.member(b.var('msg'), 'sender')))
    base_parts = ([decl] if declared_in == 'writer' else []) + [other] + ([setter] if setter is not None else [])
    derived_parts = ([decl] if declared_in == 'ctor' else []) + [b.function('Constructor', None, [], [], b.block([octor_stmt, b.expr_stmt(b.bin('Assign', b.var('fee'), b.num(30)))]))]
    A = fam.contract_with(b, base_parts, name='Config')
    B = fam.contract_with(b, derived_parts, name='Vault', bases=[('Config', None)] if order == 'writer_first' else ())
    return b.source_unit([b.pragma('solidity', '0.8.16')] + ([A, B] if order == 'writer_first' else [B, A]))


def ctor_sequence_file(b, order):
    """one constructor that assigns a string-typed, an abi-encoded and two value-typed state variables, in the given order"""
    vs = {'s': ('string', b.string('registry')), 'e': ('bytes', b.call(b.member(b.var('abi'), 'encode'), [b.num(1)])), 'u': ('uint256', b.num(30)),
          'a': ('address', b.member(b.var('msg'), 'sender')), 'c': ('bytes32', b.call(b.ty('Bytes', 32), [b.var('seed')]))}
    cparts = [var_def(b, vs[k][0], None, False, 'v_' + k) for k in 'seuac']
    stmts = [b.expr_stmt(b.bin('Assign', b.var('v_' + k), vs[k][1])) for k in order]
    cparts.append(b.function('Constructor', None, [b.param(b.ty('Uint', 256), None, 'seed')], [], b.block(stmts)))
    return b.source_unit([b.pragma('solidity', '0.8.16'), fam.contract_with(b, cparts)])


def all_cases(chk):
    out = []
    for order in ('suac', 'usac', 'uase', 'eu', 'ues', 'aceus', 'su', 'cs'):
        out.append(('constructor assigns %s in this order' % order, lambda b, o=order: ctor_sequence_file(b, o)))
    for order, form, decl in itertools.product(('writer_first', 'ctor_first'), (None, 'Assign', 'AssignAdd', 'PostIncrement'), ('writer', 'ctor')):
        out.append(('split over two contracts: %s, setter %s, declared in the %s contract' % (order, form, decl), lambda b, a=(order, form, decl): split_contract_file(b, *a)))
    for order, form, where in itertools.product(('writer_first', 'reader_first'), ('direct', 'index'), ('same_contract', 'two_contracts', 'free_writer')):
        out.append(('two functions %s %s %s' % (order, form, where), lambda b, a=(order, form, where): two_function_file(b, *a)))
    pos_all = list(fam.STMT_POSITIONS)
    pos_q = QUICK_STMT_POS
    # no write at all, per variable kind, with and without a constructor assignment
    for var in VAR_KINDS:
        for ctor in (None, 'value', 'string', 'abi', 'bytes', 'bytes32_cast', 'bytes4_cast', 'uint_cast', 'address_cast', 'payable_cast', 'bool_value', 'sum', 'member'):
            out.append(('x:%s no write, ctor=%s' % (var[:2], ctor), lambda b, v=var, c=ctor: state_file(b, v, [], c)))
    # one write: form x target kind x member x position
    for form in WRITE_BIN + WRITE_UN:
        for tkind in TARGETS:
            for member in MEMBERS:
                poss = pos_q if (form in ('Assign', 'AssignAdd', 'PreIncrement', 'PostDecrement') and tkind == 'direct') else ['statement']
                if not chk.quick and tkind == 'direct':
                    poss = pos_all
                for pos in poss:
                    for ctor in ((None, 'value') if form in ('Assign', 'AssignAdd', 'PostIncrement') else (None,)):
                        out.append(('x %s on %s in %s @ %s, ctor=%s' % (form, tkind, member, pos, ctor),
                                    lambda b, a=(member, pos, form, tkind), c=ctor: state_file(b, VAR_KINDS[0], [a], c)))
    # the only write sits in a function HEADER (modifier-invocation argument, base-constructor argument), with and without a constructor assignment
    for form, member in itertools.product(('Assign', 'AssignAdd', 'PostIncrement'), ('public_function', 'constructor')):
        for ctor in ((None, 'value', 'sum') if member != 'constructor' else (None,)):
            out.append(('x %s in the header of %s (modifier / base argument), ctor=%s' % (form, member, ctor),
                        lambda b, a=(member, 'header_modifier_argument', form, 'direct'), c=ctor: state_file(b, VAR_KINDS[0], [a], c)))
    # writes to other variable kinds (constant, immutable, mapping, string, user-defined)
    for var in VAR_KINDS[1:]:
        for form, member in itertools.product(('Assign', 'AssignAdd', 'PostIncrement'), ('constructor', 'public_function')):
            out.append(('x:%s %s in %s' % (var[:2], form, member), lambda b, v=var, a=(member, 'statement', form, 'direct'): state_file(b, v, [a], None)))
    # two writes in different members
    for (m1, f1), (m2, f2) in itertools.product([('constructor', 'Assign'), ('public_function', 'Assign'), ('modifier', 'PreIncrement'), ('free_function', 'Assign')], repeat=2):
        out.append(('x %s in %s + %s in %s' % (f1, m1, f2, m2),
                    lambda b, a=(m1, 'statement', f1, 'direct'), c=(m2, 'if_body', f2, 'direct'): state_file(b, VAR_KINDS[0], [a, c], None)))
    # parameters
    for member, vis, storage, named in itertools.product(['function', 'constructor', 'modifier', 'free', 'nobody'], [None, 'public', 'external', 'internal', 'private'],
                                                         ['Memory', 'Calldata', 'Storage', None], (True, False)):
        out.append(('param %s %s %s named=%s no write' % (member, vis, storage, named),
                    lambda b, a=(member, vis, storage, named): param_file(b, *a, None, 'statement')))
    for vis, first, second in itertools.product(['external', 'public', 'internal'], [('Memory', True), ('Memory', False), ('Calldata', True)],
                                                [('Memory', True), ('Memory', False), ('Calldata', False), (None, False)]):
        out.append(('two params %s %r %r' % (vis, first, second), lambda b, a=(vis, first, second): two_param_file(b, *a)))
    for form, tkind in itertools.product(['Assign', 'AssignAdd', 'PostIncrement', 'AssignOr'], ['direct', 'index', 'member', 'tuple', 'other_name']):
        for pos in (pos_q if form == 'Assign' and tkind in ('direct', 'index') else ['statement']):
            for vis in ('public', 'external', 'internal'):
                out.append(('param write %s on %s @ %s (%s)' % (form, tkind, pos, vis),
                            lambda b, a=(form, tkind), p=pos, v=vis: param_file(b, 'function', v, 'Memory', True, a, p)))
    return out


def job(chk, idxs):
    e = chk.engine()
    cases = all_cases(chk)
    results = []
    for i in idxs:
        label, build = cases[i]
        for d in DETECTORS:
            b = sol.TreeBuilder()
            su = build(b)
            results.append(fam.run_case(chk, e, d, su, label, {v.decl().name() for v in b.loc_vars}))
    fam.flush_validation(chk, results)
    chk.extra_lists.setdefault('per_job', []).append({'cases': len(results), 'paths_with_reports': sum(r.flagged for r in results),
                                                      'paths_without': sum(r.silent for r in results)})
    if results and results[0].jobs:
        chk.sample({'case': results[0].jobs[0][1], 'file': results[0].jobs[0][2], 'predicted_starts': results[0].jobs[0][3]})


def body(chk):
    n = len(all_cases(chk))
    idx = list(range(n))
    if chk.quick and n > 2500:            # (the whole family is cheap enough for the quick tier: the draw only applies should it grow much further)
        core = [i for i, (l, _) in enumerate(all_cases(chk)) if l.startswith(('two params', 'two functions', 'constructor assigns', 'split over two contracts')) or 'in the header of' in l or (' on direct in public_function @ statement, ctor=None' in l) or (' on direct in constructor @ statement, ctor=None' in l) or ('no write, ctor=' in l and l.startswith(('x:ui', 'x:ad', 'x:by', 'x:in')))]
        chk.rng.shuffle(idx)
        idx = sorted(set(idx[:900]) | set(core))
    chk.bounds = {'files': '%d of %d x 4 detectors' % (len(idx), n),
                  'writes': '15 write forms x target (direct / index / member / tuple / parenthesised / other name) x member (constructor, public / internal function, modifier, '
                            'free function, fallback, library function) x position; variable kinds: elementary, initialised, constant, immutable, mapping, string, user-defined',
                  'parameters': 'function kind x visibility x data location x named; 4 write forms x 5 targets x positions',
                  'outside': 'more than two writes per file; shadowing (excluded by the property)'}
    chk.assumptions = ['as C05; HashMap<String,_> contract: association list with exact key equality']
    chunks = [idx[k:k + 25] for k in range(0, len(idx), 25)]
    chk.parallel(job, chunks)
    rep = sum(j['paths_with_reports'] for j in chk.extra_lists.get('per_job', []))
    sil = sum(j['paths_without'] for j in chk.extra_lists.get('per_job', []))
    if not chk.undecided and not chk.violations and (rep == 0 or sil == 0):
        chk.broken('vacuous family (paths with a report: %d, without: %d)' % (rep, sil))


if __name__ == '__main__':
    main('C08', body)
