"""Type definitions (enums / structs) read at run time from the Rust sources: solang-parser's pt.rs (the version named in
/repo/Cargo.lock) and /repo/src/**. Gives variant order (= discriminant), field positions and field types."""
import os
import re

from .mirparse import split_top


def strip_noise(src):
    src = re.sub(r'//[^\n]*', '', src)
    src = re.sub(r'/\*.*?\*/', '', src, flags=re.S)
    return re.sub(r'#\[[^\]]*\]', '', src)


class TypeDB:
    def __init__(self):
        self.enums = {}      # name -> [(variant, [field types], [field names]|None)]
        self.structs = {}    # name -> ([field names]|None, [field types])
        self.aliases = {}
        self.enums['Option'] = [('None', [], None), ('Some', ['T'], None)]
        self.enums['Result'] = [('Ok', ['T'], None), ('Err', ['E'], None)]
        self.enums['ControlFlow'] = [('Continue', ['C'], None), ('Break', ['B'], None)]
        self.enums['Ordering'] = [('Less', [], None), ('Equal', [], None), ('Greater', [], None)]
        self.ordering_discr = {'Less': -1, 'Equal': 0, 'Greater': 1}

    def load(self, src):
        src = strip_noise(src)
        for m in re.finditer(r'pub(?:\(crate\))? enum (\w+)\s*\{(.*?)\n\}', src, re.S):
            vs = []
            for v in split_top(m.group(2)):
                mm = re.match(r'^(\w+)\s*\((.*)\)$', v, re.S)
                if mm:
                    vs.append((mm.group(1), [re.sub(r'\s+', ' ', t) for t in split_top(mm.group(2))], None))
                    continue
                mm = re.match(r'^(\w+)\s*\{(.*)\}$', v, re.S)
                if mm:
                    fs = split_top(mm.group(2))
                    vs.append((mm.group(1), [re.sub(r'\s+', ' ', f.split(':', 1)[1].strip()) for f in fs],
                               [f.split(':', 1)[0].strip() for f in fs]))
                    continue
                mm = re.match(r'^(\w+)(?:\s*=\s*\d+)?$', v)
                if mm:
                    vs.append((mm.group(1), [], None))
            self.enums[m.group(1)] = vs
        for m in re.finditer(r'pub(?:\(crate\))? struct (\w+)\s*\{(.*?)\n\}', src, re.S):
            fs = split_top(m.group(2))
            names = [re.sub(r'^pub(?:\(crate\))?\s+', '', f.split(':', 1)[0].strip()) for f in fs]
            tys = [re.sub(r'\s+', ' ', f.split(':', 1)[1].strip()) for f in fs]
            self.structs[m.group(1)] = (names, tys)
        for m in re.finditer(r'pub(?:\(crate\))? struct (\w+)\((.*?)\);', src):
            self.structs[m.group(1)] = (None, [re.sub(r'^pub\s+', '', t) for t in split_top(m.group(2))])
        for m in re.finditer(r'pub type (\w+) = (.*?);', src):
            self.aliases[m.group(1)] = m.group(2)

    def load_tree(self, root):
        for d, _, fs in os.walk(root):
            for f in sorted(fs):
                if f.endswith('.rs'):
                    self.load(open(os.path.join(d, f)).read())

    def variant_index(self, enum, variant):
        for i, v in enumerate(self.enums[enum]):
            if v[0] == variant:
                return i
        raise KeyError('%s::%s' % (enum, variant))

    def variant(self, enum, variant):
        return self.enums[enum][self.variant_index(enum, variant)]


_PATH_RE = re.compile(r'\b(?:[a-z_][a-z0-9_]*::)+(?=[^<]|<impl )')


def norm_type(t):
    """strip module paths: std::string::String -> String, solang_parser::pt::Expression -> Expression"""
    t = t.replace('{closure@', '{closure#')
    return _PATH_RE.sub('', t)


def strip_generics(path):
    """Option::<Box<Expression>>::Some -> Option::Some"""
    out, depth, i, n = [], 0, 0, len(path)
    while i < n:
        c = path[i]
        if c == '<':
            if depth == 0 and out[-2:] == [':', ':']:
                out = out[:-2]
            depth += 1
        elif c == '>' and path[i - 1] not in '-=':
            depth -= 1
        elif depth == 0:
            out.append(c)
        i += 1
    return ''.join(out)
