"""Symbolic parse trees: construction (as engine values of the real `pt` types), concretisation under a path's choices
and a Z3 model, printing as Solidity text (with the byte offset at which every node starts) and rendering in Rust's
`{:?}` format (used to check, through the real parser, that printed text parses back to the very tree that was executed).
"""
import re

import z3

from .engine import Adt, BoxV, Choice, Int, Str, Tuple, VecV, UNIT

NONE = Adt('Option', 'None')


def some(v):
    return Adt('Option', 'Some', (v,))


def opt(v):
    return NONE if v is None else some(v)


class DecStr(Str):
    """decimal rendering of a symbolic natural number held in a wide bit-vector `n` (no sign, no leading zeros)"""
    __slots__ = ('n', 'width')

    def __init__(self, n, width):
        self.n, self.width = n, width
        self.v = z3.IntToStr(z3.BV2Int(n, False))

    def render(self, model):
        return str(model.eval(self.n, model_completion=True).as_long())

    def parse_int(self, e, ty, lo, hi):
        from .lib import ok, err
        from .mirparse import INT_TYPES
        w = INT_TYPES[ty][0]
        fits = z3.ULE(self.n, z3.BitVecVal(hi, self.width))
        if e.branch(fits):
            return ok(Int(z3.Extract(w - 1, 0, self.n), ty))
        return err(Adt('ParseIntError', None, (Str('number too large to fit in target type'),)))


class SizedStr(Str):
    """string of which only the byte length and the number of characters (symbolic 64-bit values) are observable;
    characters are 1 or 2 bytes wide: char_len <= byte_len <= 2 * char_len (a constraint the harness adds)"""
    __slots__ = ('byte_len', 'char_len')

    def __init__(self, byte_len, char_len=None):
        self.byte_len = byte_len
        self.char_len = char_len if char_len is not None else byte_len
        self.v = None

    @property
    def concrete(self):
        return False

    def render(self, model):
        b = model.eval(self.byte_len, model_completion=True).as_long()
        c = model.eval(self.char_len, model_completion=True).as_long() if not isinstance(self.char_len, int) else self.char_len
        two = max(0, min(b - c, c))
        return 'é' * two + 'r' * (b - 2 * two)


class TreeBuilder:
    """allocates node ids; every node with a `Loc` gets symbolic start/end offsets named after its id"""

    def __init__(self, file_no=0, symbolic_locs=True, tag='n'):
        self.n = 0
        self.tag = tag
        self.file_no = Int(file_no, 'usize') if isinstance(file_no, int) else file_no
        self.symbolic = symbolic_locs
        self.loc_vars = []

    def loc(self):
        i = self.n
        self.n += 1
        if self.symbolic:
            s, e = z3.BitVec('%s%d.s' % (self.tag, i), 64), z3.BitVec('%s%d.e' % (self.tag, i), 64)
            self.loc_vars += [s, e]
            return Adt('Loc', 'File', (self.file_no, Int(s, 'usize'), Int(e, 'usize')))
        return Adt('Loc', 'File', (self.file_no, Int(1000 + 2 * i, 'usize'), Int(1001 + 2 * i, 'usize')))

    # ---- leaves
    def ident(self, name):
        return Adt('Identifier', None, (self.loc(), name if not isinstance(name, str) else Str(name)))

    def path(self, *names):
        return Adt('IdentifierPath', None, (self.loc(), VecV([self.ident(n) for n in names])))

    def var(self, name):
        return Adt('Expression', 'Variable', (self.ident(name),))

    def num(self, value, exp=''):
        v = value if not isinstance(value, (str, int)) else Str(str(value))
        return Adt('Expression', 'NumberLiteral', (self.loc(), v, Str(exp) if isinstance(exp, str) else exp))

    def hexnum(self, text):
        return Adt('Expression', 'HexNumberLiteral', (self.loc(), Str(text)))

    def boolean(self, b):
        return Adt('Expression', 'BoolLiteral', (self.loc(), b))

    def string(self, s, unicode=False):
        lit = Adt('StringLiteral', None, (self.loc(), unicode, s if not isinstance(s, str) else Str(s)))
        return Adt('Expression', 'StringLiteral', (VecV([lit]),))

    def strings(self, parts):
        """one string literal written as several adjacent parts: `"abc" "def"`"""
        return Adt('Expression', 'StringLiteral', (VecV([self.strlit(x) for x in parts]),))

    def strlit(self, s):
        return Adt('StringLiteral', None, (self.loc(), False, s if not isinstance(s, str) else Str(s)))

    def this(self):
        return Adt('Expression', 'This', (self.loc(),))

    def ty(self, name, arg=None):
        """elementary type expression: ty('Uint', 256), ty('Address'), ty('Bool') ..."""
        t = Adt('Type', name, () if arg is None else (arg if not isinstance(arg, int) else
                                                       Int(arg, 'u8' if name == 'Bytes' else 'u16'),))
        return Adt('Expression', 'Type', (self.loc(), t))

    def mapping(self, k, v):
        return Adt('Expression', 'Type', (self.loc(), Adt('Type', 'Mapping', (self.loc(), BoxV(k), BoxV(v)))))

    # ---- expressions
    def un(self, kind, e):
        return Adt('Expression', kind, (self.loc(), BoxV(e)))

    def bin(self, kind, l, r):
        return Adt('Expression', kind, (self.loc(), BoxV(l), BoxV(r)))

    def ternary(self, c, a, b):
        return Adt('Expression', 'Ternary', (self.loc(), BoxV(c), BoxV(a), BoxV(b)))

    def paren(self, e):
        """the parser gives a parenthesised expression the Loc of its content"""
        inner = e
        while isinstance(inner, Choice):
            inner = inner.alts[0]
        loc = inner.fields[0] if inner.variant not in ('Variable', 'StringLiteral', 'HexLiteral') else \
            (inner.fields[0].fields[0] if inner.variant == 'Variable' else inner.fields[0].items[0].fields[0])
        return Adt('Expression', 'Parenthesis', (loc, BoxV(e)))

    def call(self, f, args):
        return Adt('Expression', 'FunctionCall', (self.loc(), BoxV(f), args if isinstance(args, (VecV, Choice)) else VecV(args)))

    def named_call(self, f, named):
        return Adt('Expression', 'NamedFunctionCall', (self.loc(), BoxV(f), VecV(
            [Adt('NamedArgument', None, (self.loc(), self.ident(n), e)) for n, e in named])))

    def args_stmt(self, named):
        """the `{value: v, gas: g}` part of a call with options (Statement::Args)"""
        return Adt('Statement', 'Args', (self.loc(), VecV([Adt('NamedArgument', None, (self.loc(), self.ident(n), e)) for n, e in named])))

    def call_block(self, f, block):
        return Adt('Expression', 'FunctionCallBlock', (self.loc(), BoxV(f), BoxV(block)))

    def member(self, e, name):
        return Adt('Expression', 'MemberAccess', (self.loc(), BoxV(e), self.ident(name)))

    def index(self, a, i=None):
        return Adt('Expression', 'ArraySubscript', (self.loc(), BoxV(a), NONE if i is None else some(BoxV(i))))

    def slice(self, a, l=None, r=None):
        return Adt('Expression', 'ArraySlice', (self.loc(), BoxV(a), NONE if l is None else some(BoxV(l)),
                                                NONE if r is None else some(BoxV(r))))

    def array_lit(self, items):
        return Adt('Expression', 'ArrayLiteral', (self.loc(), VecV(items)))

    def unit(self, e, unit):
        return Adt('Expression', 'Unit', (self.loc(), BoxV(e), Adt('Unit', unit, (self.loc(),))))

    def list_(self, params):
        """(a, b) tuple expression: params are expressions or None"""
        return Adt('Expression', 'List', (self.loc(), VecV([self.opt_param(p) for p in params])))

    def opt_param(self, p):
        if p is None:
            return Tuple((self.loc(), NONE))
        if isinstance(p, Adt) and p.ty == 'Parameter':
            return Tuple((self.loc(), some(p)))
        return Tuple((self.loc(), some(self.param(p))))

    def param(self, ty, storage=None, name=None):
        st = NONE if storage is None else some(Adt('StorageLocation', storage, (self.loc(),)))
        return Adt('Parameter', None, (self.loc(), ty, st, NONE if name is None else some(self.ident(name))))

    def params(self, plist):
        return VecV([Tuple((self.loc(), some(p))) for p in plist])

    # ---- statements
    def block(self, stmts, unchecked=False):
        return Adt('Statement', 'Block', (self.loc(), unchecked, stmts if isinstance(stmts, (VecV, Choice)) else VecV(stmts)))

    def expr_stmt(self, e):
        return Adt('Statement', 'Expression', (self.loc(), e))

    def vardecl(self, ty, name, storage=None):
        st = NONE if storage is None else some(Adt('StorageLocation', storage, (self.loc(),)))
        return Adt('VariableDeclaration', None, (self.loc(), ty, st, self.ident(name)))

    def var_stmt(self, ty, name, init=None, storage=None):
        return Adt('Statement', 'VariableDefinition', (self.loc(), self.vardecl(ty, name, storage), opt(init)))

    def if_(self, c, then, els=None):
        return Adt('Statement', 'If', (self.loc(), c, BoxV(then), NONE if els is None else some(BoxV(els))))

    def while_(self, c, body):
        return Adt('Statement', 'While', (self.loc(), c, BoxV(body)))

    def do_while(self, body, c):
        return Adt('Statement', 'DoWhile', (self.loc(), BoxV(body), c))

    def for_(self, init, cond, nxt, body):
        b = lambda x: NONE if x is None else some(BoxV(x))
        return Adt('Statement', 'For', (self.loc(), b(init), b(cond), b(nxt), b(body)))

    def ret(self, e=None):
        return Adt('Statement', 'Return', (self.loc(), opt(e)))

    def emit(self, call):
        return Adt('Statement', 'Emit', (self.loc(), call))

    def revert(self, name, args):
        return Adt('Statement', 'Revert', (self.loc(), NONE if name is None else some(self.path(name)), VecV(args)))

    def revert_named(self, name, named):
        return Adt('Statement', 'RevertNamedArgs', (self.loc(), NONE if name is None else some(self.path(name)), VecV(
            [Adt('NamedArgument', None, (self.loc(), self.ident(n), e)) for n, e in named])))

    def try_(self, expr, returns, clauses):
        """returns: None or (param list, block); clauses: list of CatchClause"""
        r = NONE if returns is None else some(Tuple((self.params(returns[0]), BoxV(returns[1]))))
        return Adt('Statement', 'Try', (self.loc(), expr, r, VecV(clauses)))

    def catch_simple(self, param, block):
        return Adt('CatchClause', 'Simple', (self.loc(), opt(param), block))

    def catch_named(self, name, param, block):
        return Adt('CatchClause', 'Named', (self.loc(), self.ident(name), param, block))

    def continue_(self):
        return Adt('Statement', 'Continue', (self.loc(),))

    def break_(self):
        return Adt('Statement', 'Break', (self.loc(),))

    def assembly(self):
        """inline assembly with an empty Yul block (its content is opaque to solstat)"""
        yb = Adt('YulBlock', None, (self.loc(), VecV(())))
        return Adt('Statement', 'Assembly', (self.loc(), NONE, NONE, yb))

    # ---- definitions
    def visibility(self, v):
        return Adt('Visibility', v.capitalize(), (some(self.loc()),))

    def fattr(self, kind, *a):
        if kind == 'visibility':
            return Adt('FunctionAttribute', 'Visibility', (self.visibility(a[0]),))
        if kind == 'mutability':
            return Adt('FunctionAttribute', 'Mutability', (Adt('Mutability', a[0].capitalize(), (self.loc(),)),))
        if kind == 'virtual':
            return Adt('FunctionAttribute', 'Virtual', (self.loc(),))
        if kind == 'override':
            return Adt('FunctionAttribute', 'Override', (self.loc(), VecV(())))
        if kind == 'modifier':       # name, args (None = no parentheses)
            base = Adt('Base', None, (self.loc(), self.path(a[0]), NONE if a[1] is None else some(VecV(a[1]))))
            return Adt('FunctionAttribute', 'BaseOrModifier', (self.loc(), base))
        raise ValueError(kind)

    def vattr(self, kind, *a):
        if kind == 'visibility':
            return Adt('VariableAttribute', 'Visibility', (self.visibility(a[0]),))
        if kind == 'constant':
            return Adt('VariableAttribute', 'Constant', (self.loc(),))
        if kind == 'immutable':
            return Adt('VariableAttribute', 'Immutable', (self.loc(),))
        if kind == 'override':
            return Adt('VariableAttribute', 'Override', (self.loc(), VecV(())))
        raise ValueError(kind)

    def function(self, ty, name, params, attrs, body, returns=()):
        """ty: 'Function' | 'Constructor' | 'Fallback' | 'Receive' | 'Modifier'"""
        return Adt('FunctionDefinition', None, (
            self.loc(), Adt('FunctionTy', ty) if isinstance(ty, str) else ty,
            NONE if name is None else some(self.ident(name)), self.loc(),
            self.params(params) if not isinstance(params, (VecV, Choice)) else params,
            attrs if isinstance(attrs, (VecV, Choice)) else VecV(attrs), NONE,
            self.params(returns), opt(body)))

    def state_var(self, ty, name, attrs=(), init=None):
        return Adt('VariableDefinition', None, (self.loc(), ty, attrs if isinstance(attrs, (VecV, Choice)) else VecV(attrs),
                                                self.ident(name), opt(init)))

    def struct(self, name, fields):
        """fields: [(type expr, name)]"""
        return Adt('StructDefinition', None, (self.loc(), self.ident(name), VecV(
            [self.vardecl(t, n) for t, n in fields])))

    def using(self, lib, ty=None):
        lst = Adt('UsingList', 'Library', (self.path(*lib.split('.')),))
        return Adt('Using', None, (self.loc(), lst, opt(ty), NONE))

    def event(self, name, fields):
        return Adt('EventDefinition', None, (self.loc(), self.ident(name), VecV(
            [Adt('EventParameter', None, (t, self.loc(), False, some(self.ident(n)))) for t, n in fields]), False))

    def error(self, name, fields):
        return Adt('ErrorDefinition', None, (self.loc(), self.ident(name), VecV(
            [Adt('ErrorParameter', None, (t, self.loc(), some(self.ident(n)))) for t, n in fields])))

    def enum(self, name, values):
        return Adt('EnumDefinition', None, (self.loc(), self.ident(name), VecV([self.ident(v) for v in values])))

    def typedef(self, name, ty):
        return Adt('TypeDefinition', None, (self.loc(), self.ident(name), ty))

    def contract(self, kind, name, parts, bases=()):
        """kind: Contract | Abstract | Interface | Library; bases: [(name, args|None)]"""
        bs = VecV([Adt('Base', None, (self.loc(), self.path(n), NONE if a is None else some(VecV(a)))) for n, a in bases])
        return Adt('ContractDefinition', None, (self.loc(), Adt('ContractTy', kind, (self.loc(),)), self.ident(name), bs,
                                                parts if isinstance(parts, (VecV, Choice)) else VecV(parts)))

    def cpart(self, d):
        d0 = d
        while isinstance(d0, Choice):
            d0 = d0.alts[0]
        if d0.ty == 'Loc':
            return Adt('ContractPart', 'StraySemicolon', (d,))
        return Adt('ContractPart', d0.ty, (BoxV(d),))

    def supart(self, d):
        d0 = d
        while isinstance(d0, Choice):
            d0 = d0.alts[0]
        if d0.ty == 'Loc':
            return Adt('SourceUnitPart', 'StraySemicolon', (d,))
        return Adt('SourceUnitPart', d0.ty, (BoxV(d),))

    def pragma(self, name, value):
        return Adt('SourceUnitPart', 'PragmaDirective', (self.loc(), self.ident(name), self.strlit(value)))

    def source_unit(self, parts):
        return Adt('SourceUnit', None, (parts if isinstance(parts, (VecV, Choice)) else VecV(parts),))


# ================================================================================================ concretisation
def concretize(v, choices, model=None, default=0):
    """replace every Choice by the alternative the path took (`default` alternative if the path never looked) and
    every symbolic scalar by its value in `model`"""
    if isinstance(v, Choice):
        k = choices.get(v.sel)
        if k is None:
            k = default(v) if callable(default) else default
        return concretize(v.alts[k], choices, model, default)
    if isinstance(v, Adt):
        return Adt(v.ty, v.variant, [concretize(f, choices, model, default) for f in v.fields])
    if isinstance(v, BoxV):
        return BoxV(concretize(v.inner, choices, model, default))
    if isinstance(v, VecV):
        return VecV([concretize(f, choices, model, default) for f in v.items])
    if isinstance(v, Tuple):
        return Tuple([concretize(f, choices, model, default) for f in v.fields])
    if isinstance(v, Str) and not v.concrete:
        if model is None:
            return v
        if hasattr(v, 'render'):
            return Str(v.render(model))
        val = model.eval(v.v, model_completion=True)
        return Str(val.as_string())
    if z3.is_bool(v):
        if model is None:
            return v
        return z3.is_true(model.eval(v, model_completion=True))
    return v


def loc_id(loc):
    """node id of a symbolic Loc built by TreeBuilder (None for concrete ones)"""
    s = loc.fields[1].v
    if isinstance(s, int):
        return ('c', s)
    name = s.decl().name()
    return name[:-2]


# ================================================================================================ printer
BINOPS = {'Power': '**', 'Multiply': '*', 'Divide': '/', 'Modulo': '%', 'Add': '+', 'Subtract': '-', 'ShiftLeft': '<<',
          'ShiftRight': '>>', 'BitwiseAnd': '&', 'BitwiseXor': '^', 'BitwiseOr': '|', 'Less': '<', 'More': '>',
          'LessEqual': '<=', 'MoreEqual': '>=', 'Equal': '==', 'NotEqual': '!=', 'And': '&&', 'Or': '||',
          'Assign': '=', 'AssignOr': '|=', 'AssignAnd': '&=', 'AssignXor': '^=', 'AssignShiftLeft': '<<=',
          'AssignShiftRight': '>>=', 'AssignAdd': '+=', 'AssignSubtract': '-=', 'AssignMultiply': '*=',
          'AssignDivide': '/=', 'AssignModulo': '%='}
PREFIX = {'Not': '!', 'Complement': '~', 'Delete': 'delete ', 'New': 'new ', 'PreIncrement': '++', 'PreDecrement': '--',
          'UnaryPlus': '+', 'UnaryMinus': '-'}
# binding level of each expression kind in solang's grammar (PrecedenceN; smaller binds tighter)
LEVEL = {'Assign': 14, 'AssignOr': 14, 'AssignAnd': 14, 'AssignXor': 14, 'AssignShiftLeft': 14, 'AssignShiftRight': 14,
         'AssignAdd': 14, 'AssignSubtract': 14, 'AssignMultiply': 14, 'AssignDivide': 14, 'AssignModulo': 14,
         'Ternary': 14, 'Or': 13, 'And': 12, 'Equal': 11, 'NotEqual': 11, 'Less': 10, 'More': 10, 'LessEqual': 10,
         'MoreEqual': 10, 'BitwiseOr': 9, 'BitwiseXor': 8, 'BitwiseAnd': 7, 'ShiftLeft': 6, 'ShiftRight': 6, 'Add': 5,
         'Subtract': 5, 'Multiply': 4, 'Divide': 4, 'Modulo': 4, 'Power': 3, 'Not': 2, 'Complement': 2, 'Delete': 2,
         'New': 2, 'PreIncrement': 2, 'PreDecrement': 2, 'UnaryPlus': 2, 'UnaryMinus': 2}


def level(e):
    return LEVEL.get(e.variant, 0)


def operand_levels(kind):
    """(max level of the left operand, max level of the right operand) allowed without parentheses"""
    l = LEVEL[kind]
    if l == 14:
        return 13, 14                  # assignments and ?: are right associative
    if kind == 'Power':
        return 2, 3
    return l, l - 1                    # left associative binary operators


TYPE_NAMES = {'Address': 'address', 'AddressPayable': 'address payable', 'Payable': 'payable', 'Bool': 'bool',
              'String': 'string', 'DynamicBytes': 'bytes', 'Rational': 'fixed'}
UNITS = {'Seconds': 'seconds', 'Minutes': 'minutes', 'Hours': 'hours', 'Days': 'days', 'Weeks': 'weeks', 'Wei': 'wei',
         'Gwei': 'gwei', 'Ether': 'ether'}


class PrintError(Exception):
    pass


class Printer:
    """prints a CONCRETE tree (after `concretize`); records the byte offset at which each node's first token starts"""

    def __init__(self, newline='\n', indent='    ', lead='', wrap_params=False):
        self.wrap_params = wrap_params      # every parameter of a list with several parameters on a line of its own
        self.out = []
        self.pos = 0
        self.starts = {}
        self.ends = {}
        self.nl, self.ind = newline, indent
        self.depth = 0
        self.lead = lead

    def w(self, s):
        self.out.append(s)
        self.pos += len(s.encode('utf-8'))

    def line(self):
        self.w(self.nl + self.ind * self.depth)

    def mark(self, loc):
        if isinstance(loc, Adt) and loc.ty == 'Loc':
            self.starts.setdefault(loc_id(loc), self.pos)

    def text(self):
        return ''.join(self.out)

    # ---- expressions
    def s(self, v):
        if isinstance(v, Str):
            if not v.concrete:
                raise PrintError('symbolic string in a tree to print')
            return v.v
        raise PrintError('not a string: %r' % (v,))

    def ident(self, i):
        self.mark(i.fields[0])
        self.w(self.s(i.fields[1]))

    def idpath(self, p):
        self.mark(p.fields[0])
        for k, i in enumerate(p.fields[1].items):
            if k:
                self.w('.')
            self.ident(i)

    def expr(self, e):
        """prints an expression and records where it ends (the parser's Loc.end is the end of the last token)"""
        self._expr(e)
        k = e.variant
        if k in ('Parenthesis', 'StringLiteral', 'HexLiteral'):
            return
        loc = e.fields[0].fields[0] if k == 'Variable' else e.fields[0]
        if isinstance(loc, Adt) and loc.ty == 'Loc':
            self.ends.setdefault(loc_id(loc), self.pos)

    def _expr(self, e):
        k = e.variant
        f = e.fields
        if k == 'Parenthesis':
            self.w('(')
            self.expr(f[1].inner)
            self.w(')')
            return
        if k == 'Variable':
            self.ident(f[0])
            return
        if k == 'StringLiteral':
            for j, lit in enumerate(f[0].items):
                if j:
                    self.w(' ')
                self.mark(lit.fields[0])
                self.w(('unicode' if lit.fields[1] else '') + '"' + self.s(lit.fields[2]) + '"')
            return
        if k == 'HexLiteral':
            for j, lit in enumerate(f[0].items):
                if j:
                    self.w(' ')
                self.mark(lit.fields[0])
                self.w('hex"' + self.s(lit.fields[1]) + '"')
            return
        self.mark(f[0])
        if k in BINOPS:
            self.expr(f[1].inner)
            self.w(' ' + BINOPS[k] + ' ')
            self.expr(f[2].inner)
        elif k in PREFIX:
            self.w(PREFIX[k])
            inner = f[1].inner
            # `- -x` / `+ +x` must not lex as `--x` / `++x`
            if k in ('UnaryMinus', 'PreDecrement') and inner.variant in ('UnaryMinus', 'PreDecrement') or \
                    k in ('UnaryPlus', 'PreIncrement') and inner.variant in ('UnaryPlus', 'PreIncrement'):
                self.w(' ')
            self.expr(inner)
        elif k in ('PostIncrement', 'PostDecrement'):
            self.expr(f[1].inner)
            self.w('++' if k == 'PostIncrement' else '--')
        elif k == 'Ternary':
            self.expr(f[1].inner); self.w(' ? '); self.expr(f[2].inner); self.w(' : '); self.expr(f[3].inner)
        elif k == 'FunctionCall':
            self.expr(f[1].inner)
            self.w('(')
            for j, a in enumerate(f[2].items):
                if j:
                    self.w(', ')
                self.expr(a)
            self.w(')')
        elif k == 'NamedFunctionCall':
            self.expr(f[1].inner)
            self.w('({')
            for j, a in enumerate(f[2].items):
                if j:
                    self.w(', ')
                self.named_arg(a)
            self.w('})')
        elif k == 'FunctionCallBlock':
            self.expr(f[1].inner)
            self.stmt(f[2].inner, inline=True)
        elif k == 'MemberAccess':
            self.expr(f[1].inner); self.w('.'); self.ident(f[2])
        elif k == 'ArraySubscript':
            self.expr(f[1].inner); self.w('[')
            if f[2].variant == 'Some':
                self.expr(f[2].fields[0].inner)
            self.w(']')
        elif k == 'ArraySlice':
            self.expr(f[1].inner); self.w('[')
            if f[2].variant == 'Some':
                self.expr(f[2].fields[0].inner)
            self.w(':')
            if f[3].variant == 'Some':
                self.expr(f[3].fields[0].inner)
            self.w(']')
        elif k == 'BoolLiteral':
            self.w('true' if f[1] else 'false')
        elif k == 'NumberLiteral':
            self.w(self.s(f[1]) + ('e' + self.s(f[2]) if self.s(f[2]) else ''))
        elif k == 'RationalNumberLiteral':
            self.w(self.s(f[1]) + '.' + self.s(f[2]) + ('e' + self.s(f[3]) if self.s(f[3]) else ''))
        elif k == 'HexNumberLiteral':
            self.w(self.s(f[1]))
        elif k == 'AddressLiteral':
            self.w('address"' + self.s(f[1]) + '"')
        elif k == 'This':
            self.w('this')
        elif k == 'Type':
            self.type_(f[1])
        elif k == 'ArrayLiteral':
            self.w('[')
            for j, a in enumerate(f[1].items):
                if j:
                    self.w(', ')
                self.expr(a)
            self.w(']')
        elif k == 'List':
            self.param_list(f[1])
        elif k == 'Unit':
            self.expr(f[1].inner); self.w(' ' + UNITS[f[2].variant])
        else:
            raise PrintError('expression ' + k)

    def named_arg(self, a):
        self.mark(a.fields[0]); self.ident(a.fields[1]); self.w(': '); self.expr(a.fields[2])

    def type_(self, t):
        k = t.variant
        if k in TYPE_NAMES: self.w(TYPE_NAMES[k])
        elif k == 'Int': self.w('int%d' % t.fields[0].v)
        elif k == 'Uint': self.w('uint%d' % t.fields[0].v)
        elif k == 'Bytes': self.w('bytes%d' % t.fields[0].v)
        elif k == 'Mapping':
            self.mark(t.fields[0])
            self.w('mapping('); self.expr(t.fields[1].inner); self.w(' => '); self.expr(t.fields[2].inner); self.w(')')
        elif k == 'Function':
            self.w('function')
            self.param_list(t.fields[0])
            for a in t.fields[1].items:
                self.w(' '); self.fattr(a)
            if t.fields[2].variant == 'Some':
                self.w(' returns ')
                self.param_list(t.fields[2].fields[0].fields[0])
        else:
            raise PrintError('type ' + k)

    def param(self, p):
        self.mark(p.fields[0])
        self.expr(p.fields[1])
        if p.fields[2].variant == 'Some':
            self.w(' ')
            sl = p.fields[2].fields[0]
            self.mark(sl.fields[0])
            self.w(sl.variant.lower())
        if p.fields[3].variant == 'Some':
            self.w(' ')
            self.ident(p.fields[3].fields[0])

    def param_list(self, plist):
        self.w('(')
        wrap = self.wrap_params and len(plist.items) > 1
        for j, t in enumerate(plist.items):
            if j:
                self.w(',' if wrap else ', ')
            if wrap:
                self.depth += 2; self.line(); self.depth -= 2
            self.mark(t.fields[0])
            if t.fields[1].variant == 'Some':
                self.param(t.fields[1].fields[0])
        if wrap:
            self.line()
        self.w(')')

    # ---- statements
    def stmt(self, s, inline=False):
        k, f = s.variant, s.fields
        if not inline:
            self.line()
        self.mark(f[0])
        if k == 'Block':
            self.w('unchecked {' if f[1] else '{')
            self.depth += 1
            for st in f[2].items:
                self.stmt(st)
            self.depth -= 1
            self.line()
            self.w('}')
        elif k == 'Args':
            self.w('{')
            for j, a in enumerate(f[1].items):
                if j:
                    self.w(', ')
                self.named_arg(a)
            self.w('}')
        elif k == 'Expression':
            self.expr(f[1]); self.w(';')
        elif k == 'VariableDefinition':
            self.vardecl(f[1])
            if f[2].variant == 'Some':
                self.w(' = '); self.expr(f[2].fields[0])
            self.w(';')
        elif k == 'If':
            self.w('if ('); self.expr(f[1]); self.w(') ')
            self.stmt(f[2].inner, inline=True)
            if f[3].variant == 'Some':
                self.w(' else ')
                self.stmt(f[3].fields[0].inner, inline=True)
        elif k == 'While':
            self.w('while ('); self.expr(f[1]); self.w(') '); self.stmt(f[2].inner, inline=True)
        elif k == 'DoWhile':
            self.w('do '); self.stmt(f[1].inner, inline=True); self.w(' while ('); self.expr(f[2]); self.w(');')
        elif k == 'For':
            self.w('for (')
            if f[1].variant == 'Some':
                self.simple(f[1].fields[0].inner)
            self.w('; ')
            if f[2].variant == 'Some':
                self.expr(f[2].fields[0].inner)
            self.w('; ')
            if f[3].variant == 'Some':
                self.simple(f[3].fields[0].inner)
            self.w(')')
            if f[4].variant == 'Some':
                self.w(' '); self.stmt(f[4].fields[0].inner, inline=True)
            else:
                self.w(';')
        elif k == 'Return':
            self.w('return')
            if f[1].variant == 'Some':
                self.w(' '); self.expr(f[1].fields[0])
            self.w(';')
        elif k == 'Continue': self.w('continue;')
        elif k == 'Break': self.w('break;')
        elif k == 'Emit':
            self.w('emit '); self.expr(f[1]); self.w(';')
        elif k == 'Revert':
            self.w('revert')
            if f[1].variant == 'Some':
                self.w(' '); self.idpath(f[1].fields[0])
            self.w('(')
            for j, a in enumerate(f[2].items):
                if j:
                    self.w(', ')
                self.expr(a)
            self.w(');')
        elif k == 'RevertNamedArgs':
            self.w('revert')
            if f[1].variant == 'Some':
                self.w(' '); self.idpath(f[1].fields[0])
            self.w('({')
            for j, a in enumerate(f[2].items):
                if j:
                    self.w(', ')
                self.named_arg(a)
            self.w('});')
        elif k == 'Try':
            self.w('try '); self.expr(f[1])
            if f[2].variant == 'Some':
                pl, blk = f[2].fields[0].fields
                self.w(' returns '); self.param_list(pl); self.w(' '); self.stmt(blk.inner, inline=True)
            for c in f[3].items:
                self.w(' ')
                self.mark(c.fields[0])
                self.w('catch ')
                if c.variant == 'Simple':
                    if c.fields[1].variant == 'Some':
                        self.w('('); self.param(c.fields[1].fields[0]); self.w(') ')
                    self.stmt(c.fields[2], inline=True)
                else:
                    self.ident(c.fields[1]); self.w('('); self.param(c.fields[2]); self.w(') ')
                    self.stmt(c.fields[3], inline=True)
        elif k == 'Assembly':
            self.w('assembly { }')
        else:
            raise PrintError('statement ' + k)

    def simple(self, s):
        """SimpleStatement inside a `for` header (no trailing semicolon)"""
        self.mark(s.fields[0])
        if s.variant == 'Expression':
            self.expr(s.fields[1])
        elif s.variant == 'VariableDefinition':
            self.vardecl(s.fields[1])
            if s.fields[2].variant == 'Some':
                self.w(' = '); self.expr(s.fields[2].fields[0])
        else:
            raise PrintError('simple statement ' + s.variant)

    def vardecl(self, d):
        self.mark(d.fields[0])
        self.expr(d.fields[1])
        if d.fields[2].variant == 'Some':
            sl = d.fields[2].fields[0]
            self.w(' '); self.mark(sl.fields[0]); self.w(sl.variant.lower())
        self.w(' '); self.ident(d.fields[3])

    # ---- definitions
    def fattr(self, a):
        k = a.variant
        if k == 'Visibility':
            v = a.fields[0]
            if v.fields[0].variant == 'Some':
                self.mark(v.fields[0].fields[0])
            self.w(v.variant.lower())
        elif k == 'Mutability':
            self.mark(a.fields[0].fields[0]); self.w(a.fields[0].variant.lower())
        elif k == 'Virtual':
            self.mark(a.fields[0]); self.w('virtual')
        elif k == 'Immutable':
            self.mark(a.fields[0]); self.w('immutable')
        elif k == 'Override':
            self.mark(a.fields[0]); self.w('override')
        elif k == 'BaseOrModifier':
            self.mark(a.fields[0]); self.base(a.fields[1])
        else:
            raise PrintError('function attribute ' + k)

    def base(self, b):
        self.mark(b.fields[0])
        self.idpath(b.fields[1])
        if b.fields[2].variant == 'Some':
            self.w('(')
            for j, x in enumerate(b.fields[2].fields[0].items):
                if j:
                    self.w(', ')
                self.expr(x)
            self.w(')')

    def function(self, d):
        f = d.fields
        self.line()
        self.mark(f[0])
        ty = f[1].variant
        if ty == 'Function':
            self.w('function ')
        elif ty == 'Modifier':
            self.w('modifier ')
        else:
            self.w(ty.lower())
        self.mark(f[3])
        if f[2].variant == 'Some':
            self.ident(f[2].fields[0])
        if not (ty == 'Modifier' and not f[4].items and False):
            self.param_list(f[4])
        for a in f[5].items:
            self.w(' '); self.fattr(a)
        if f[7].items:
            self.w(' returns '); self.param_list(f[7])
        if f[8].variant == 'Some':
            self.w(' '); self.stmt(f[8].fields[0], inline=True)
        else:
            self.w(';')

    def variable(self, d):
        f = d.fields
        self.line()
        self.mark(f[0])
        self.expr(f[1])
        for a in f[2].items:
            self.w(' ')
            k = a.variant
            if k == 'Visibility':
                v = a.fields[0]
                if v.fields[0].variant == 'Some':
                    self.mark(v.fields[0].fields[0])
                self.w(v.variant.lower())
            else:
                self.mark(a.fields[0]); self.w(k.lower())
        self.w(' '); self.ident(f[3])
        if f[4].variant == 'Some':
            self.w(' = '); self.expr(f[4].fields[0])
        self.w(';')

    def struct(self, d):
        f = d.fields
        self.line(); self.mark(f[0]); self.w('struct '); self.ident(f[1]); self.w(' {')
        self.depth += 1
        for fd in f[2].items:
            self.line(); self.vardecl(fd); self.w(';')
        self.depth -= 1
        self.line(); self.w('}')

    def using(self, d):
        f = d.fields
        self.line(); self.mark(f[0]); self.w('using ')
        if f[1].variant == 'Library':
            self.idpath(f[1].fields[0])
        else:
            self.w('{')
            for j, p in enumerate(f[1].fields[0].items):
                if j:
                    self.w(', ')
                self.idpath(p)
            self.w('}')
        self.w(' for ')
        if f[2].variant == 'Some':
            self.expr(f[2].fields[0])
        else:
            self.w('*')
        self.w(';')

    def event(self, d):
        f = d.fields
        self.line(); self.mark(f[0]); self.w('event '); self.ident(f[1]); self.w('(')
        for j, p in enumerate(f[2].items):
            if j:
                self.w(', ')
            self.mark(p.fields[1]); self.expr(p.fields[0])
            if p.fields[2]:
                self.w(' indexed')
            if p.fields[3].variant == 'Some':
                self.w(' '); self.ident(p.fields[3].fields[0])
        self.w(');')

    def error_def(self, d):
        f = d.fields
        self.line(); self.mark(f[0]); self.w('error '); self.ident(f[1]); self.w('(')
        for j, p in enumerate(f[2].items):
            if j:
                self.w(', ')
            self.mark(p.fields[1]); self.expr(p.fields[0])
            if p.fields[2].variant == 'Some':
                self.w(' '); self.ident(p.fields[2].fields[0])
        self.w(');')

    def enum(self, d):
        f = d.fields
        self.line(); self.mark(f[0]); self.w('enum '); self.ident(f[1]); self.w(' {')
        for j, v in enumerate(f[2].items):
            if j:
                self.w(', ')
            self.ident(v)
        self.w('}')

    def typedef(self, d):
        f = d.fields
        self.line(); self.mark(f[0]); self.w('type '); self.ident(f[1]); self.w(' is '); self.expr(f[2]); self.w(';')

    def part(self, p):
        k = p.variant
        if k == 'StraySemicolon':
            self.line(); self.mark(p.fields[0]); self.w(';'); return
        d = p.fields[0].inner if isinstance(p.fields[0], BoxV) else p.fields[0]
        if k == 'FunctionDefinition': self.function(d)
        elif k == 'VariableDefinition': self.variable(d)
        elif k == 'StructDefinition': self.struct(d)
        elif k == 'Using': self.using(d)
        elif k == 'EventDefinition': self.event(d)
        elif k == 'ErrorDefinition': self.error_def(d)
        elif k == 'EnumDefinition': self.enum(d)
        elif k == 'TypeDefinition': self.typedef(d)
        elif k == 'ContractDefinition': self.contract(d)
        elif k == 'PragmaDirective':
            self.line(); self.mark(p.fields[0]); self.w('pragma '); self.ident(p.fields[1]); self.w(' ')
            self.mark(p.fields[2].fields[0]); self.w(self.s(p.fields[2].fields[2])); self.w(';')
        else:
            raise PrintError('part ' + k)

    def contract(self, d):
        f = d.fields
        self.line()
        self.mark(f[0]); self.mark(f[1].fields[0])
        self.w({'Contract': 'contract', 'Abstract': 'abstract contract', 'Interface': 'interface',
                'Library': 'library'}[f[1].variant] + ' ')
        self.ident(f[2])
        for j, b in enumerate(f[3].items):
            self.w(' is ' if j == 0 else ', ')
            self.base(b)
        self.w(' {')
        self.depth += 1
        for p in f[4].items:
            self.part(p)
        self.depth -= 1
        self.line(); self.w('}')

    def source_unit(self, su):
        if self.lead:
            self.w(self.lead)
        for p in su.fields[0].items:
            self.part(p)
        self.w(self.nl)
        return self.text()


def print_source(su, with_ends=False, **kw):
    p = Printer(**kw)
    text = p.source_unit(su)
    if with_ends:
        return text, p.starts, p.ends
    return text, p.starts


# ================================================================================================ Rust {:?} rendering
def rust_str_debug(s):
    out = ['"']
    for ch in s:
        if ch == '"': out.append('\\"')
        elif ch == '\\': out.append('\\\\')
        elif ch == '\n': out.append('\\n')
        elif ch == '\t': out.append('\\t')
        elif ch == '\r': out.append('\\r')
        else: out.append(ch)
    out.append('"')
    return ''.join(out)


def debug_render(v, types):
    """`{:?}` of a concrete pt value with every Loc printed as `L`"""
    if isinstance(v, Adt):
        if v.ty == 'Loc':
            return 'L'
        if v.variant is not None:
            _, _, names = types.variant(v.ty, v.variant) if v.ty in types.enums else (None, None, None)
            head = v.variant
        else:
            names = types.structs[v.ty][0] if v.ty in types.structs else None
            head = v.ty
        if not v.fields:
            return head
        if names:
            return '%s { %s }' % (head, ', '.join('%s: %s' % (n, debug_render(f, types)) for n, f in zip(names, v.fields)))
        return '%s(%s)' % (head, ', '.join(debug_render(f, types) for f in v.fields))
    if isinstance(v, BoxV):
        return debug_render(v.inner, types)
    if isinstance(v, VecV):
        return '[%s]' % ', '.join(debug_render(f, types) for f in v.items)
    if isinstance(v, Tuple):
        return '(%s)' % ', '.join(debug_render(f, types) for f in v.fields)
    if isinstance(v, Str):
        return rust_str_debug(v.v)
    if isinstance(v, Int):
        return str(v.v)
    if isinstance(v, bool):
        return 'true' if v else 'false'
    raise PrintError('debug of %r' % (v,))


_LOC_RE = re.compile(r'File\(\d+, \d+, \d+\)')


def strip_locs(debug_text):
    return _LOC_RE.sub('L', debug_text)
