"""Front end for the textual MIR printed by `rustc -Zunpretty=mir` (rustc 1.97.0-nightly).

Parses function items, promoted constants, local declarations and basic blocks into plain tuples.
Anything not recognised becomes ('unsupported', text); the engine raises Unsupported when it *executes* such a
statement, so unknown forms in code that a check never reaches are harmless.
"""
import re

INT_TYPES = {'u8': (8, False), 'u16': (16, False), 'u32': (32, False), 'u64': (64, False), 'u128': (128, False),
             'usize': (64, False), 'i8': (8, True), 'i16': (16, True), 'i32': (32, True), 'i64': (64, True),
             'i128': (128, True), 'isize': (64, True), 'char': (32, False)}

OPEN, CLOSE = '([{<', ')]}>'


def skip_string(s, i):
    """s[i] == '"'; -> index after the closing quote"""
    i += 1
    n = len(s)
    while i < n:
        c = s[i]
        if c == '\\':
            i += 2
            continue
        if c == '"':
            return i + 1
        i += 1
    return n


_CHAR_RE = re.compile(r"'(\\u\{[0-9a-fA-F]+\}|\\x[0-9a-fA-F]{2}|\\.|[^\\'])'")


def split_top(s, sep=','):
    """split at top-level separators, aware of brackets, string and char literals, `->` and `=>`"""
    out, depth, cur, i, n = [], 0, [], 0, len(s)
    start = 0
    while i < n:
        c = s[i]
        if c == '"':
            j = skip_string(s, i)
            i = j
            continue
        if c == "'":
            m = _CHAR_RE.match(s, i)
            if m:
                i = m.end()
                continue
            i += 1
            continue
        if c in OPEN:
            depth += 1
        elif c in CLOSE:
            if c == '>' and i > 0 and s[i - 1] in '-=':
                pass
            else:
                depth -= 1
        elif c == sep and depth == 0:
            out.append(s[start:i])
            start = i + 1
        i += 1
    tail = s[start:]
    if tail.strip():
        out.append(tail)
    return [x.strip() for x in out]


def match_close(s, i):
    """s[i] is an opening bracket; -> index of the matching closing bracket"""
    depth, n = 0, len(s)
    while i < n:
        c = s[i]
        if c == '"':
            i = skip_string(s, i)
            continue
        if c == "'":
            m = _CHAR_RE.match(s, i)
            if m:
                i = m.end()
                continue
        if c in OPEN:
            depth += 1
        elif c in CLOSE and not (c == '>' and s[i - 1] in '-='):
            depth -= 1
            if depth == 0:
                return i
        i += 1
    raise ValueError('unbalanced: ' + s[:80])


def unescape(body):
    """Rust string literal body -> python str"""
    out, i, n = [], 0, len(body)
    while i < n:
        c = body[i]
        if c != '\\':
            out.append(c)
            i += 1
            continue
        d = body[i + 1]
        if d == 'n': out.append('\n'); i += 2
        elif d == 't': out.append('\t'); i += 2
        elif d == 'r': out.append('\r'); i += 2
        elif d == '0': out.append('\0'); i += 2
        elif d == '\\': out.append('\\'); i += 2
        elif d == '"': out.append('"'); i += 2
        elif d == "'": out.append("'"); i += 2
        elif d == 'x': out.append(chr(int(body[i + 2:i + 4], 16))); i += 4
        elif d == 'u':
            j = body.index('}', i)
            out.append(chr(int(body[i + 3:j], 16))); i = j + 1
        else:
            out.append(d); i += 2
    return ''.join(out)


def unescape_bytes(body):
    out, i, n = bytearray(), 0, len(body)
    while i < n:
        c = body[i]
        if c != '\\':
            out += c.encode('utf-8'); i += 1; continue
        d = body[i + 1]
        if d == 'x': out.append(int(body[i + 2:i + 4], 16)); i += 4
        elif d == 'n': out.append(10); i += 2
        elif d == 't': out.append(9); i += 2
        elif d == 'r': out.append(13); i += 2
        elif d == '0': out.append(0); i += 2
        elif d == '\\': out.append(92); i += 2
        elif d == '"': out.append(34); i += 2
        elif d == "'": out.append(39); i += 2
        else: raise ValueError('byte escape ' + body[i:i + 4])
    return bytes(out)


# ------------------------------------------------------------------------------------------------ places
def parse_place(s):
    s = s.strip()
    pl, i = _place(s, 0)
    if i != len(s):
        raise ValueError('trailing text in place: %r' % s)
    return pl


def _place(s, i):
    if s[i] == '_':
        m = re.compile(r'_\d+').match(s, i)
        base, projs, i = m.group(0), [], m.end()
    elif s.startswith('(*', i):
        (base, projs), i = _place(s, i + 2)
        assert s[i] == ')', s
        projs = projs + [('deref',)]
        i += 1
    elif s[i] == '(':
        close = match_close(s, i)
        (base, projs), j = _place(s, i + 1)
        rest = s[j:close]
        m = re.match(r'^ as (\w+)$', rest)
        if m:
            projs = projs + [('down', m.group(1))]
        else:
            m = re.match(r'^\.(\d+): (.*)$', rest, re.S)
            if not m:
                raise ValueError('place projection %r in %r' % (rest, s))
            projs = projs + [('field', int(m.group(1)), m.group(2))]
        i = close + 1
    else:
        raise ValueError('place %r' % s[i:i + 40])
    while i < len(s) and s[i] == '[':
        close = match_close(s, i)
        inner = s[i + 1:close]
        m = re.match(r'^(_\d+)$', inner)
        if m:
            projs = projs + [('index', m.group(1))]
        else:
            m = re.match(r'^(-?)(\d+) of (\d+)$', inner)
            if m:
                projs = projs + [('constindex', int(m.group(2)), bool(m.group(1)), int(m.group(3)))]
            else:
                projs = projs + [('unsupported_index', inner)]
        i = close + 1
    return (base, projs), i


# ------------------------------------------------------------------------------------------------ operands
_INT_CONST = re.compile(r'^const (-?\d+)_(u8|u16|u32|u64|u128|usize|i8|i16|i32|i64|i128|isize)$')


def parse_operand(o):
    o = o.strip()
    if o.startswith('copy '):
        return ('copy', parse_place(o[5:]))
    if o.startswith('move '):
        return ('move', parse_place(o[5:]))
    if o.startswith('no_retag '):
        return parse_operand(o[9:])
    if o.startswith('const '):
        m = _INT_CONST.match(o)
        if m:
            return ('const', ('int', int(m.group(1)), m.group(2)))
        body = o[6:]
        if body == 'true': return ('const', ('bool', True))
        if body == 'false': return ('const', ('bool', False))
        if body == '()': return ('const', ('unit',))
        if body.startswith('"') and body.endswith('"'):
            return ('const', ('str', unescape(body[1:-1])))
        if body.startswith('b"') and body.endswith('"'):
            return ('const', ('bytes', unescape_bytes(body[2:-1])))
        m = _CHAR_RE.match(body)
        if m and m.end() == len(body):
            return ('const', ('char', unescape(body[1:-1])))
        m = re.match(r'^(.*)::promoted\[(\d+)\]$', body)
        if m:
            return ('const', ('promoted', body))
        m = re.match(r'^\{(alloc\d+)(?:\+0x[0-9a-f]+)?: (.*)\}$', body)
        if m:
            return ('const', ('alloc', m.group(1), m.group(2)))   # address of a static
        m = re.match(r'^(-?[\d.]+(?:e-?\d+)?)(f32|f64)$', body)
        if m:
            return ('const', ('float', body))
        return ('const', ('item', body))
    if re.match(r"^[A-Za-z<][\w:<>, &'\[\]()-]*$", o) and not re.match(r'^_\d+', o):
        return ('const', ('item', o))         # a function item passed by name (`iter.all(is_definition_target)`)
    raise ValueError('operand %r' % o)


BINOPS = {'Add', 'Sub', 'Mul', 'Div', 'Rem', 'BitXor', 'BitAnd', 'BitOr', 'Shl', 'Shr', 'Eq', 'Lt', 'Le', 'Ne', 'Ge',
          'Gt', 'Cmp', 'Offset', 'AddWithOverflow', 'SubWithOverflow', 'MulWithOverflow', 'AddUnchecked',
          'SubUnchecked', 'MulUnchecked', 'ShlUnchecked', 'ShrUnchecked'}
UNOPS = {'Not', 'Neg', 'PtrMetadata'}


def parse_rvalue(rv):
    rv = rv.strip()
    if rv.startswith(('copy ', 'move ', 'const ', 'no_retag ')):
        # cast?  `OPERAND as TYPE (Kind)`
        if rv.endswith(')') and ' as ' in rv and not rv.startswith(('const "', 'const b"')):
            k = rv.rfind(' (')
            kind = rv[k + 2:-1]
            head = rv[:k]
            # find the top-level ` as ` that separates operand and type: operand is a place/const without
            # top-level spaces after its first token, so search from the left at depth 0
            depth, i, n, pos = 0, 0, len(head), -1
            while i < n:
                c = head[i]
                if c in OPEN: depth += 1
                elif c in CLOSE and not (c == '>' and head[i - 1] in '-='): depth -= 1
                elif depth == 0 and head.startswith(' as ', i):
                    pos = i
                    break
                i += 1
            if pos > 0 and re.match(r'^[A-Za-z]', kind):
                return ('cast', parse_operand(head[:pos]), head[pos + 4:], kind)
        return ('use', parse_operand(rv))
    # a function item coerced to a function pointer: `path::to::f as for<'a> fn(..) -> T (PointerCoercion(ReifyFnPointer(Safe), Implicit))`
    m = re.match(r"^([A-Za-z_][\w:<>, &']*?) as (.*) \((PointerCoercion\(ReifyFnPointer.*)\)$", rv, re.S)
    if m and not rv.startswith(('Add(', 'Sub(')):
        return ('cast', ('const', ('item', m.group(1))), m.group(2), m.group(3))
    if rv.startswith('&raw const '): return ('rawptr', False, parse_place(rv[11:]))
    if rv.startswith('&raw mut '): return ('rawptr', True, parse_place(rv[9:]))
    if rv.startswith('&mut '): return ('ref', True, parse_place(rv[5:]))
    if rv.startswith('&'):
        body = rv[1:]
        if body.startswith('fake shallow '): body = body[13:]
        return ('ref', False, parse_place(body))
    m = re.match(r'^(\w+)\((.*)\)$', rv, re.S)
    if m:
        name = m.group(1)
        if name in BINOPS:
            a, b = split_top(m.group(2))
            return ('bin', name, parse_operand(a), parse_operand(b))
        if name in UNOPS:
            return ('un', name, parse_operand(m.group(2)))
        if name == 'discriminant': return ('discr', parse_place(m.group(2)))
        if name == 'Len': return ('len', parse_place(m.group(2)))
        if name == 'CopyForDeref': return ('use', ('copy', parse_place(m.group(2))))
        if name in ('ShallowInitBox',): return ('unsupported', rv)
    if rv.startswith('['):
        close = match_close(rv, 0)
        inner = rv[1:close]
        parts = split_top(inner, ';')
        if len(parts) == 2 and close == len(rv) - 1:
            return ('repeat', parse_operand(parts[0]), parts[1])
        return ('array', [parse_operand(x) for x in split_top(inner)])
    if rv.startswith('('):
        close = match_close(rv, 0)
        if close == len(rv) - 1:
            return ('tuple', [parse_operand(x) for x in split_top(rv[1:-1])])
    if rv.startswith('{closure@') or rv.startswith('{coroutine@'):
        # {closure@src/x.rs:1:2: 3:4}  or  {closure@...} { field: op, .. }
        close = match_close(rv, 0)
        name = rv[:close + 1]
        rest = rv[close + 1:].strip()
        caps = []
        if rest.startswith('{'):
            for f in split_top(rest[1:-1]):
                caps.append(parse_operand(f.split(': ', 1)[1]))
        return ('closure', name, caps)
    # aggregates:  Path::Variant(ops)  Path::Variant  Path { f: op }  Path::Variant { f: op }
    if re.match(r'^[A-Za-z_<]', rv):
        adepth, i, n, cut = 0, 0, len(rv), -1
        while i < n:
            c = rv[i]
            if c == '<': adepth += 1
            elif c == '>' and rv[i - 1] not in '-=': adepth -= 1
            elif adepth == 0 and c in '({':
                cut = i
                break
            elif adepth > 0 and c in '([':
                i = match_close(rv, i)
            i += 1
        if cut < 0:
            return ('agg', rv, 'unit', [])
        path, body = rv[:cut].strip(), rv[cut:]
        if match_close(body, 0) == len(body) - 1:
            if body.startswith('('):
                return ('agg', path, 'tuple', [parse_operand(x) for x in split_top(body[1:-1])])
            fields = []
            for f in split_top(body[1:-1]):
                k, v = f.split(': ', 1)
                fields.append((k.strip(), parse_operand(v)))
            return ('agg', path, 'struct', fields)
    return ('unsupported', rv)


# ------------------------------------------------------------------------------------------------ statements
def _targets(s):
    """`[return: bb1, unwind: bb2]` / `[success: bb3, unwind continue]` -> normal successor"""
    m = re.search(r'(?:return|success): (bb\d+)', s)
    return m.group(1) if m else None


def parse_statement(st):
    if st == 'return': return ('return',)
    if st == 'unreachable': return ('unreachable',)
    if st == 'resume' or st.startswith('resume'): return ('resume',)
    if st.startswith('unwind '): return ('resume',)
    if st == 'nop' or st.startswith(('StorageLive(', 'StorageDead(', 'Retag(', 'FakeRead(', 'PlaceMention(',
                                      'AscribeUserType(', 'Coverage', 'ConstEvalCounter', 'BackwardIncompatibleDropHint')):
        return ('nop',)
    m = re.match(r'^goto -> (bb\d+)$', st)
    if m: return ('goto', m.group(1))
    if st.startswith('switchInt('):
        close = match_close(st, 9)
        op = parse_operand(st[10:close])
        tg = st[close + 1:].strip()
        assert tg.startswith('-> ['), st
        arms, other = [], None
        for t in tg[4:-1].split(','):
            k, v = t.strip().split(': ')
            if k == 'otherwise': other = v
            else: arms.append((int(k), v))
        return ('switch', op, arms, other)
    if st.startswith('drop('):
        close = match_close(st, 4)
        return ('drop', parse_place(st[5:close]), _targets(st[close:]))
    if st.startswith('assert('):
        close = match_close(st, 6)
        parts = split_top(st[7:close])
        cond = parts[0]
        neg = cond.startswith('!')
        msg = parts[1] if len(parts) > 1 else ''
        return ('assert', parse_operand(cond[1:] if neg else cond), neg, msg, _targets(st[close:]))
    m = re.match(r'^discriminant\((.*)\) = (\d+)$', st)
    if m: return ('setdiscr', parse_place(m.group(1)), int(m.group(2)))
    m = re.match(r'^Deinit\((.*)\)$', st)
    if m: return ('nop',)
    if st.startswith('assume('): return ('nop',)
    # call terminator?
    k = st.rfind(' -> [return: ')
    k2 = st.rfind(' -> unwind ')
    if k < 0 and k2 > 0 and st.endswith(('continue', 'unreachable', 'terminate(abi)', 'terminate(cleanup)')) or \
            (k2 > 0 and re.search(r' -> unwind: bb\d+$', st)):
        k = k2 if k < 0 else k
    if k < 0:
        m = re.search(r' -> (bb\d+)$', st)
        if m and not st.startswith('goto'):
            k = m.start()
    if k > 0:
        head, tail = st[:k], st[k:]
        eq = _top_assign(head)
        dest = parse_place(head[:eq]) if eq >= 0 else None
        call = head[eq + 3:] if eq >= 0 else head
        call = call.strip()
        assert call.endswith(')'), st
        # arguments = last balanced paren group
        depth, i = 0, len(call) - 1
        # scan backwards, skipping string literals
        i = _open_of_last_group(call)
        callee, args = call[:i].strip(), call[i + 1:-1]
        return ('call', dest, callee, [parse_operand(a) for a in split_top(args)], _targets(tail))
    eq = _top_assign(st)
    if eq >= 0:
        try:
            return ('assign', parse_place(st[:eq]), parse_rvalue(st[eq + 3:]))
        except (ValueError, AssertionError) as e:
            return ('unsupported', st + '   [' + str(e)[:80] + ']')
    return ('unsupported', st)


def _top_assign(s):
    """index of the first top-level ' = ' (outside brackets and strings), or -1"""
    depth, i, n = 0, 0, len(s)
    while i < n:
        c = s[i]
        if c == '"':
            i = skip_string(s, i); continue
        if c in OPEN: depth += 1
        elif c in CLOSE and not (c == '>' and s[i - 1] in '-='): depth -= 1
        elif depth == 0 and s.startswith(' = ', i): return i
        i += 1
    return -1


def _open_of_last_group(call):
    """call ends with ')': index of the '(' that opens that last group (string-literal aware, forward scan)"""
    stack, i, n, last_open = [], 0, len(call), -1
    opens_at_depth0 = []
    while i < n:
        c = call[i]
        if c == '"':
            i = skip_string(call, i); continue
        if c == "'":
            m = _CHAR_RE.match(call, i)
            if m:
                i = m.end(); continue
        if c in OPEN:
            stack.append((c, i))
        elif c in CLOSE and not (c == '>' and call[i - 1] in '-='):
            o, j = stack.pop()
            if i == n - 1:
                return j
        i += 1
    raise ValueError('call args: ' + call[:100])


# ------------------------------------------------------------------------------------------------ items
class Func:
    __slots__ = ('name', 'params', 'ret', 'locals', 'blocks', 'kind', 'span')

    def __init__(self, name, params, ret, kind):
        self.name, self.params, self.ret, self.kind = name, params, ret, kind
        self.locals, self.blocks = {}, {}

    def __repr__(self):
        return '<Func %s>' % self.name


_ALLOC = re.compile(r'^(alloc\d+) \(static: ([^,)]+)')
_HDR_FN = re.compile(r'^fn (.*?)\((.*)\) -> (.*) \{$')
_HDR_CONST = re.compile(r'^(?:const|static|static mut) (.*?): (.*) = \{$')
_HDR_PROMOTED = re.compile(r'^const (.*::promoted\[\d+\]): (.*) = \{$')
_HDR_CONST_INLINE = re.compile(r'^const ([A-Za-z_][\w:]*): (.*?) = (const .*);$')
_LET = re.compile(r'^\s*let (?:mut )?(_\d+): (.*);$')
_BB = re.compile(r'^    (bb\d+)(?: \(cleanup\))?: \{$')


def parse_mir(text):
    """-> dict name -> [Func] (the dump prints some items twice, e.g. enum constructors)"""
    funcs = {}
    lines = text.split('\n')
    i, n = 0, len(lines)
    cur = None
    while i < n:
        line = lines[i]
        if cur is None:
            if line.startswith('alloc'):
                # `alloc1 (static: WALK_DEPTH, size: 8, align: 8) {`: which static an `{alloc1: &T}` operand refers to
                m = _ALLOC.match(line)
                if m:
                    tab = funcs.setdefault('__allocs__', [Func('__allocs__', [], '()', 'allocs')])[0]
                    tab.locals[m.group(1)] = m.group(2).strip()
            if line.startswith('fn '):
                m = _HDR_FN.match(line)
                if m:
                    params = []
                    for p in split_top(m.group(2)):
                        if p:
                            a, b = p.split(': ', 1)
                            params.append((a.strip(), b.strip()))
                    cur = Func(m.group(1).strip(), params, m.group(3).strip(), 'fn')
                    for a, b in params:
                        cur.locals[a] = b
            elif line.startswith(('const ', 'static ')):
                m = _HDR_PROMOTED.match(line) or _HDR_CONST.match(line)
                if m:
                    cur = Func(m.group(1).strip(), [], m.group(2).strip(), 'static' if line.startswith('static ') else 'const')
                else:
                    m = _HDR_CONST_INLINE.match(line)
                    if m:
                        # `const NAME: T = const VALUE;` — a named constant with a literal value
                        f = Func(m.group(1).strip(), [], m.group(2).strip(), 'const')
                        try:
                            f.blocks['bb0'] = [('assign', ('_0', []), ('use', parse_operand(m.group(3)))), ('return',)]
                        except Exception as ex:
                            f.blocks['bb0'] = [('unsupported', line)]
                        funcs.setdefault(f.name, []).append(f)
            i += 1
            continue
        if line == '}':
            funcs.setdefault(cur.name, []).append(cur)
            cur = None
            i += 1
            continue
        m = _BB.match(line)
        if m:
            name = m.group(1)
            body = []
            i += 1
            while lines[i] != '    }':
                s = lines[i].strip()
                if s:
                    try:
                        body.append(parse_statement(s[:-1] if s.endswith(';') else s))
                    except Exception as ex:          # an unknown form is only a problem if it is executed
                        body.append(('unsupported', '%s   [%s]' % (s[:200], str(ex)[:80])))
                i += 1
            cur.blocks[name] = body
            i += 1
            continue
        m = _LET.match(line)
        if m:
            cur.locals[m.group(1)] = m.group(2)
        i += 1
    return funcs


if __name__ == '__main__':
    import sys, collections, time
    t = time.time()
    fs = parse_mir(open(sys.argv[1]).read())
    c = collections.Counter()
    uns = []
    for name, fl in fs.items():
        for f in fl:
            for bb, body in f.blocks.items():
                for st in body:
                    c[st[0]] += 1
                    if st[0] == 'unsupported': uns.append((name, st[1]))
                    if st[0] == 'assign':
                        c['rv:' + st[2][0]] += 1
                        if st[2][0] == 'unsupported': uns.append((name, st[2][1]))
    print(len(fs), 'items', '%.1fs' % (time.time() - t))
    for k, v in c.most_common(): print(v, k)
    for u in uns[:40]: print('UNSUPPORTED', u[0][:50], '|', u[1][:200])
