"""Runs jobs on the native replay runner (the REAL solstat code compiled from the current tree)."""
import os
import shutil
import subprocess
import tempfile


def hexs(s):
    return s.encode('utf-8').hex()


def unhex(h):
    return bytes.fromhex(h).decode('utf-8')


class Native:
    def __init__(self, world):
        self.world = world
        self.dir = tempfile.mkdtemp(prefix='solstat-verif-native-')
        self.n = 0
        self.jobs_run = 0

    def close(self):
        shutil.rmtree(self.dir, ignore_errors=True)

    def available(self, job):
        """False if the runner job had to be compiled out because the helper it calls changed its signature (prepare.py)"""
        import json
        f = os.path.join(self.world.build, 'unavailable_jobs.json')
        if not os.path.exists(f):
            return True
        return ('no_%s_job' % job) not in json.load(open(f))

    def file(self, text, name=None):
        self.n += 1
        p = os.path.join(self.dir, name or ('f%d.sol' % self.n))
        with open(p, 'w', encoding='utf-8', newline='') as f:
            f.write(text)
        return p

    def run(self, jobs, binary='runner', timeout=600):
        """jobs: list of lists of str -> list of result field lists (['OK', ...] / ['PANIC', msg] / ...)"""
        if not jobs:
            return []
        jf = os.path.join(self.dir, 'jobs%d.txt' % self.n)
        self.n += 1
        with open(jf, 'w', encoding='utf-8') as f:
            for j in jobs:
                assert all('\t' not in x and '\n' not in x for x in j), j
                f.write('\t'.join(j) + '\n')
        p = subprocess.run([os.path.join(self.world.build, binary), jf], stdout=subprocess.PIPE,
                           stderr=subprocess.PIPE, text=True, timeout=timeout)
        out = {}
        for line in p.stdout.split('\n'):
            if not line:
                continue
            parts = line.split('\t')
            out[int(parts[0])] = parts[1:]
        res = []
        for i in range(len(jobs)):
            r = out.get(i, ['CRASH', p.stderr[-300:]])
            if r[0] == 'PANIC':
                r = ['PANIC', unhex(r[1])]
            res.append(r)
        self.jobs_run += len(jobs)
        return res
