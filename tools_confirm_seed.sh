#!/bin/bash
# usage: tools_confirm_seed.sh <seed id> <property> <worktree>   — confirms a seeded change in its scratch worktree and stores it
id="$1"; prop="$2"; wt="$3"; out="/verif/seeded/$id"
set -u
cd "$wt" || exit 9
git checkout -q -- . 2>/dev/null
mkdir -p examples; for f in OUT/*.rs; do [ -f "$f" ] && cp "$f" examples/; done
demo=$(ls OUT/*.rs 2>/dev/null | head -1); demo=$(basename "${demo%.rs}")
export CARGO_NET_OFFLINE=true
if [ -n "$demo" ]; then run="cargo run --offline --quiet --example $demo"; else sh=$(ls OUT/*.sh | head -1); demo=$(basename "$sh"); mkdir -p examples; cp "$sh" examples/; run="eval cargo build --offline --quiet 2>/dev/null; bash examples/$demo"; fi
$run > /tmp/confirm_clean_$id.log 2>&1; clean=$?
git apply OUT/patch.diff || { echo "patch does not apply"; exit 9; }
cargo test --offline > /tmp/confirm_test_$id.log 2>&1; t=$?
passed=$(grep -c "test result: ok. 35 passed" /tmp/confirm_test_$id.log)
$run > /tmp/confirm_patched_$id.log 2>&1; patched=$?
git checkout -q -- src docs Solstat.toml README.md 2>/dev/null
echo "seed $id: demo on clean tree exit=$clean ; tests with patch exit=$t (35-passed lines: $passed) ; demo with patch exit=$patched"
if [ $clean -eq 0 ] && [ $t -eq 0 ] && [ "$passed" -ge 2 ] && [ $patched -ne 0 ]; then
  mkdir -p "$out"; cp OUT/patch.diff "$out/"; cp OUT/*.rs OUT/*.sh OUT/NOTES.md "$out/" 2>/dev/null
  python3 - "$id" "$prop" "$demo" "$clean" "$t" "$patched" <<'PY'
import json,sys
id,prop,demo,clean,t,patched=sys.argv[1:7]
notes=open('/verif/seeded/%s/NOTES.md'%id).read() if True else ''
json.dump({'id':id,'breaks_property':prop,'needs_to_manifest':'see NOTES.md (written by the independent sub-agent that crafted the change)',
 'confirmed_by':'tools_confirm_seed.sh in a scratch worktree of /repo',
 'what_was_run':{'demo on clean tree':'cargo run --offline --example %s -> exit %s'%(demo,clean),
                 'test suite with patch':'cargo test --offline -> exit %s, 35+35 passed'%t,
                 'demo with patch':'cargo run --offline --example %s -> exit %s'%(demo,patched)}},
 open('/verif/seeded/%s/meta.json'%id,'w'),indent=1)
PY
  echo CONFIRMED
else
  echo "NOT CONFIRMED"; tail -5 /tmp/confirm_clean_$id.log /tmp/confirm_patched_$id.log
fi
