#!/bin/bash
# runs every claimed quick check under several VERIF_SEED values on /repo as it is (evidence goes to a scratch directory)
cd /verif
export VERIF_EVIDENCE_DIR=/verif/.cache/evidence-sweep
for seed in "$@"; do
  for c in $(python3 -c "import json; print(' '.join(x['property_id'] for x in json.load(open('MANIFEST.json'))['checks']))"); do
    out=$(VERIF_SEED=$seed timeout 1800 ./check "$c" 2>&1); code=$?
    [ $code -ne 0 ] && echo "seed=$seed $c exit=$code :: $(echo "$out" | grep -a '^VIOLATION\|^BROKEN\|^  ' | head -3 | cut -c1-300)"
  done
  echo "seed $seed done"
done
