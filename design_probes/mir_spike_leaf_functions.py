#!/usr/bin/env python3-vt
"""Spike: parse rustc -Zunpretty=mir text and symbolically execute two leaf functions with z3.
Not framework code; only to de-risk the design (MIR grammar, forking, library contracts)."""
import re, sys, time
import z3

MIR = open(sys.argv[1]).read()

def split_functions(text):
    fns = {}
    for m in re.finditer(r'^fn ([^\n(]+)\((.*?)\) -> (.*?) \{\n(.*?)^\}\n', text, re.S | re.M):
        fns[m.group(1).strip()] = (m.group(2), m.group(3), m.group(4))
    return fns

FNS = split_functions(MIR)

def parse_body(body):
    blocks, cur = {}, None
    for line in body.split('\n'):
        s = line.strip()
        m = re.match(r'^(bb\d+)( \(cleanup\))?: \{$', s)
        if m:
            cur = m.group(1); blocks[cur] = []; continue
        if cur is None or s in ('', '}'):
            if s == '}' : cur = None if line.startswith('    }') and not line.startswith('     ') else cur
            continue
        blocks[cur].append(s.rstrip(';'))
    return blocks

class Panic(Exception): pass

class Path:
    """one symbolic path: path condition + frame"""
    def __init__(self, pc, env): self.pc, self.env = pc, env

WIDTH = {'u8': 8, 'u16': 16, 'u32': 32, 'usize': 64, 'i32': 32, 'isize': 64, 'u64': 64}

def const(tok):
    m = re.match(r'^const (-?\d+)_(\w+)$', tok)
    if m: return z3.BitVecVal(int(m.group(1)), WIDTH[m.group(2)])
    if tok == 'const true': return z3.BoolVal(True)
    if tok == 'const false': return z3.BoolVal(False)
    m = re.match(r'^const "(.*)"$', tok)
    if m: return ('str', m.group(1).encode().decode('unicode_escape'))
    raise NotImplementedError(tok)

def read_place(env, p):
    p = p.strip()
    m = re.match(r'^\(\((_\d+) as Some\)\.0: [^)]*\)$', p)
    if m: return env[m.group(1)][1]
    m = re.match(r'^\((_\d+)\.(\d+): [^)]*\)$', p)
    if m: return env[m.group(1)][int(m.group(2))]
    if re.match(r'^_\d+$', p): return env[p]
    raise NotImplementedError('place ' + p)

def operand(env, o):
    o = o.strip()
    if o.startswith('const '): return const(o)
    for k in ('copy ', 'move '):
        if o.startswith(k): return read_place(env, o[len(k):])
    raise NotImplementedError('operand ' + o)

def split_args(s):
    out, depth, cur = [], 0, ''
    for ch in s:
        if ch in '([<': depth += 1
        if ch in ')]>': depth -= 1
        if ch == ',' and depth == 0: out.append(cur); cur = ''
        else: cur += ch
    if cur.strip(): out.append(cur)
    return out

# ---- library contracts -------------------------------------------------------------------
def lib_call(name, args, env, world):
    if name.endswith('as IntoIterator>::into_iter'):
        v = args[0]
        if isinstance(v, tuple) and v[0] == 'vec': return ('iter', list(v[1]))
        return v                                            # iterator of itself
    if name.startswith('<std::vec::IntoIter<') and name.endswith('as Iterator>::next'):
        it = args[0]                                        # &mut -> the python list object is shared
        if it[1]: return ('Some', it[1].pop(0))
        return ('None',)
    if name == 'regex::Regex::new': return ('Ok', ('regex', args[0][1]))
    if name.startswith('Result::<') and name.endswith('::unwrap'):
        if args[0][0] != 'Ok': raise Panic('unwrap on Err')
        return args[0][1]
    if name == 'regex::Regex::captures_iter':
        # CONTRACT (pattern "\n"): yields one Captures per '\n' byte, left to right; group 0 only.
        assert args[0][1] == '\\n', args[0]
        return ('caps_iter', [('caps', pos) for pos in world['nl_positions']])
    if name == "<regex::CaptureMatches<'_, '_> as Iterator>::next":
        it = args[0]
        if it[1]: return ('Some', it[1].pop(0))
        return ('None',)
    if name == "regex::Captures::<'_>::iter": return ('sub_iter', [('Some', ('match', args[0][1]))])
    if name == "<regex::SubCaptureMatches<'_, '_> as Iterator>::next":
        it = args[0]
        if it[1]: return ('Some', it[1].pop(0))
        return ('None',)
    if name.startswith('Option::<') and name.endswith('::unwrap'):
        if args[0][0] != 'Some': raise Panic('unwrap on None')
        return args[0][1]
    if name == "regex::Match::<'_>::start": return args[0][1]
    raise NotImplementedError('callee ' + name)

def run(fn, args, world, max_steps=100000):
    """fork-free for concrete control flow; forks on symbolic switchInt. Returns list of (pc, result|Panic)."""
    params, ret, body = FNS[fn]
    blocks = parse_body(body)
    env0 = {'_%d' % (i + 1): a for i, a in enumerate(args)}
    work, done = [([], env0, 'bb0', 0)], []
    solver = z3.Solver()
    while work:
        pc, env, bb, idx = work.pop()
        steps = 0
        while True:
            steps += 1
            assert steps < max_steps
            st = blocks[bb][idx]
            # ---- terminators
            if st == 'return': done.append((pc, env['_0'])); break
            if st == 'unreachable': break
            m = re.match(r'^goto -> (bb\d+)$', st)
            if m: bb, idx = m.group(1), 0; continue
            m = re.match(r'^drop\(.*\) -> \[return: (bb\d+)', st)
            if m: bb, idx = m.group(1), 0; continue
            m = re.match(r'^switchInt\((.*?)\) -> \[(.*)\]$', st)
            if m:
                v = operand(env, m.group(1))
                targets = [t.strip().split(': ') for t in m.group(2).split(',')]
                if isinstance(v, tuple) and v[0] == 'discr':          # concrete discriminant
                    tgt = dict(targets).get(str(v[1]), dict(targets).get('otherwise'))
                    bb, idx = tgt, 0; continue
                vb = z3.If(v, z3.BitVecVal(1, 8), z3.BitVecVal(0, 8)) if z3.is_bool(v) else v
                succs, others = [], []
                for val, tgt in targets:
                    if val == 'otherwise':
                        succs.append((z3.And([vb != o for o in others]) if others else z3.BoolVal(True), tgt))
                    else:
                        c = z3.BitVecVal(int(val), vb.size()); others.append(c); succs.append((vb == c, tgt))
                for cond, tgt in succs:
                    solver.push(); solver.add(*pc, cond)
                    feas = solver.check() == z3.sat
                    solver.pop()
                    world['queries'] += 1
                    if feas:
                        import copy
                        work.append((pc + [cond], copy.deepcopy(env), tgt, 0))
                break
            m = re.match(r'^assert\((!?)(.*?), ".*\) -> \[success: (bb\d+)', st)
            if m:
                v = operand(env, m.group(2)); ok = z3.Not(v) if m.group(1) else v
                solver.push(); solver.add(*pc, z3.Not(ok)); world['queries'] += 1
                if solver.check() == z3.sat: done.append((pc + [z3.Not(ok)], Panic('overflow assert: ' + st[:60])))
                solver.pop()
                pc = pc + [ok]; bb, idx = m.group(3), 0; continue
            m = re.match(r'^(_\d+) = (.+?)\((.*)\) -> \[return: (bb\d+)', st)
            if m and not m.group(2).startswith(('Gt', 'Lt', 'Add', 'Eq', 'Ne', 'Sub', 'discriminant', 'copy', 'move', 'const', '&')):
                a = [operand(env, x) for x in split_args(m.group(3))]
                try:
                    env[m.group(1)] = lib_call(m.group(2), a, env, world)
                except Panic as p:
                    done.append((pc, p)); break
                bb, idx = m.group(4), 0; continue
            # ---- statements
            m = re.match(r'^(_\d+) = (.*)$', st)
            if not m: raise NotImplementedError(st)
            dst, rv = m.group(1), m.group(2)
            mm = re.match(r'^(Gt|Lt|Eq|Ne|AddWithOverflow|Add)\((.*)\)$', rv)
            if mm:
                x, y = [operand(env, t) for t in split_args(mm.group(2))]
                op = mm.group(1)
                if op == 'Gt': val = z3.UGT(x, y) if not world.get('signed') else x > y
                elif op == 'Lt': val = z3.ULT(x, y)
                elif op == 'Eq': val = x == y
                elif op == 'Ne': val = x != y
                elif op == 'AddWithOverflow':
                    signed = rv.count('_i32') > 0 or world.get('signed_add')
                    ovf = z3.Not(z3.BVAddNoOverflow(x, y, signed))
                    if signed: ovf = z3.Or(ovf, z3.Not(z3.BVAddNoUnderflow(x, y)))
                    val = [x + y, ovf]
                env[dst] = val
            elif rv.startswith('discriminant('):
                v = read_place(env, rv[len('discriminant('):-1])
                env[dst] = ('discr', {'None': 0, 'Some': 1, 'Ok': 0, 'Err': 1}[v[0]])
            elif rv.startswith('&mut ') or rv.startswith('&'):
                env[dst] = read_place(env, rv.split(' ', 1)[1] if rv.startswith('&mut ') else rv[1:])
            else:
                env[dst] = operand(env, rv)
            idx += 1
    return done

def check_slots(n):
    world = {'queries': 0}
    ks = [z3.BitVec('k%d' % i, 16) for i in range(n)]
    pre = [z3.And(z3.UGE(k, 1), z3.ULE(k, 32)) for k in ks]
    sizes = [k * 8 for k in ks]
    outs = run('storage_slots_used', [('vec', sizes)], world)
    # reference: Solidity layout rule, mathematical integers
    free, slots = z3.IntVal(0), z3.IntVal(0)
    for s in sizes:
        si = z3.BV2Int(s)
        fits = si <= free
        slots = z3.If(fits, slots, slots + 1); free = z3.If(fits, free - si, 256 - si)
    s = z3.Solver(); bad = 0
    for pc, res in outs:
        s.push(); s.add(*pre, *pc)
        if isinstance(res, Panic):
            if s.check() == z3.sat: bad += 1; print('  PANIC reachable', res, s.model())
        else:
            s.add(z3.BV2Int(res) != slots)
            if s.check() == z3.sat: bad += 1; print('  MISMATCH', s.model())
        s.pop(); world['queries'] += 1
    return len(outs), world['queries'], bad

def check_line_number(nchars):
    """text = nchars symbolic chars from alphabet {'\n','a','\r',U+00E9 (2 bytes)}; offset = start of any char."""
    total_paths = total_q = bad = 0
    import itertools
    # char classes are symbolic; the *number and position of newlines* is what drives control flow, so we let
    # z3 pick classes but enumerate nothing: positions of newlines are symbolic byte offsets with symbolic presence.
    # Spike simplification: presence pattern enumerated (2^n), widths/offset symbolic.
    for pattern in itertools.product([0, 1], repeat=nchars):
        world = {'queries': 0}
        widths = [z3.BitVec('w%d' % i, 64) for i in range(nchars)]
        pre = []
        for i, w in enumerate(widths):
            pre.append(w == 1 if pattern[i] else z3.Or(w == 1, w == 2, w == 3))
        starts, acc = [], z3.BitVecVal(0, 64)
        for w in widths: starts.append(acc); acc = acc + w
        world['nl_positions'] = [starts[i] for i in range(nchars) if pattern[i]]
        off = z3.BitVec('off', 64)
        pre.append(z3.Or([off == s for s in starts]))
        outs = run('get_line_number', [off, ('str', None)], world)
        expected = z3.Sum([z3.If(z3.ULT(p, off), 1, 0) for p in world['nl_positions']] + [z3.IntVal(1)])
        s = z3.Solver()
        for pc, res in outs:
            s.push(); s.add(*pre, *pc)
            if isinstance(res, Panic): s.pop(); continue
            s.add(z3.BV2Int(res, True) != expected)
            if s.check() == z3.sat:
                bad += 1
                if bad <= 3: print('  MISMATCH pattern', pattern, 'off', s.model()[off], 'got', s.model().eval(res))
            s.pop(); world['queries'] += 1
        total_paths += len(outs); total_q += world['queries']
    return total_paths, total_q, bad

if __name__ == '__main__':
    t = time.time()
    for n in range(0, 4):
        print('storage_slots_used n=%d: paths=%d queries=%d violations=%d' % ((n,) + check_slots(n)))
    print('  %.1fs' % (time.time() - t)); t = time.time()
    print('get_line_number up to 4 chars: paths=%d queries=%d violations=%d' % check_line_number(4))
    print('  %.1fs' % (time.time() - t))
