use solstat::analyzer::optimizations as o;
use solstat::report::optimization_report::generate_optimization_report;
use std::collections::{BTreeSet, HashMap};
fn main() {
    let mut m = HashMap::new();
    for p in [o::Optimization::AddressBalance, o::Optimization::AddressZero, o::Optimization::Sstore, o::Optimization::ShiftMath, o::Optimization::SolidityMath, o::Optimization::PackStructVariables] {
        let mut l = BTreeSet::new(); l.insert(3);
        m.insert(p, vec![("a.sol".to_string(), l)]);
    }
    let rep = generate_optimization_report(m);
    let h = { use std::hash::{Hash, Hasher}; let mut s = std::collections::hash_map::DefaultHasher::new(); rep.hash(&mut s); s.finish() };
    println!("report hash {:016x}", h);
}
