use solstat::analyzer::{optimizations as o, vulnerabilities as v};
use solstat::report::vulnerability_report::generate_vulnerability_report;
use std::collections::{BTreeSet, HashMap};
use std::{fs, panic};
fn main() {
    panic::set_hook(Box::new(|_| {}));
    // D8
    let s = "contract C {\n uint x;\n uint y = (x = 5);\n constructor() {}\n}\n";
    println!("D8 immutable (expect {{}}): {:?}", o::analyze_for_optimization(s, 0, o::Optimization::ImmutableVarialbes));
    // D3
    let root = std::env::temp_dir().join("solstat_probe_d3");
    let _ = fs::remove_dir_all(&root);
    fs::create_dir_all(root.join("d")).unwrap();
    let src = "contract C {\n function f() public {\n x = a + b;\n }\n}\n";
    fs::write(root.join("a.sol"), src).unwrap();
    fs::write(root.join("d").join("b.sol"), src).unwrap();
    let r = o::analyze_dir(root.to_str().unwrap(), vec![o::Optimization::SolidityMath]);
    println!("D3 analyze_dir (expect a.sol and b.sol): {:?}", r);
    let _ = fs::remove_dir_all(&root);
    // D10
    let mut m = HashMap::new();
    let mut l = BTreeSet::new(); l.insert(3);
    m.insert(v::Vulnerability::UnprotectedSelfdestruct, vec![("a.sol".to_string(), l)]);
    let rep = generate_vulnerability_report(m);
    println!("D10 contains Low Risk heading: {}", rep.contains("## Low Risk"));
    // D12
    println!("D12 string_error: {:?}", panic::catch_unwind(|| o::str_to_optimization("string_error")).map_err(|_| "PANIC"));
    println!("D12 string_errors: {:?}", panic::catch_unwind(|| o::str_to_optimization("String_Errors")).map_err(|_| "PANIC"));
}
