use solstat::analyzer::{optimizations as o, qa as q, vulnerabilities as v, utils};
use std::panic;
fn try_opt(name: &str, src: &str, p: o::Optimization) {
    let r = panic::catch_unwind(|| o::analyze_for_optimization(src, 0, p));
    println!("{name}: {:?}", r.map_err(|_| "PANIC"));
}
fn try_vul(name: &str, src: &str, p: v::Vulnerability) {
    let r = panic::catch_unwind(|| v::analyze_for_vulnerability(src, 0, p));
    println!("{name}: {:?}", r.map_err(|_| "PANIC"));
}
fn try_qa(name: &str, src: &str, p: q::QualityAssurance) {
    let r = panic::catch_unwind(|| q::analyze_for_qa(src, 0, p));
    println!("{name}: {:?}", r.map_err(|_| "PANIC"));
}
fn main() {
    panic::set_hook(Box::new(|_| {}));
    println!("line('a',0)={} line('a\\nb',2)={} line('a\\nb\\n',2)={}", utils::get_line_number(0,"a"), utils::get_line_number(2,"a\nb"), utils::get_line_number(2,"a\nb\n"));
    let f = |body: &str| format!("contract C {{\n function f() public {{\n {body}\n }}\n}}\n");
    try_opt("C01 power operand (expect line 3)", &f("x = 2 ** (a + b);"), o::Optimization::SolidityMath);
    try_opt("C01 pre-inc operand", &f("++a[b + c];"), o::Optimization::SolidityMath);
    try_opt("C01 catch body", &f("try this.g() { } catch { x = a + b; }"), o::Optimization::SolidityMath);
    try_opt("C01 modifier arg", "contract C {\n function f() public m(a + b) {\n }\n}\n", o::Optimization::SolidityMath);
    try_opt("C04 address()", &f("if (x == address()) {}"), o::Optimization::AddressZero);
    try_opt("C04 big literal", &f("x = y * 4294967296;"), o::Optimization::ShiftMath);
    try_opt("C05 1e18", &f("x = y * 1e18;"), o::Optimization::ShiftMath);
    try_opt("C04 no pragma safemath", &f("x = y;"), o::Optimization::SafeMathPre080);
    try_opt("C04 no pragma string_errors", &f("x = y;"), o::Optimization::StringErrors);
    try_qa("C04 free function ctor_order", "function g() pure {}\ncontract C {\n}\n", q::QualityAssurance::ConstructorOrder);
    try_qa("C04 free function private_func", "function g() pure {}\ncontract C {\n}\n", q::QualityAssurance::PrivateFuncLeadingUnderscore);
    try_qa("C06 ctor order cross-contract (expect {})", "contract A {\n function f() public {}\n}\ncontract B {\n constructor() {}\n}\n", q::QualityAssurance::ConstructorOrder);
    try_qa("C06 ctor order two contracts (expect {3,7})", "contract A {\n function f() public {}\n constructor() {}\n}\ncontract B {\n function f() public {}\n constructor() {}\n}\n", q::QualityAssurance::ConstructorOrder);
    try_vul("C07 selfdestruct(payable(msg.sender)) (expect {3})", &f("selfdestruct(payable(msg.sender));"), v::Vulnerability::UnprotectedSelfdestruct);
    try_vul("C07 selfdestruct(msg.sender) (expect {3})", &f("selfdestruct(msg.sender);"), v::Vulnerability::UnprotectedSelfdestruct);
    let sm = |ver: &str| format!("pragma solidity {ver};\ncontract C {{\n using SafeMath for uint256;\n function f() public {{\n x = a.add(b); require(a, \"s\");\n }}\n}}\n");
    for ver in ["0.7.6", "0.8.0", "0.9.0", "1.0.0", "0.8.3", "0.8.4", "0.8.10", "0.10.0"] {
        let s = sm(ver);
        let pre = o::analyze_for_optimization(&s, 0, o::Optimization::SafeMathPre080);
        let post = o::analyze_for_optimization(&s, 0, o::Optimization::SafeMathPost080);
        let se = o::analyze_for_optimization(&s, 0, o::Optimization::StringErrors);
        println!("C09 v{ver}: pre={pre:?} post={post:?} string_errors={se:?}");
    }
    try_opt("C09 experimental pragma first (0.7.6, expect post={})", "pragma experimental ABIEncoderV2;\npragma solidity 0.8.6;\ncontract C {\n using SafeMath for uint256;\n function f() public {\n x = a.add(b);\n }\n}\n", o::Optimization::SafeMathPost080);
    try_opt("C08 immutable: write in catch", "contract C {\n uint x;\n constructor() { x = 1; }\n function f() public {\n try this.g() {} catch { x = 2; }\n }\n}\n", o::Optimization::ImmutableVarialbes);
    try_opt("C08 constant: write as ++ operand nested", "contract C {\n uint x = 1;\n function f() public {\n y = 2 ** (x = 3);\n }\n}\n", o::Optimization::ConstantVariables);
}
