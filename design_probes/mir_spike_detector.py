#!/usr/bin/env python3-vt
"""Spike 3: execute a whole detector (address_zero_optimization) from the real MIR on small hand-built parse trees,
including the real walker (no induction hypothesis), the vec![] lowering, promoted constants, Vec indexing that can
panic and HashSet<Loc>. Throw-away probe for DESIGN.md (C04/C05 feasibility)."""
import sys, re, time
sys.argv = [sys.argv[0], sys.argv[1]]
import importlib.util
spec = importlib.util.spec_from_file_location('s2', '/verif/design_probes/mir_spike_walker_step.py')
s2 = importlib.util.module_from_spec(spec); s2.__name__ = 's2'; spec.loader.exec_module(s2)
V, Box, Ref, Ptr, Panic, Unsupported = s2.V, s2.Box, s2.Ref, s2.Ptr, s2.Panic, s2.Unsupported

class ValRef:                       # shared reference to a value that has no place of its own
    def __init__(s, v): s.v = v

# promoted constants: `const NAME::promoted[N]: T = { ... }`
for m in re.finditer(r'^const ([^\n]*?promoted\[\d+\]): (.*?) = \{\n(.*?)^\}\n', s2.MIRTXT, re.S | re.M):
    s2.FNS.setdefault(m.group(1).strip(), []).append(s2.Fn(m.group(1).strip(), [], m.group(3)))

_old_operand = s2.operand
def operand(frame, o):
    o = o.strip()
    m = re.match(r'^const (-?\d+)_(usize|u8|u16|u32|i32|isize)$', o)
    if m: return int(m.group(1))
    m = re.match(r'^const "(.*)"$', o)
    if m: return ('str', m.group(1))
    m = re.match(r'^const (.*promoted\[\d+\])$', o)
    if m:
        name = m.group(1)
        cands = [k for k in s2.FNS if k.endswith(name.split('::')[-2] + '::' + name.split('::')[-1])]
        return s2.execute(s2.FNS[cands[0]][0], [], {})
    return _old_operand(frame, o)
s2.operand = operand

_old_proj = s2.proj_read
def proj_read(frame, v, proj):
    for p in proj:
        if p[0] == 'deref':
            if isinstance(v, ValRef): v = v.v; continue
            if isinstance(v, Ref): v = s2.read(v.frame, v.place); continue
            if isinstance(v, Ptr): v = v.box.inner; continue
            if isinstance(v, Box): v = v.inner; continue
            raise Unsupported('deref of %r' % (v,))
        if p[0] == 'down':
            if not (isinstance(v, V) and v.variant == p[1]): raise Unsupported('downcast %s on %r' % (p[1], v))
            continue
        if p[0] == 'field':
            if isinstance(v, Box): continue
            if isinstance(v, tuple) and v[0] == 'uninit': continue     # MaybeUninit/ManuallyDrop wrappers
            v = v.fields[p[1]]
    return v
s2.proj_read = proj_read

_old_write = s2.write
def write(frame, place, val):
    l, proj = s2.parse_place(place) if isinstance(place, str) else place
    if proj and proj[0] == ('deref',) and isinstance(frame.env.get(l), Ptr) and all(p[0] == 'field' for p in proj[1:]):
        frame.env[l].box.inner = val; return                          # write through Box<MaybeUninit<[T;N]>>
    return _old_write(frame, (l, proj), val)
s2.write = write

def deref_all(x):
    while isinstance(x, (Ref, ValRef)):
        x = s2.read(x.frame, x.place) if isinstance(x, Ref) else x.v
    return x

_old_lib = s2.call_lib
def call_lib(callee, args, ctx):
    c = s2.norm(callee)
    if re.match(r'^Box::<\[.*\]>::new_uninit$', c): return Box(('uninit',))
    if c.startswith('box_assume_init_into_vec_unsafe'): return ('vec', list(args[0].inner[1]))
    if re.match(r'^HashSet::<.*>::new$', c): return ('set', [])
    if re.match(r'^HashSet::<.*>::insert$', c):
        r = args[0]; cur = s2.read(r.frame, r.place); x = args[1]
        key = (lambda e: (e.ty, e.variant) if isinstance(e, V) else e)
        if key(x) not in [key(e) for e in cur[1]]: s2.write(r.frame, r.place, ('set', cur[1] + [x]))
        return True
    if c.startswith('HashSet::<Target>::contains'):
        st, x = deref_all(args[0]), deref_all(args[1])
        return any(e.variant == x.variant for e in st[1])
    if 'as Index<usize>>::index' in c:
        v = deref_all(args[0]); i = args[1]
        if i >= len(v[1]): raise Panic('index out of bounds: the len is %d but the index is %d' % (len(v[1]), i))
        return ValRef(v[1][i])
    if 'as PartialEq' in c and c.endswith('::eq'):
        a, b = deref_all(args[0]), deref_all(args[1]); return a == b
    return _old_lib(callee, args, ctx)
s2.call_lib = call_lib

# array aggregate + unit variants need one more rvalue form
_old_execute = s2.execute
SRC = open('/verif/design_probes/mir_spike_walker_step.py').read()

# ---- hand-built trees ------------------------------------------------------------------------------------
LOC = iter(range(1000, 100000))
def loc(): return ('loc', next(LOC))
def ident(n): return V('Identifier', None, [loc(), ('str', n)])
def var(n): return V('Expression', 'Variable', [ident(n)])
def num(s): return V('Expression', 'NumberLiteral', [loc(), ('str', s), ('str', '')])
def ty(t): return V('Expression', 'Type', [loc(), V('Type', t, [])])
def call(f, args): return V('Expression', 'FunctionCall', [loc(), Box(f), ('vec', args)])
def binop(k, a, b):
    l = loc(); return V('Expression', k, [l, Box(a), Box(b)]), l
def unit_with(stmt_expr):
    body = V('Statement', 'Block', [loc(), False, ('vec', [V('Statement', 'Expression', [loc(), stmt_expr])])])
    f = V('FunctionDefinition', None, [loc(), V('FunctionTy', 'Function', []), V('Option', 'Some', [ident('f')]), loc(),
                                       ('vec', []), ('vec', []), V('Option', 'None', []), ('vec', []), V('Option', 'Some', [body])])
    c = V('ContractDefinition', None, [loc(), V('ContractTy', 'Contract', [loc()]), ident('C'), ('vec', []),
                                       ('vec', [V('ContractPart', 'FunctionDefinition', [Box(f)])])])
    return V('SourceUnit', None, [('vec', [V('SourceUnitPart', 'ContractDefinition', [Box(c)])])])

CASES = []
e, l = binop('Equal', var('x'), call(ty('Address'), [num('0')]));            CASES.append(('x == address(0)', e, {l}))
e, l = binop('NotEqual', call(ty('Address'), [num('0')]), var('x'));         CASES.append(('address(0) != x', e, {l}))
e, l = binop('Equal', var('x'), call(ty('Address'), [num('1')]));            CASES.append(('x == address(1)', e, set()))
e, l = binop('Equal', var('x'), call(ty('Payable'), [num('0')]));            CASES.append(('x == payable(0)', e, set()))
e, l = binop('Less', var('x'), call(ty('Address'), [num('0')]));             CASES.append(('x < address(0)', e, set()))
inner, li = binop('Equal', var('y'), call(ty('Address'), [num('0')]))
e, l = binop('Power', num('2'), inner);                                      CASES.append(('2 ** (y == address(0))   [needs D1]', e, {li}))
e, l = binop('Equal', var('x'), call(ty('Address'), []));                    CASES.append(('x == address()', e, set()))

if __name__ == '__main__':
    # array aggregate support: patch the rvalue branch by wrapping execute's source is overkill; instead pre-handle
    # `[move _a, move _b]` by monkeypatching operand for bracket lists
    _op = s2.operand
    def operand2(frame, o):
        o = o.strip()
        if o.startswith('[') and o.endswith(']'): return ('array', [_op(frame, x) for x in s2.split_top(o[1:-1])])
        return _op(frame, o)
    s2.operand = operand2
    t = time.time()
    fn = s2.FNS['address_zero_optimization'][0]
    for name, expr, want in CASES:
        b0, c0 = s2.STATS['blocks'], s2.STATS['calls']
        try:
            out = s2.execute(fn, [unit_with(expr)], {})
            got = set(out[1]); verdict = 'ok' if got == want else 'MISMATCH'
            print('%-42s -> %-22s expected %-22s %s   (%d blocks)' % (name, sorted(got), sorted(want), verdict, s2.STATS['blocks'] - b0))
        except Panic as p:
            print('%-42s -> PANIC: %s' % (name, p))
    print('%.2fs' % (time.time() - t))
