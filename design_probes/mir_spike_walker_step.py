#!/usr/bin/env python3-vt
"""Spike 2: one inductive step of walk_node_for_targets, executed from the real MIR, for every variant of the
parse tree enums, children opaque, recursive calls replaced by the induction hypothesis W(child).
Throw-away probe for DESIGN.md (C01 feasibility); structure enumeration instead of z3 here."""
import re, sys, itertools, glob, os, time

MIRTXT = open(sys.argv[1]).read()
PT = open(glob.glob(os.path.expanduser('~/.cargo/registry/src/*/solang-parser-0.1.18/src/pt.rs'))[0]).read()
AST = open('/repo/src/analyzer/ast.rs').read()

# ------------------------------------------------------------------ type definitions from source
def split_top(s, sep=','):
    out, depth, cur = [], 0, ''
    for ch in s:
        if ch in '([{<': depth += 1
        elif ch in ')]}>': depth -= 1
        if ch == sep and depth == 0:
            out.append(cur); cur = ''
        else: cur += ch
    if cur.strip(): out.append(cur)
    return [x.strip() for x in out if x.strip()]

def strip_attrs(body):
    body = re.sub(r'//[^\n]*', '', body)
    return re.sub(r'#\[[^\]]*\]', '', body)

ENUMS, STRUCTS, ALIASES = {}, {}, {}
def load_types(src):
    src = strip_attrs(src)
    for m in re.finditer(r'pub enum (\w+) \{(.*?)\n\}', src, re.S):
        vs = []
        for v in split_top(m.group(2)):
            mm = re.match(r'^(\w+)\s*\((.*)\)$', v, re.S)
            if mm: vs.append((mm.group(1), [re.sub(r'\s+', ' ', t) for t in split_top(mm.group(2))])); continue
            mm = re.match(r'^(\w+)\s*\{(.*)\}$', v, re.S)
            if mm:
                vs.append((mm.group(1), [re.sub(r'\s+', ' ', f.split(':', 1)[1].strip()) for f in split_top(mm.group(2))])); continue
            vs.append((v, []))
        ENUMS[m.group(1)] = vs
    for m in re.finditer(r'pub struct (\w+) \{(.*?)\n\}', src, re.S):
        STRUCTS[m.group(1)] = [re.sub(r'\s+', ' ', f.split(':', 1)[1].strip()) for f in split_top(m.group(2))]
    for m in re.finditer(r'pub struct (\w+)\((.*?)\);', src):
        STRUCTS[m.group(1)] = [re.sub(r'pub ', '', t) for t in split_top(m.group(2))]
    for m in re.finditer(r'pub type (\w+) = (.*?);', src):
        ALIASES[m.group(1)] = m.group(2)
load_types(PT); load_types(AST)
ENUMS['Option'] = [('None', []), ('Some', ['T'])]
NODE_TYPES = ('Expression', 'Statement', 'ContractPart', 'SourceUnitPart')

# ------------------------------------------------------------------ values
class V:  # enum or struct value
    def __init__(s, ty, variant, fields): s.ty, s.variant, s.fields = ty, variant, fields
    def __repr__(s): return '%s::%s%r' % (s.ty, s.variant, s.fields) if s.variant else '%s%r' % (s.ty, s.fields)
class Opaque:
    def __init__(s, ty, name): s.ty, s.name = ty, name
    def __repr__(s): return '<%s %s>' % (s.ty, s.name)
class Box:
    def __init__(s, inner): s.inner = inner
    def __repr__(s): return 'Box(%r)' % (s.inner,)
class Ref:
    def __init__(s, frame, place): s.frame, s.place = frame, place
class Ptr:
    def __init__(s, box): s.box = box
COUNTER = itertools.count()

REPRESENTATIVE = {'StorageLocation': 0, 'Visibility': 0, 'Mutability': 0, 'Unit': 0, 'ContractTy': 1, 'FunctionTy': 1,
                  'VariableAttribute': 1, 'UsingList': 0, 'Import': 0, 'Loc': None, 'YulBlock': None}

def gen(ty, depth, maxlen):
    """yield all values of type ty; node types below the root are opaque leaves"""
    ty = ty.strip()
    ty = ALIASES.get(ty, ty)
    m = re.match(r'^Box<(.*)>$', ty)
    if m:
        for v in gen(m.group(1), depth, maxlen): yield Box(v)
        return
    m = re.match(r'^Option<(.*)>$', ty)
    if m:
        yield V('Option', 'None', [])
        for v in gen(m.group(1), depth, maxlen): yield V('Option', 'Some', [v])
        return
    m = re.match(r'^Vec<(.*)>$', ty)
    if m:
        for n in range(0, maxlen + 1):
            for combo in itertools.product(*[list(gen(m.group(1), depth, 1)) for _ in range(n)]):
                yield ('vec', list(combo))
        return
    m = re.match(r'^\((.*)\)$', ty)
    if m:
        for combo in itertools.product(*[list(gen(t, depth, maxlen)) for t in split_top(m.group(1))]):
            yield V('tuple', None, list(combo))
        return
    if ty in ('Loc',): yield ('loc', next(COUNTER)); return
    if ty in ('bool',): yield False; return
    if ty in ('String', 'u8', 'u16', 'usize'): yield ('scalar', ty); return
    if ty in NODE_TYPES and depth > 0: yield Opaque(ty, 'c%d' % next(COUNTER)); return
    if ty in ('YulBlock',): yield ('yul',); return
    if ty in STRUCTS:
        for combo in itertools.product(*[list(gen(t, depth + 1, maxlen)) for t in STRUCTS[ty]]):
            yield V(ty, None, list(combo))
        return
    if ty in ENUMS:
        variants = ENUMS[ty]
        if ty in REPRESENTATIVE: variants = [variants[REPRESENTATIVE[ty]]]
        for name, ftys in variants:
            for combo in itertools.product(*[list(gen(t, depth + 1, maxlen)) for t in ftys]):
                yield V(ty, name, list(combo))
        return
    raise NotImplementedError('gen ' + ty)

def leaves(v, out):
    """oracle: every opaque node reachable through the fields, declaration order; nothing under inline assembly"""
    if isinstance(v, Opaque): out.append(v.name)
    elif isinstance(v, Box): leaves(v.inner, out)
    elif isinstance(v, V):
        if v.ty == 'Statement' and v.variant == 'Assembly': return out
        for f in v.fields: leaves(f, out)
    elif isinstance(v, tuple) and v and v[0] == 'vec':
        for e in v[1]: leaves(e, out)
    return out

# ------------------------------------------------------------------ MIR front end
FN_RE = re.compile(r'^fn ([^\n]*?)\((.*?)\) -> (.*?) \{\n(.*?)^\}\n', re.S | re.M)
class Fn:
    def __init__(s, name, params, body):
        s.name, s.params, s.blocks = name, params, {}
        cur = None
        for line in body.split('\n'):
            t = line.strip()
            m = re.match(r'^(bb\d+)( \(cleanup\))?: \{$', t)
            if m: cur = m.group(1); s.blocks[cur] = []; continue
            if cur and t and t != '}' and line.startswith('        '): s.blocks[cur].append(t.rstrip(';'))
FNS = {}
for m in FN_RE.finditer(MIRTXT):
    params = [p.split(': ', 1) for p in split_top(m.group(2))] if m.group(2).strip() else []
    FNS.setdefault(m.group(1).strip(), []).append(Fn(m.group(1).strip(), params, m.group(4)))

def norm(t): return re.sub(r'(solang_parser::pt::|analyzer::ast::|std::boxed::|std::vec::|std::option::)', '', t)

def resolve(callee, args):
    if callee in FNS: return FNS[callee][0]
    m = re.match(r'^<(.*) as Into<Node>>::into$', callee)
    if m:
        for name, fl in FNS.items():
            if name.endswith('::into') and norm(fl[0].params[0][1]) == norm(m.group(1)): return fl[0]
    m = re.match(r'^(Node)::(\w+)$', callee)
    if m:
        for name, fl in FNS.items():
            if name.endswith('>::' + m.group(2)) and fl[0].params and 'Node' in fl[0].params[0][1]: return fl[0]
    return None

class Panic(Exception): pass
class Unsupported(Exception): pass
STATS = {'blocks': 0, 'calls': 0}

def parse_place(s):
    """-> (local, [proj...]) proj: ('deref',) ('field',i) ('down',Variant)"""
    s = s.strip()
    if re.match(r'^_\d+$', s): return s, []
    if s.startswith('(*') and s.endswith(')'):
        l, p = parse_place(s[2:-1]); return l, p + [('deref',)]
    if s.startswith('(') and s.endswith(')'):
        inner = s[1:-1]
        m = re.match(r'^(.*) as (\w+)$', inner)
        if m and inner.count('(') == inner.count(')') and ': ' not in inner[len(m.group(1)):]:
            l, p = parse_place(m.group(1)); return l, p + [('down', m.group(2))]
        # field: find the '.N: ' at depth 0 from the right
        depth = 0
        for i in range(len(inner) - 1, -1, -1):
            ch = inner[i]
            if ch in ')>': depth += 1
            elif ch in '(<': depth -= 1
            elif ch == ':' and depth == 0 and inner[i:i + 2] == ': ':
                mm = re.match(r'^(.*)\.(\d+)$', inner[:i])
                if mm:
                    l, p = parse_place(mm.group(1)); return l, p + [('field', int(mm.group(2)))]
    raise Unsupported('place ' + s)

class Frame:
    def __init__(s, fn): s.fn, s.env = fn, {}

def proj_read(frame, v, proj):
    for p in proj:
        if isinstance(v, Ref): v = read(v.frame, v.place) if p[0] == 'deref' else v
        if p[0] == 'deref':
            if isinstance(v, Ptr): v = v.box.inner
            elif isinstance(v, Box): v = v.inner
            continue
        if p[0] == 'down':
            if not (isinstance(v, V) and v.variant == p[1]): raise Unsupported('downcast %s on %r' % (p[1], v))
            continue
        if p[0] == 'field':
            if isinstance(v, Box): continue            # Unique/NonNull wrapper chain of Box: identity
            v = v.fields[p[1]]
    return v

def read(frame, place):
    l, proj = parse_place(place) if isinstance(place, str) else place
    return proj_read(frame, frame.env[l], proj)

def write(frame, place, val):
    l, proj = parse_place(place) if isinstance(place, str) else place
    if not proj: frame.env[l] = val; return
    if proj == [('deref',)]:
        r = frame.env[l]
        if isinstance(r, Ref): write(r.frame, r.place, val); return
    raise Unsupported('write ' + str(place))

def operand(frame, o):
    o = o.strip()
    if o.startswith('const '):
        if o == 'const true': return True
        if o == 'const false': return False
        return ('const', o[6:])
    for k in ('copy ', 'move ', 'no_retag copy '):
        if o.startswith(k): return read(frame, o[len(k):])
    raise Unsupported('operand ' + o)

DISCR = {}
def discriminant(v):
    if isinstance(v, V) and v.variant is not None:
        names = [n for n, _ in ENUMS[v.ty]]
        return names.index(v.variant)
    raise Unsupported('discriminant of %r' % (v,))

def call_lib(callee, args, ctx):
    c = norm(callee)
    if re.match(r'^Vec::<.*>::new$', c): return ('vec', [])
    if re.match(r'^Vec::<.*>::push$', c):
        r = args[0]; cur = read(r.frame, r.place); write(r.frame, r.place, ('vec', cur[1] + [args[1]])); return ()
    if re.match(r'^Vec::<.*>::append$', c):
        a, b = args; va, vb = read(a.frame, a.place), read(b.frame, b.place)
        write(a.frame, a.place, ('vec', va[1] + vb[1])); write(b.frame, b.place, ('vec', [])); return ()
    if c.startswith('HashSet::<Target>::contains'): return ctx['contains']
    if c.endswith('as Clone>::clone'):
        v = args[0]; return read(v.frame, v.place) if isinstance(v, Ref) else v
    if c.endswith('as IntoIterator>::into_iter'):
        v = args[0]; return ('iter', list(v[1])) if v[0] == 'vec' else v
    if c.endswith('as Iterator>::next'):
        r = args[0]; it = read(r.frame, r.place)
        if it[1]:
            head = it[1][0]; write(r.frame, r.place, ('iter', it[1][1:])); return V('Option', 'Some', [head])
        return V('Option', 'None', [])
    if re.match(r'^Option::<.*>::is_some$', c):
        v = args[0]; v = read(v.frame, v.place) if isinstance(v, Ref) else v
        return v.variant == 'Some'
    if re.match(r'^Option::<.*>::unwrap$', c):
        if args[0].variant != 'Some': raise Panic('unwrap None')
        return args[0].fields[0]
    if c.endswith('as Drop>::drop'): return ()
    raise Unsupported('callee ' + callee)

def execute(fn, args, ctx, depth=0):
    fr = Frame(fn)
    for (local, _), a in zip(fn.params, args): fr.env[local] = a
    bb = 'bb0'
    while True:
        STATS['blocks'] += 1
        for st in fn.blocks[bb]:
            if st == 'return': return fr.env.get('_0', ())
            if st == 'unreachable': raise Unsupported('reached unreachable in ' + fn.name + ' ' + bb)
            m = re.match(r'^goto -> (bb\d+)$', st)
            if m: bb = m.group(1); break
            m = re.match(r'^drop\(.*\) -> \[return: (bb\d+)', st)
            if m: bb = m.group(1); break
            m = re.match(r'^switchInt\((.*?)\) -> \[(.*)\]$', st)
            if m:
                v = operand(fr, m.group(1))
                v = int(v) if isinstance(v, bool) else v
                tg = dict(t.strip().split(': ') for t in m.group(2).split(','))
                bb = tg.get(str(v), tg.get('otherwise')); break
            m = None
            if ' -> [return: ' in st and ' = ' in st:
                head, tail = st.split(' -> [return: ', 1)
                dstp, call = head.split(' = ', 1)
                # arguments = last balanced (...) group of `call`
                depth, i = 0, len(call) - 1
                while i >= 0:
                    if call[i] == ')': depth += 1
                    elif call[i] == '(':
                        depth -= 1
                        if depth == 0: break
                    i -= 1
                class M: pass
                m = M(); g = {1: dstp, 2: call[:i], 3: call[i + 1:-1], 4: re.match(r'(bb\d+)', tail).group(1)}
                m.group = lambda k, g=g: g[k]
            if m:
                callee = m.group(2)
                a = [operand(fr, x) if not x.strip().startswith('&') else Ref(fr, x.strip().lstrip('&mut ').strip()) for x in split_top(m.group(3))]
                STATS['calls'] += 1
                if callee == 'walk_node_for_targets' :
                    node = a[1]
                    inner = node.fields[0]
                    if isinstance(inner, Opaque): res = ('vec', [('W', inner.name)])          # induction hypothesis
                    else: res = execute(FNS['walk_node_for_targets'][0], a, ctx, depth + 1)
                else:
                    f = resolve(callee, a)
                    res = execute(f, a, ctx, depth + 1) if f else call_lib(callee, a, ctx)
                write(fr, m.group(1), res); bb = m.group(4); break
            m = re.match(r'^(.+?) = (.*)$', st)
            if not m: raise Unsupported('stmt ' + st)
            dst, rv = m.group(1), m.group(2)
            if rv.startswith('discriminant('): val = discriminant(read(fr, rv[13:-1]))
            elif rv.startswith('&mut '): val = Ref(fr, rv[5:])
            elif rv.startswith('&'): val = Ref(fr, rv[1:])
            elif rv.endswith('(Transmute)'):
                src = rv.split(' as ')[0]; b = operand(fr, src)
                val = Ptr(b) if isinstance(b, Box) else b
            elif re.match(r'^(copy|move|const|no_retag) ', rv): val = operand(fr, rv)
            elif re.match(r'^[A-Z]\w*(::<.*>)?::\w+$', rv):                          # unit variant, e.g. Target::Add
                parts = rv.split('::'); val = V(parts[0], parts[-1], [])
            elif re.match(r'^[A-Z]\w*(::<.*>)?::\w+\(.*\)$', rv):                    # tuple variant aggregate
                head, argstr = rv.split('(', 1)
                parts = head.split('::'); val = V(parts[0], parts[-1], [operand(fr, x) for x in split_top(argstr[:-1])])
            elif rv.startswith('[') and rv.endswith(']'): val = ('array', [operand(fr, x) for x in split_top(rv[1:-1])])
            else: raise Unsupported('rvalue ' + rv)
            write(fr, dst, val)
        else:
            raise Unsupported('fell off block ' + bb)

# ------------------------------------------------------------------ the C01 step check
def kind_of(root):
    inner = root.fields[0]
    return inner.variant if root.variant != 'SourceUnit' else 'SourceUnit'

def check_root(root_variant, inner_ty, maxlen):
    results = {'cases': 0, 'viol': []}
    for inner in gen(inner_ty, 0, maxlen):
        node = V('Node', root_variant, [inner])
        want_children = [('W', n) for n in leaves(inner, [])]
        for contains in (False, True):
            ctx = {'contains': contains}
            results['cases'] += 1
            try:
                out = execute(FNS['walk_node_for_targets'][0], [('targets',), node], ctx)
            except Unsupported as e:
                results['viol'].append(('UNSUPPORTED', inner.variant, str(e)[:120])); break
            got = [x if isinstance(x, tuple) and x[0] == 'W' else 'SELF' for x in out[1]]
            want = (['SELF'] if contains else []) + want_children
            if got != want:
                results['viol'].append((inner.variant if isinstance(inner, V) else '?', 'got', got, 'want', want))
    return results

if __name__ == '__main__':
    t = time.time()
    tot = 0
    seen = set()
    for root, ty in (('Expression', 'Expression'), ('Statement', 'Statement'), ('ContractPart', 'ContractPart'), ('SourceUnitPart', 'SourceUnitPart')):
        r = check_root(root, ty, 1)
        tot += r['cases']
        print('%s: %d cases, %d mismatching' % (root, r['cases'], len(r['viol'])))
        for v in r['viol']:
            key = (root, v[0], len(v[2]) if len(v) > 2 and isinstance(v[2], list) else v[1])
            if key in seen: continue
            seen.add(key); print('   ', root, v[0], '::', ' '.join(str(x) for x in v[1:])[:200])
    print('total cases %d, MIR blocks executed %d, calls %d, %.1fs' % (tot, STATS['blocks'], STATS['calls'], time.time() - t))
