#[cfg(kani)]
mod h {
    use solstat::analyzer::optimizations::{str_to_optimization, Optimization};
    use solstat::analyzer::vulnerabilities::{str_to_vulnerability, Vulnerability};

    #[kani::proof]
    #[kani::unwind(24)]
    fn name_case_vuln() {
        // "floating_pragma" with arbitrary casing
        let base = b"floating_pragma";
        let mask: u16 = kani::any();
        let mut buf = [0u8; 15];
        let mut i = 0;
        while i < 15 {
            let c = base[i];
            buf[i] = if c.is_ascii_lowercase() && (mask >> i) & 1 == 1 { c.to_ascii_uppercase() } else { c };
            i += 1;
        }
        let s = core::str::from_utf8(&buf).unwrap();
        assert!(str_to_vulnerability(s) == Vulnerability::FloatingPragma);
    }
}
