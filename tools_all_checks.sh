#!/bin/bash
# runs every claimed check (quick) on /repo as it is; prints one line per check
cd /verif
for c in $(python3 -c "import json; print(' '.join(x['property_id'] for x in json.load(open('MANIFEST.json'))['checks']))"); do
  t0=$(date +%s)
  out=$(timeout 1500 ./check "$c" 2>&1); code=$?
  t1=$(date +%s)
  echo "== $c exit=$code $((t1-t0))s :: $(echo "$out" | grep -c '^VIOLATION') violations, $(echo "$out" | grep -c '^UNDECIDED') undecided :: $(echo "$out" | tail -1 | cut -c1-160)"
  echo "$out" | grep -A1 '^VIOLATION' | grep -v '^VIOLATION\|^--' | cut -c3-200 | head -${MAXV:-4}
  echo "$out" | grep '^BROKEN' | cut -c1-300 | head -2
done
