// Runs the REAL `Opts::new()` of src/opts.rs (binary-only module, included by path) with this process's argv
// and prints the resulting options. Exit status and stderr of a failing run are the real ones.
#[macro_use]
extern crate colour;
pub use solstat::analyzer;
#[path = "../../../src/opts.rs"]
mod opts;

fn main() {
    let o = opts::Opts::new();
    println!("path\t{}", o.path);
    println!("optimizations\t{:?}", o.optimizations);
    println!("vulnerabilities\t{:?}", o.vulnerabilities);
    println!("qa\t{:?}", o.qa);
}
