// Native replay runner: executes the REAL solstat code (linked from the scratch copy of /repo) on concrete
// inputs produced by the symbolic engine. Protocol: `runner <jobfile>`; one tab-separated job per line; one
// tab-separated result line per job, prefixed with the job index. Strings that may contain tabs/newlines are
// hex-encoded.
use std::collections::{BTreeSet, HashMap};
use std::panic;
use std::sync::Mutex;

use solang_parser::pt::{self, CodeLocation, Loc};
use solstat::analyzer::ast::{self, Node, Target};
use solstat::analyzer::optimizations::{self as opt, Optimization};
use solstat::analyzer::qa::{self, QualityAssurance};
use solstat::analyzer::utils;
use solstat::analyzer::vulnerabilities::{self as vul, Vulnerability};
use solstat::report;

include!("targets_gen.rs");

static LAST_PANIC: Mutex<String> = Mutex::new(String::new());

fn hex(s: &str) -> String {
    s.as_bytes().iter().map(|b| format!("{:02x}", b)).collect()
}
fn unhex(s: &str) -> String {
    let b: Vec<u8> = (0..s.len() / 2)
        .map(|i| u8::from_str_radix(&s[2 * i..2 * i + 2], 16).unwrap())
        .collect();
    String::from_utf8(b).unwrap()
}

type Det = fn(pt::SourceUnit) -> std::collections::HashSet<Loc>;

fn detector(name: &str) -> Option<Det> {
    Some(match name {
        "address_balance" => opt::address_balance::address_balance_optimization,
        "address_zero" => opt::address_zero::address_zero_optimization,
        "assign_update_array_value" => opt::assign_update_array_value::assign_update_array_optimization,
        "bool_equals_bool" => opt::bool_equals_bool::bool_equals_bool_optimization,
        "cache_array_length" => opt::cache_array_length::cache_array_length_optimization,
        "constant_variables" => opt::constant_variables::constant_variable_optimization,
        "immutable_variables" => opt::immutable_variables::immutable_variables_optimization,
        "increment_decrement" => opt::increment_decrement::increment_decrement_optimization,
        "memory_to_calldata" => opt::memory_to_calldata::memory_to_calldata_optimization,
        "multiple_require" => opt::multiple_require::multiple_require_optimization,
        "optimal_comparison" => opt::optimal_comparison::optimal_comparison_optimization,
        "pack_storage_variables" => opt::pack_storage_variables::pack_storage_variables_optimization,
        "pack_struct_variables" => opt::pack_struct_variables::pack_struct_variables_optimization,
        "payable_function" => opt::payable_function::payable_function_optimization,
        "private_constant" => opt::private_constant::private_constant_optimization,
        "safe_math_pre_080" => opt::safe_math::safe_math_pre_080_optimization,
        "safe_math_post_080" => opt::safe_math::safe_math_post_080_optimization,
        "shift_math" => opt::shift_math::shift_math_optimization,
        "short_revert_string" => opt::short_revert_string::short_revert_string_optimization,
        "solidity_keccak256" => opt::solidity_keccak256::solidity_keccak256_optimization,
        "solidity_math" => opt::solidity_math::solidity_math_optimization,
        "sstore" => opt::sstore::sstore_optimization,
        "string_errors" => opt::string_errors::string_error_optimization,
        "constructor_order" => qa::constructor_order::constructor_order_qa,
        "private_func_leading_underscore" => qa::private_func_leading_underscore::private_func_leading_underscore,
        "private_vars_leading_underscore" => qa::private_vars_leading_underscore::private_vars_leading_underscore,
        "divide_before_multiply" => vul::divide_before_multiply::divide_before_multiply_vulnerability,
        "floating_pragma" => vul::floating_pragma::floating_pragma_vulnerability,
        "unprotected_selfdestruct" => vul::unprotected_selfdestruct::unprotected_selfdestruct_vulnerability,
        "unsafe_erc20_operation" => vul::unsafe_erc20_operation::unsafe_erc20_operation_vulnerability,
        _ => return None,
    })
}

fn node_loc(n: &Node) -> Option<Loc> {
    match n {
        Node::Expression(e) => Some(e.loc()),
        Node::Statement(s) => Some(s.loc()),
        Node::SourceUnitPart(p) => Some(*p.loc()),
        Node::ContractPart(p) => Some(*p.loc()),
        Node::SourceUnit(_) => None,
    }
}

fn fmt_findings<K: std::fmt::Debug>(m: HashMap<K, Vec<(String, BTreeSet<i32>)>>) -> String {
    // one entry per (pattern, vector position): pattern|hexname|l1,l2 ; entries of one pattern keep vector order,
    // patterns are sorted by name so that the output does not depend on the hash seed
    let mut items: Vec<(String, Vec<(String, BTreeSet<i32>)>)> =
        m.into_iter().map(|(k, v)| (format!("{:?}", k), v)).collect();
    items.sort_by(|a, b| a.0.cmp(&b.0));
    let mut out = Vec::new();
    for (k, v) in items {
        for (f, lines) in v {
            let l: Vec<String> = lines.iter().map(|x| x.to_string()).collect();
            out.push(format!("{}|{}|{}", k, hex(&f), l.join(",")));
        }
    }
    out.join(";")
}

fn parse_findings(spec: &str) -> Vec<(String, Vec<(String, BTreeSet<i32>)>)> {
    // pattern|hexname|l1,l2;...  (insertion order = order of first appearance of each pattern)
    let mut out: Vec<(String, Vec<(String, BTreeSet<i32>)>)> = Vec::new();
    if spec.is_empty() {
        return out;
    }
    for item in spec.split(';') {
        let p: Vec<&str> = item.split('|').collect();
        if p.len() == 1 {
            // a pattern that is in the map without any file entry
            if !out.iter().any(|x| x.0 == p[0]) {
                out.push((p[0].to_string(), vec![]));
            }
            continue;
        }
        let lines: BTreeSet<i32> = if p[2].is_empty() {
            BTreeSet::new()
        } else {
            p[2].split(',').map(|x| x.parse::<i32>().unwrap()).collect()
        };
        let e = (unhex(p[1]), lines);
        if let Some(slot) = out.iter_mut().find(|x| x.0 == p[0]) {
            slot.1.push(e);
        } else {
            out.push((p[0].to_string(), vec![e]));
        }
    }
    out
}

fn run_job(f: &[&str]) -> String {
    match f[0] {
        // detect <detector> <path>  -> start:end,... (sorted)
        "detect" => {
            let src = std::fs::read_to_string(f[2]).unwrap();
            let su = match solang_parser::parse(&src, 0) {
                Ok(x) => x.0,
                Err(_) => return "PARSE_ERROR".to_string(),
            };
            let d = detector(f[1]).expect("unknown detector");
            let locs = d(su);
            let mut v: Vec<(usize, usize)> = locs.iter().map(|l| (l.start(), l.end())).collect();
            v.sort();
            let s: Vec<String> = v.iter().map(|(a, b)| format!("{}:{}", a, b)).collect();
            format!("OK\t{}", s.join(","))
        }
        // analyze <category> <pattern> <path> [file_no] -> line,line  (public per-file entry point)
        // analyze_raw: as analyze, but the text goes to analyze_for_* whatever the parser thinks of it (a panic is reported by the caller)
        "analyze" | "analyze_raw" => {
            let src = std::fs::read_to_string(f[3]).unwrap();
            if f[0] == "analyze" && solang_parser::parse(&src, 0).is_err() {
                return "PARSE_ERROR".to_string();
            }
            let file_no: usize = if f.len() > 4 { f[4].parse().unwrap() } else { 0 };
            let lines = match f[1] {
                "opt" => opt::analyze_for_optimization(&src, file_no, opt::str_to_optimization(f[2])),
                "vul" => vul::analyze_for_vulnerability(&src, file_no, vul::str_to_vulnerability(f[2])),
                "qa" => qa::analyze_for_qa(&src, file_no, qa::str_to_qa(f[2])),
                _ => panic!("category"),
            };
            let s: Vec<String> = lines.iter().map(|x| x.to_string()).collect();
            format!("OK\t{}", s.join(","))
        }
        // threads <category> <pattern> <file A> <file B> <threads> <iterations>: the two files analysed concurrently (thread i takes
        // A or B alternately), every result compared with the result of the same call made alone before the threads start
        "threads" => {
            let cat = f[1].to_string();
            let pat = f[2].to_string();
            let srcs: Vec<String> = vec![std::fs::read_to_string(f[3]).unwrap(), std::fs::read_to_string(f[4]).unwrap()];
            let n: usize = f[5].parse().unwrap();
            let iters: usize = f[6].parse().unwrap();
            fn one(cat: &str, pat: &str, src: &str) -> String {
                let lines = match cat {
                    "opt" => opt::analyze_for_optimization(src, 0, opt::str_to_optimization(pat)),
                    "vul" => vul::analyze_for_vulnerability(src, 0, vul::str_to_vulnerability(pat)),
                    "qa" => qa::analyze_for_qa(src, 0, qa::str_to_qa(pat)),
                    _ => panic!("category"),
                };
                let s: Vec<String> = lines.iter().map(|x| x.to_string()).collect();
                s.join(",")
            }
            let want: Vec<String> = srcs.iter().map(|s| one(&cat, &pat, s)).collect();
            let srcs = std::sync::Arc::new(srcs);
            let want = std::sync::Arc::new(want);
            let mut handles = vec![];
            for i in 0..n {
                let (srcs, want, cat, pat) = (srcs.clone(), want.clone(), cat.clone(), pat.clone());
                handles.push(std::thread::Builder::new().stack_size(64 << 20).spawn(move || {
                    let k = i % 2;
                    for it in 0..iters {
                        let got = one(&cat, &pat, &srcs[k]);
                        if got != want[k] {
                            return Some(format!("{}\t{}\t{}\t{}", if k == 0 { "A" } else { "B" }, it, got, want[k]));
                        }
                    }
                    None
                }).unwrap());
            }
            let mut bad: Option<String> = None;
            for h in handles {
                match h.join() {
                    Ok(Some(m)) => { if bad.is_none() { bad = Some(m); } }
                    Ok(None) => {}
                    Err(_) => { if bad.is_none() { bad = Some("PANIC-IN-THREAD\t0\t\t".to_string()); } }
                }
            }
            match bad {
                None => "OK".to_string(),
                Some(m) => format!("MISMATCH\t{}", m),
            }
        }
        // debugtree <path> -> hex of `{:?}` of the parsed SourceUnit
        "debugtree" => {
            let src = std::fs::read_to_string(f[1]).unwrap();
            match solang_parser::parse(&src, 0) {
                Ok(x) => format!("OK\t{}", hex(&format!("{:?}", x.0))),
                Err(_) => "PARSE_ERROR".to_string(),
            }
        }
        // parse <path> -> OK | PARSE_ERROR
        "parse" => {
            let src = std::fs::read_to_string(f[1]).unwrap();
            match solang_parser::parse(&src, 0) {
                Ok(_) => "OK".to_string(),
                Err(_) => "PARSE_ERROR".to_string(),
            }
        }
        // extract <path> <Target,Target,...> -> kind@start:end,...  in result order
        "extract" => {
            let src = std::fs::read_to_string(f[1]).unwrap();
            let su = match solang_parser::parse(&src, 0) {
                Ok(x) => x.0,
                Err(_) => return "PARSE_ERROR".to_string(),
            };
            let targets: Vec<Target> = f[2].split(',').map(|t| target_from_name(t).expect("target")).collect();
            let nodes = ast::extract_targets_from_node(targets, su.into());
            let s: Vec<String> = nodes
                .iter()
                .map(|n| {
                    let l = node_loc(n);
                    format!(
                        "{}@{}",
                        target_name(n.as_target()),
                        l.map(|l| format!("{}:{}", l.start(), l.end())).unwrap_or("-".into())
                    )
                })
                .collect();
            format!("OK\t{}", s.join(","))
        }
        // line <offset> <hex text>
        #[cfg(not(no_line_job))]
        "line" => {
            let text = unhex(f[2]);
            format!("OK\t{}", utils::get_line_number(f[1].parse().unwrap(), &text))
        }
        // a helper whose signature changed in the tree under analysis: the job is compiled out (see prepare.py)
        #[cfg(no_line_job)]
        "line" => "UNAVAILABLE".to_string(),
        // slots a,b,c
        #[cfg(not(no_slots_job))]
        "slots" => {
            let v: Vec<u16> = if f[1].is_empty() { vec![] } else { f[1].split(',').map(|x| x.parse().unwrap()).collect() };
            format!("OK\t{}", utils::storage_slots_used(v))
        }
        // a helper whose signature changed in the tree under analysis: the job is compiled out (see prepare.py)
        #[cfg(no_slots_job)]
        "slots" => "UNAVAILABLE".to_string(),
        // typesize <path of a file `T x;` at file level> -> size of the first file-level variable's type
        #[cfg(not(no_typesize_job))]
        "typesize" => {
            let src = std::fs::read_to_string(f[1]).unwrap();
            let su = match solang_parser::parse(&src, 0) {
                Ok(x) => x.0,
                Err(_) => return "PARSE_ERROR".to_string(),
            };
            for p in su.0 {
                if let pt::SourceUnitPart::VariableDefinition(v) = p {
                    return format!("OK\t{}", utils::get_type_size(v.ty));
                }
            }
            "NOVAR".to_string()
        }
        // a helper whose signature changed in the tree under analysis: the job is compiled out (see prepare.py)
        #[cfg(no_typesize_job)]
        "typesize" => "UNAVAILABLE".to_string(),
        // version <hex pragma value> -> a.b.c components as returned
        #[cfg(not(no_version_job))]
        "version" => {
            let s = unhex(f[1]);
            let v = utils::get_solidity_major_minor_patch_version(&s);
            format!("OK\t{}", v.join("."))
        }
        // a helper whose signature changed in the tree under analysis: the job is compiled out (see prepare.py)
        #[cfg(no_version_job)]
        "version" => "UNAVAILABLE".to_string(),
        // fileversion <path> -> None | a,b,c
        #[cfg(not(no_fileversion_job))]
        "fileversion" => {
            let src = std::fs::read_to_string(f[1]).unwrap();
            let su = match solang_parser::parse(&src, 0) {
                Ok(x) => x.0,
                Err(_) => return "PARSE_ERROR".to_string(),
            };
            match utils::get_solidity_version_from_source_unit(su) {
                None => "OK\tNone".to_string(),
                Some((a, b, c)) => format!("OK\t{},{},{}", a, b, c),
            }
        }
        // a helper whose signature changed in the tree under analysis: the job is compiled out (see prepare.py)
        #[cfg(no_fileversion_job)]
        "fileversion" => "UNAVAILABLE".to_string(),
        // strto <category> <hex name>
        "strto" => {
            let s = unhex(f[2]);
            match f[1] {
                "opt" => format!("OK\t{:?}", opt::str_to_optimization(&s)),
                "vul" => format!("OK\t{:?}", vul::str_to_vulnerability(&s)),
                "qa" => format!("OK\t{:?}", qa::str_to_qa(&s)),
                _ => panic!("category"),
            }
        }
        "getall" => match f[1] {
            "opt" => format!("OK\t{:?}", opt::get_all_optimizations()),
            "vul" => format!("OK\t{:?}", vul::get_all_vulnerabilities()),
            "qa" => format!("OK\t{:?}", qa::get_all_qa()),
            _ => panic!("category"),
        },
        // analyze_dir <category> <dir> <pattern,pattern>
        "analyze_dir" => {
            let names: Vec<&str> = if f[3].is_empty() { vec![] } else { f[3].split(',').collect() };
            match f[1] {
                "opt" => format!("OK\t{}", fmt_findings(opt::analyze_dir(f[2], names.iter().map(|n| opt::str_to_optimization(n)).collect()))),
                "vul" => format!("OK\t{}", fmt_findings(vul::analyze_dir(f[2], names.iter().map(|n| vul::str_to_vulnerability(n)).collect()))),
                "qa" => format!("OK\t{}", fmt_findings(qa::analyze_dir(f[2], names.iter().map(|n| qa::str_to_qa(n)).collect()))),
                _ => panic!("category"),
            }
        }
        // report <category> <findings spec> -> hex of the report text
        "report" => {
            let items = parse_findings(f[2]);
            let text = match f[1] {
                "opt" => {
                    let mut m: HashMap<Optimization, Vec<(String, BTreeSet<i32>)>> = HashMap::new();
                    for (k, v) in items { m.insert(opt::str_to_optimization(&k), v); }
                    report::optimization_report::generate_optimization_report(m)
                }
                "vul" => {
                    let mut m: HashMap<Vulnerability, Vec<(String, BTreeSet<i32>)>> = HashMap::new();
                    for (k, v) in items { m.insert(vul::str_to_vulnerability(&k), v); }
                    report::vulnerability_report::generate_vulnerability_report(m)
                }
                "qa" => {
                    let mut m: HashMap<QualityAssurance, Vec<(String, BTreeSet<i32>)>> = HashMap::new();
                    for (k, v) in items { m.insert(qa::str_to_qa(&k), v); }
                    report::qa_report::generate_qa_report(m)
                }
                _ => panic!("category"),
            };
            format!("OK\t{}", hex(&text))
        }
        // fullreport <vul spec> <opt spec> <qa spec> <cwd>: generate_report writes solstat_report.md into cwd
        "fullreport" => {
            let mut v: HashMap<Vulnerability, Vec<(String, BTreeSet<i32>)>> = HashMap::new();
            for (k, x) in parse_findings(f[1]) { v.insert(vul::str_to_vulnerability(&k), x); }
            let mut o: HashMap<Optimization, Vec<(String, BTreeSet<i32>)>> = HashMap::new();
            for (k, x) in parse_findings(f[2]) { o.insert(opt::str_to_optimization(&k), x); }
            let mut q: HashMap<QualityAssurance, Vec<(String, BTreeSet<i32>)>> = HashMap::new();
            for (k, x) in parse_findings(f[3]) { q.insert(qa::str_to_qa(&k), x); }
            std::env::set_current_dir(f[4]).unwrap();
            report::generation::generate_report(v, o, q);
            let text = std::fs::read_to_string("solstat_report.md").unwrap();
            format!("OK\t{}", hex(&text))
        }
        // section <category> <pattern> -> hex of the section text (+ severity for vulnerabilities)
        "section" => match f[1] {
            "opt" => format!("OK\t{}", hex(&report::optimization_report::get_optimization_report_section(opt::str_to_optimization(f[2])))),
            "qa" => format!("OK\t{}", hex(&report::qa_report::get_qa_report_section(qa::str_to_qa(f[2])))),
            "vul" => {
                let (s, sev) = report::vulnerability_report::get_vulnerability_report_section(vul::str_to_vulnerability(f[2]));
                let sv = match sev {
                    report::vulnerability_report::VulnerabilitySeverity::High => "High",
                    report::vulnerability_report::VulnerabilitySeverity::Medium => "Medium",
                    report::vulnerability_report::VulnerabilitySeverity::Low => "Low",
                };
                format!("OK\t{}\t{}", hex(&s), sv)
            }
            _ => panic!("category"),
        },
        other => format!("UNKNOWN_JOB\t{}", other),
    }
}

fn main() {
    let args: Vec<String> = std::env::args().collect();
    let jobs = std::fs::read_to_string(&args[1]).expect("job file");
    panic::set_hook(Box::new(|info| {
        let msg = if let Some(s) = info.payload().downcast_ref::<&str>() {
            s.to_string()
        } else if let Some(s) = info.payload().downcast_ref::<String>() {
            s.clone()
        } else {
            "<non-string panic>".to_string()
        };
        let loc = info.location().map(|l| format!("{}:{}", l.file(), l.line())).unwrap_or_default();
        *LAST_PANIC.lock().unwrap() = format!("{} @ {}", msg, loc);
    }));
    for (i, line) in jobs.lines().enumerate() {
        if line.is_empty() {
            continue;
        }
        let mut owned: Vec<String> = line.split('\t').map(|s| s.to_string()).collect();
        // `bigstack <job...>`: the job runs on a thread with a 2 GiB stack (deeply nested inputs; the dev-profile walker needs ~100 kB per level)
        let big = owned[0] == "bigstack";
        if big {
            owned.remove(0);
        }
        let r = if big {
            std::thread::Builder::new()
                .stack_size(2usize << 30)
                .spawn(move || {
                    panic::catch_unwind(move || {
                        let f: Vec<&str> = owned.iter().map(|s| s.as_str()).collect();
                        run_job(&f)
                    })
                })
                .expect("spawn")
                .join()
                .unwrap_or_else(|e| Err(e))
        } else {
            panic::catch_unwind(move || {
                let f: Vec<&str> = owned.iter().map(|s| s.as_str()).collect();
                run_job(&f)
            })
        };
        match r {
            Ok(s) => println!("{}\t{}", i, s),
            Err(_) => println!("{}\tPANIC\t{}", i, hex(&LAST_PANIC.lock().unwrap())),
        }
    }
}
