// E2 (DESIGN.md section 3): Kani/CBMC on the heap-light kernel `storage_slots_used`, bit-precise over the compiled code.
// The same obligation is decided by E1 (mirsym) from the MIR; C10 compares the two verdicts.
#[cfg(kani)]
mod proofs {
    use solstat::analyzer::utils::storage_slots_used;

    const MAX: usize = 5;

    fn arbitrary_sizes() -> (Vec<u16>, u32) {
        let len: usize = kani::any();
        kani::assume(len <= MAX);
        let mut v: Vec<u16> = Vec::new();
        let mut free: u32 = 0;
        let mut slots: u32 = 0;
        let mut i = 0;
        while i < len {
            let k: u16 = kani::any();
            kani::assume(k >= 1 && k <= 32);
            let s = k * 8;
            v.push(s);
            // Solidity's layout rule over wide integers: consecutive items share a slot while they fit in 256 bits
            if (s as u32) <= free {
                free -= s as u32;
            } else {
                slots += 1;
                free = 256 - s as u32;
            }
            i += 1;
        }
        (v, slots)
    }

    #[kani::proof]
    #[kani::unwind(7)]
    fn slots_match_layout_rule() {
        let (v, slots) = arbitrary_sizes();
        let n = v.len();
        let got = storage_slots_used(v);
        kani::cover!(n == MAX && got >= 3, "long vectors with several slots are reachable");
        assert_eq!(got, slots);
    }

    // vacuity twin: the same harness with a false assertion must FAIL, otherwise the assumptions are unsatisfiable
    #[kani::proof]
    #[kani::unwind(7)]
    fn vacuity_twin_must_fail() {
        let (v, _slots) = arbitrary_sizes();
        let got = storage_slots_used(v);
        assert!(got == 9999);
    }
}
