#!/bin/bash
# runs every seeded change against the check of the property it breaks (+ optional extra checks given as "ID:checks")
cd /verif
for d in seeded/*/; do
  id=$(basename $d); prop=$(python3 -c "import json; print(json.load(open('$d/meta.json'))['breaks_property'])")
  extra=""
  [ -n "$NOEXTRA" ] || case "$id" in S-C01-*) extra="C05";; S-C02-*) extra="C17";; S-C15-*) extra="C02";; S-C17-*) extra="C02";; S-C19-*) extra="C09";; S-C11-*) extra="C12";; S-C12-*) extra="C11";; esac
  res=$(timeout 3000 ./tools_with_patch.sh $d/patch.diff $prop $extra 2>&1 | grep "^== " | sed 's/ :: C[0-9][0-9] quick.*//' | tr '\n' ' ')
  echo "$id breaks=$prop :: $res"
done
