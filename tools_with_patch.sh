#!/bin/bash
# usage: tools_with_patch.sh [-R] <patch file | commit> <check ids...>
# applies a patch (or the reverse of a /repo commit with -R) to /repo's working tree, runs the quick checks, restores /repo
rev=""; if [ "$1" = "-R" ]; then rev="-R"; shift; fi
src="$1"; shift; case "$src" in /*) ;; *) [ -f "/verif/$src" ] && src="/verif/$src";; esac
cd /repo || exit 9
if [ -n "$(git status --porcelain --untracked-files=no)" ]; then echo "/repo not clean"; exit 9; fi
if [ -f "$src" ]; then git apply $rev "$src" || exit 9; else git show "$src" | git apply $rev || exit 9; fi
cd /verif
export VERIF_EVIDENCE_DIR=/verif/.cache/evidence-patched
for c in "$@"; do
  out=$(./check "$c" 2>&1); code=$?
  echo "== $c exit=$code :: $(echo "$out" | grep -c '^VIOLATION') violations :: $(echo "$out" | tail -1)"
  echo "$out" | grep -A1 '^VIOLATION' | grep -v '^VIOLATION\|^--' | cut -c1-220 | head -6
  echo "$out" | grep '^BROKEN' | cut -c1-300 | head -3
done
git -C /repo checkout -- .
