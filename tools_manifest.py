#!/usr/bin/env python3
"""Regenerates MANIFEST.json from the table below (kept in one place so that it stays valid while checks are added)."""
import json

CHECKS = {
 'C10': dict(
    text='Bounded symbolic model checking of the real MIR: get_type_size for every type variant with symbolic width, '
         'storage_slots_used against the Solidity layout rule for ALL size vectors up to the length bound (Z3 decides every '
         'path for all values), and the two pack detectors on symbolic contracts/structs against the sorted-order oracle; '
         'every verdict is a solver verdict within the stated bounds, counterexamples are replayed on the compiled code. Beyond the symbolic bound: every list of 5 '
         '(thorough: 6) members over five sizes through the compiled detectors against the layout rule (exhaustive over that family, decided natively).',
    note='Trusted: rustc MIR dump = compiled program; Z3; contracts for Vec/HashSet/slice::sort (validated natively on sampled '
         'paths every run). Bounds: vector length <=5 (quick) / <=7 (thorough), members <=3/4.',
    technique='symbolic execution of MIR + Z3 (bounded), native replay', design='6/C10'),
 'C02': dict(
    text='(a) get_line_number executed from MIR on every text of up to 5 (quick) / 7 (thorough) characters — class newline/other per path, '
         'byte width 1..4 per character and the offset symbolic — against 1 + #line feeds before the offset, Z3 deciding each path for all '
         'widths and token offsets; (b) the three analyze_for_* functions with parser, detectors and line function uninterpreted: the '
         'returned set equals {line(start)} of the detector\'s locations for the same file text, for every pattern; (c) on the compiled code: 21 layouts of a '
         'probe file through analyze_for_* and, as files of a directory, through analyze_dir (lines = lines of the detector\'s own locations), and on the '
         'offset-preserving layouts the reported lines are held against the lines on which the nodes flagged by the oracle of DESIGN section 8 begin.',
    note='Regex by contract (captures_iter of the pattern \\n yields the line-feed offsets), validated natively on every path; '
         'BTreeSet/HashSet contracts. Outside: texts longer than the bound; the parser\'s Loc.start.',
    technique='symbolic execution of MIR + Z3 (bounded text length), native replay', design='6/C02'),
 'C01': dict(
    text='Inductive step of the REAL walker (walk_node_for_targets, as_target tables, Into<Node>, entry points) executed from MIR for every '
         'variant of SourceUnit/SourceUnitPart/ContractPart/Statement/Expression/Type enumerated from pt.rs at run time: children opaque, '
         'Option presence and list lengths as choices, the target set fully symbolic (87 Booleans), recursive calls replaced by the induction '
         'hypothesis W(child). Oracle: [node if kind requested] ++ W(children in declaration order); Z3 decides membership of the node\'s own '
         'kind on each path. Correctness of every step gives correctness for trees of any size by structural induction.',
    note='Bounded in list length only (2 quick / 4 thorough; nested lists 1). Assumes declaration order of pt fields = source order. '
         'Counterexamples and one instance per variant are printed, parsed by the real parser and run through the real walker.',
    technique='symbolic execution of MIR, inductive step per variant + Z3, native replay', design='6/C01'),
 'C05': dict(
    text='Each of the 11 expression-level detectors is executed from MIR (with the real walker) on files built from a catalogue of 53 syntactic '
         'positions x all canonical / non-matching / near-miss forms of DESIGN.md section 8 (one and two occurrences per file); Loc offsets '
         'are free symbols, the shift_math literal is a symbolic 130-bit natural decided by Z3 (power of two for EVERY value, not samples). An '
         'independent three-valued oracle says must-report / must-not-report per node; every path is additionally printed, re-parsed by the '
         'real parser and run through the compiled detector (prediction must match).',
    note='Quick: 17 positions (14 fixed + 3 rotating by seed), thorough: all 53. Assumes distinct nodes have distinct extents. '
         'Structure is enumerated by path forking; values are decided by the solver.',
    technique='symbolic execution of MIR over tree families + Z3, native replay of every path', design='6/C05, 8'),
 'C07': dict(
    text='The 4 vulnerability detectors executed from MIR: unsafe_erc20_operation and divide_before_multiply on expression forms x syntactic '
         'positions (as C05); floating_pragma on pragma families incl. a fully symbolic pragma value (Z3 string; reported iff it contains ^); '
         'unprotected_selfdestruct on function shapes kind x visibility x modifier x kill call x msg.sender guard x placement against the '
         'three-valued oracle of the property text. Every path is replayed through the real parser and the compiled detector.',
    note='Quick: ~700 selfdestruct shapes sampled by seed (always all public/external unguarded ones), thorough: all ~2000. Oracle leaves '
         'undocumented msg.sender uses free. Same trusted base as C05.',
    technique='symbolic execution of MIR over function/pragma families + Z3 strings, native replay of every path', design='6/C07, 8'),
 'C06': dict(
    text='The 5 declaration-level detectors executed from MIR on every shape of function (kind x visibility x payable x body x underscore x contract '
         'kind x attribute order) and state variable (type x visibility x constant/immutable x underscore), on member sequences over function / '
         'modifier / constructor / receive / variable in 1-3 contracts and with free functions; the oracle is the iff-condition of the property, '
         'evaluated per declaration (for constructor_order per contract prefix), so members of other items may not influence a verdict.',
    note='Quick: all sequence/ordering cases + 260 shapes by seed; thorough: all ~1000 files x 5 detectors. Every path replayed through the real parser and '
         'the compiled detector. Same trusted base as C05.',
    technique='symbolic execution of MIR over declaration families, native replay of every path', design='6/C06, 8'),
 'C08': dict(
    text='constant_variables, immutable_variables, memory_to_calldata and sstore executed from MIR on files with a state variable / parameter and a write: '
         '15 write forms x target (direct, index, member, tuple, parenthesised, other name) x member kind (constructor, public/internal function, modifier, '
         'free function, fallback, library) x syntactic position (C05 catalogue), with and without a qualifying constructor assignment; never/always clauses '
         'of the property as a three-valued oracle over the whole file.',
    note='Quick: 900 of ~1700 files by seed. HashMap<String,_> by contract (association list). Depends on the real walker, so C01 defects show up here too.',
    technique='symbolic execution of MIR over write families, native replay of every path', design='6/C08, 8'),
 'C09': dict(
    text='The four version-gated detectors executed through the real version extraction (regex by contract on a structured string, split, parse::<i32>) with the '
         'pragma value op ++ M.m.p where M, m, p are SYMBOLIC naturals < 2^31: Z3 decides the gate for every version triple (lexicographic comparison with 0.8.0 / '
         '0.8.4), every operator spelling, placements of experimental/abicoder pragmas, SafeMath attachment at file/contract level, and a symbolic revert-string length.',
    note='Monotonicity and pre/post exclusivity follow from the iff-oracle. Regex contract validated natively on every path. Outside: range pragmas.',
    technique='symbolic execution of MIR + Z3 over integer version triples, native replay', design='6/C09'),
 'C04': dict(
    text='All 30 detectors executed from MIR on hostile but parseable files: no / non-solidity / malformed pragma (`0.8..4`, no digits, two components, '
         'non-ASCII digit, symbolic components < 2^40), calls without arguments for every callee the detectors inspect, number literals as SYMBOLIC '
         'naturals < 2^262 plus exponent / hex / rational / unit forms, every kind of top-level item and member (free functions, interfaces, libraries, '
         'empty contracts), 0..257 functions before a constructor. Obligation: no path ends in a panic (unwrap/expect/index/parse/arithmetic), in the '
         'overflow-checked and in the wrapping interpretation of the same MIR. Z3 decides every value-dependent panic site.',
    note='Panics on the tree families of C05-C09 are reported by those checks. Every checked-mode path is replayed natively. '
         'Outside: parser, stack depth.',
    technique='symbolic execution of MIR (panic reachability) + Z3, two overflow modes, native replay', design='6/C04'),
 'C11': dict(
    text='The three report generators (and generate_report with fs::write captured) executed from MIR on symbolic findings maps: file names are symbolic '
         'members of an ordered family (identity and order decided by Z3 on their rank), line numbers symbolic increasing integers; the resulting text is kept as '
         'a concatenation of constant and symbolic pieces and must be, for SOME order of patterns and entries, overview ++ for each pattern with findings: the '
         'section text of the module named after that pattern ++ its own file:line entries — nothing else, nothing missing. Static side condition: no constant '
         'report text looks like an entry, sections pairwise different (reading back is unambiguous).',
    note='Vulnerabilities: all 16 subsets, QA: all 8, optimisations: every pattern alone, pairs (60 seeded quick / all 253 thorough), larger subsets, all 23. Every path is '
         'replayed through the compiled generator (texts must be byte-identical).',
    technique='symbolic execution of MIR with structured strings + Z3 (ranks, line numbers), native replay of every path', design='6/C11'),
 'C12': dict(
    text='Same encoding as C11 on the families the property names: all 16 subsets of the vulnerability patterns x file/line multiplicities (total printed = '
         'number of entries listed; a severity heading iff a finding of that severity exists; every vulnerability under its own heading), optimisation totals '
         'with many entries, all 8 combinations of empty / non-empty categories in generate_report, and the compiled binary for all 8 combinations of categories '
         'with findings (entries and category part present iff the category has findings).',
    note='The overview functions are executed on a SYMBOLIC total and must render exactly its decimal digits between two constant texts. Severity table taken '
         'from the property text. Every path replayed natively.',
    technique='symbolic execution of MIR with structured strings + Z3, native replay of every path', design='6/C12'),
 'C13': dict(
    text='For the same set of findings the report generators are executed under every insertion order of patterns, every discovery order of files and with the '
         'HashMap iteration order left ARBITRARY (the per-process hash seed becomes a universally quantified choice in the model): all resulting texts must be '
         'equal; where the pieces differ syntactically Z3 decides whether some value of names / lines makes the texts differ (equal file names in different '
         'directories are in the family).',
    note='A counterexample is confirmed by running the compiled generator in 12 fresh processes (different hash seeds) on both insertion orders. '
         'Bounded to maps of up to 3 patterns with arbitrary iteration order.',
    technique='symbolic execution of MIR with nondeterministic container iteration + Z3, multi-process native confirmation', design='6/C13'),
 'C03': dict(
    text='The three analyze_dir functions executed from MIR over a symbolic file system: directory trees (1..3 entries per directory: eligible file / other '
         'file / sub-directory, depth <= 3), EVERY listing order of every directory (read_dir contract: each entry once, arbitrary order), 1..2 patterns, the '
         'per-file analysis replaced by an uninterpreted result (empty or one symbolic line per file and pattern). Obligation on every path: the returned map, '
         'as a multiset of (pattern, file, lines), equals the union of the per-file results of the eligible files. Exhaustive path enumeration of the bounded '
         'family; there is no arithmetic in this property, so the solver only prunes.',
    note='Counterexamples are rebuilt on disk with file names searched so that the real file system lists them in the counterexample\'s order, then the compiled '
         'analyze_dir is compared with the compiled per-file analysis. HashMap::extend contract = insert each pair, replacing equal keys.',
    technique='symbolic execution of MIR with a nondeterministic file-system model (exhaustive within bounds), native replay on real directories', design='6/C03'),
 'C14': dict(
    text='str_to_optimization / str_to_vulnerability / str_to_qa executed from MIR on every name of the docs tables, README and Solstat.toml (parsed at run time) '
         'with a SYMBOLIC casing mask (all 2^len casings at once), and on a symbolic unknown name (Z3 strings: every accepted string is a documented name); distinct '
         'names -> distinct patterns; every default pattern has a documented name. Opts::new executed from the BINARY\'s MIR with clap / toml / fs / exit stubbed by '
         'arbitrary values: patterns = the configured lists in order (all patterns without --toml), directory = --path ?: toml path ?: ./contracts, an unknown name or '
         'a missing ./contracts fails the run; main() builds the options before anything is written; the compiled binary for --path x configured path x ./contracts, '
         'each readable or not: only files of the directory the property names are listed.',
    note='Native confirmation with the real opts.rs (opts_probe binary) and the real solstat binary. Outside: clap\'s and toml\'s own parsing.',
    technique='symbolic execution of MIR (library + binary) + Z3 strings / casing masks, native replay', design='6/C14'),
 'C15': dict(category='model_checking',
    text='REDUCED CLAIM (no threads). (1) Each analyze_for_* entry executed from MIR on a probe file with a symbolic file number and ARBITRARY iteration order of every '
         'HashSet/HashMap: all paths must return the same lines (17 detectors). (2) In the analyze_dir model the findings of a file are the same with and without '
         'siblings / sub-directories, for every listing order and pattern order. (3) A scan of the MIR for statics / thread-locals / cells; if there are any, they are MODELLED (one frame of global cells per path): the probe is executed '
         'from an arbitrary symbolic value of every scalar static (a verdict that depends on it is confirmed by a native history search before it is reported) and two '
         'calls are executed on one path (equal-length re-layout first) with the second result compared to a fresh run. (4) The compiled code in ONE process: the same '
         'file analysed alone vs. after / interleaved with an equal-length file of different line structure, after stress predecessors (deep, wide at every level, '
         'unparsable), repeated, with patterns reversed, after another category; a directory with equal-length siblings.',
    note='Concurrent calls from several threads are outside the CLAIM (neither engine models threads); when the crate has process-wide state the compiled code is additionally run from 8 threads and a mismatch is reported, but silence there proves nothing. State inside the regex crate is outside too. DESIGN.md 7, 10.8.',
    technique='symbolic execution of MIR with nondeterministic container iteration and modelled process-wide state + native call-sequence differential', design='6/C15, 7, 10.8'),
 'C16': dict(
    text='analyze_dir (3 categories) executed from MIR on a directory containing a file whose NAME is symbolic: 4..8 (thorough 1..10) characters, each a symbolic index '
         'into an alphabet with upper/lower pairs, dots, a space and 2-, 3- and 4-byte characters; suffix / containment / case folding and the BYTE view (length, slicing at character boundaries) are bit-vector constraints, so Z3 decides '
         'every name of that length. Obligations: a name not ending in .sol, or ending in .t.sol in any letter case, is never read (so its bytes — including non-UTF-8 '
         'content — cannot matter or fail the run) and contributes nothing; a .sol name without .t.sol in its lower-case form is analysed; at depth 0..2.',
    note='Names that contain .t.sol without ending in it are left unconstrained (the property can be read either way). Counterexample names are created on disk and '
         'the compiled analyze_dir decides.',
    technique='symbolic execution of MIR + Z3 bit-vectors over symbolic file names, native replay on real directories', design='6/C16'),
 'C17': dict(
    text='REDUCED CLAIM (the parser is outside the solver\'s reach). Analyzer side, symbolic: all 30 detectors executed from MIR on family files with every byte '
         'offset a free symbol and string-literal contents unobservable except their length: no branch may depend on an offset and every reported Loc must be a '
         'node\'s own (position parametricity). End to end, differential on the compiled code: every family file is re-laid-out token-preservingly (random spaces, tabs, '
         'LF / CRLF, blank lines, line / block / doc comments containing code-like and multi-byte text; same tree checked through the real parser) and the real '
         'detectors must flag the same tokens, with lines that follow them.',
    note='Together with C02 (lines = 1 + line feeds before the offset, decided for all texts up to the bound). Outside: the parser itself.',
    technique='symbolic execution of MIR with free offsets (parametricity) + native re-layout differential', design='6/C17, 7'),
 'C18': dict(
    text='REDUCED CLAIM (what the OS does with a system call is outside the solver\'s reach). Decided symbolically: main() of the binary executed from its MIR over a '
         'modelled file system with an EFFECT LOG (every read_dir / read_to_string / write call is recorded by the fs contracts; an fs call without a contract is '
         'Unsupported, never ignored): on every path exactly one write happens, to the literal path solstat_report.md, every read is of an eligible file of the analysed '
         'tree (once per category), and the text written is identical across all configurations of a stale report (none / in the working directory / inside the '
         'analysed directory / working directory = analysed directory). A scan of every call statement in the crate\'s MIR (library and binary) finds no mutating '
         'file-system or process API. Confirmed on the compiled binary: runs in scratch directories with SHA-256 digests of the whole tree before and after, '
         'three stale-report states, both working-directory layouts.',
    note='Trusted: std::fs::write creates or truncates exactly the named file (its documented contract); read_dir / read_to_string modify nothing. '
         'Outside: other processes, symlinks out of the tree, signals.',
    technique='symbolic execution of the binary\'s MIR with a file-system effect log + MIR call scan, native runs of the real binary with tree digests', design='7, 10.6'),
 'C19': dict(
    text='Every detector except the two SafeMath ones executed from MIR three times on files built from the SAME node objects: pragmas + I1 + I2, pragmas + I1, '
         'pragmas + I2 (10 kinds of top-level items: rich contract, constructor after / before functions, packable, constants, library, interface, free function, '
         'struct, empty contract; pragma before / between / after the items, versions on both sides of 0.8.4): the Loc sets must satisfy R(I1 I2) = R(I1) ∪ R(I2), and '
         'the whole file may only panic if an item alone does.',
    note='Natively the single-item files are the two-item file with the other item blanked by spaces (line feeds kept), so offsets stay comparable.',
    technique='symbolic execution of MIR on shared-node compositions, native replay', design='6/C19'),
}
NOT_YET = "check not built yet (framework under construction); see DESIGN.md section 6"
NA = {
}

ids = [json.loads(l)['id'] for l in open('/verif/properties.jsonl')]
m = {
 'version': 1,
 'setup_cmd': './setup.sh',
 'hooks': {'guard': '--cfg solstat_verif', 'enable': 'no source hooks are needed: everything observed is pub; the native runner links the unmodified crate',
           'baseline_off_cmd': 'cd /repo && cargo test --workspace --no-fail-fast --offline', 'source_commits': [], 'add_only': True},
 'engines': [{'name': 'mirsym', 'path': 'mirsym/', 'serves_properties': sorted(CHECKS),
              'kind_free_text': 'symbolic executor for rustc MIR (python + z3), library calls by contract, native replay runner in replay/'}],
 'checks': [], 'not_applicable': [],
 'notes': 'exit 0 = held / only listed known findings; exit 1 = VIOLATION confirmed natively; exit 2 = machinery broken (never a verdict). See DESIGN.md.',
}
for i in ids:
    if i in CHECKS:
        c = CHECKS[i]
        m['checks'].append({
            'property_id': i, 'quick_cmd': './check %s --tier quick' % i, 'thorough_cmd': './check %s --tier thorough' % i,
            'evidence_file': '/verif/evidence/%s.json' % i, 'replay_cmd_template': './check %s --replay {path}' % i,
            'engine': 'mirsym',
            'level_claimed': {'category': c.get('category', 'model_checking'), 'text': c['text'], 'design_ref': c['design']},
            'level_note': c['note'], 'technique': c['technique']})
    else:
        m['not_applicable'].append({'property_id': i, 'reason': NA.get(i, NOT_YET)})
json.dump(m, open('/verif/MANIFEST.json', 'w'), indent=1)
print('checks:', [c['property_id'] for c in m['checks']], 'n/a:', [c['property_id'] for c in m['not_applicable']])
