#!/bin/bash
# setup: verify tools, byte-compile the framework, warm the build cache for the tree as it is (no check depends on it)
cd "$(dirname "$0")"
export CARGO_NET_OFFLINE=true
set -e
python3-vt -c "import z3; assert z3.get_version_string() >= '4.8', z3.get_version_string()"
rustc +nightly --version | grep -q "1.97.0-nightly" || { echo "nightly toolchain is not rustc 1.97.0-nightly: the MIR text format is pinned to it"; exit 1; }
python3-vt -m compileall -q mirsym
python3-vt -m mirsym.prepare
